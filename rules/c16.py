"""C16 - --pep_563 confines only annotation-only imports and keeps the module importable (static clauses).

R-C16.1  import identity: a source statement is removed iff an item with the same (module, object, alias) is moved
         (complete decision table of RemoveImportsTransformer.leave_Import / leave_ImportFrom)
R-C16.2  only new imports are moved: the move list is stub imports minus source imports of the untransformed source
R-C16.3  runtime-needed imports are exempt: typing and the module providing the base class of generated classes
R-C16.4  block placement and flags: TYPE_CHECKING import added, block inserted after the last top-level import,
         no empty block, `from __future__ import annotations` requested exactly with the flag
"""
from __future__ import annotations

import ast
import itertools
from typing import Any, Dict, List, Optional, Tuple

from mtsa.absint import K, R, Ref, S, U, V, State
from mtsa.index import Repo, calls_in, dotted, norm, walk_no_nested
from mtsa.report import AnalysisError, Ctx

from . import cli_model as CL
from .cli_model import CLI, TCI, CliScenario, item
from .common import bound_argument, cfg_of, is_call_to, returns_of

LEVEL = "other"
EXPLANATION = (
    "Static decision of the repository-side clauses of C16 by abstract interpretation (nothing is executed): "
    "RemoveImportsTransformer.leave_Import / leave_ImportFrom are evaluated on every source import statement over a small "
    "alphabet (import m [as x], import m, n, from m import a [as x], from m import a, b, from m import *) against every move "
    "list of import items over the same alphabet: a name may disappear from the statement iff an item with the same module, "
    "object and alias is being moved (so `import shapes` and `from shapes import Circle as C` survive the move of "
    "`from shapes import Circle`). _remove_typing_module is evaluated on item lists: typing and mypy_extensions (base class "
    "of generated TypedDict classes, as produced by stubs.build_module_stubs) never enter the TYPE_CHECKING block. "
    "_split_module is evaluated on module bodies: the block goes after the last top-level import; an empty move list adds "
    "no block. apply_stub_using_libcst is evaluated for the flag on/off: the move list is set(stub imports) - set(source "
    "imports) of the untransformed source, use_future_annotations is the flag, the second transformer runs only with the flag. "
    "Not decided: that the result imports and behaves as before for all sources (needs execution; libcst's own behaviour)."
)


def alias_node(name: str, asname: Optional[str] = None) -> R:
    return R("ImportAlias", evaluated_name=K(name), evaluated_alias=K(asname), name=R("Name", value=K(name)), comma=K("orig"))


def rule_identity(ctx: Ctx, repo: Repo) -> None:
    li = repo.fn(TCI, "RemoveImportsTransformer.leave_Import")
    lf = repo.fn(TCI, "RemoveImportsTransformer.leave_ImportFrom")
    ctx.functions.update({li.fq, lf.fq})
    items_all = [item("m"), item("m", alias="x"), item("m", "a"), item("m", "a", "x"), item("m", "b"), item("n"), item("n", "a"), item("m.sub"), item("m.sub", "a")]
    move_lists: List[Tuple[R, ...]] = [()] + [(i,) for i in items_all] + [(item("m", "a"), item("n")), (item("m"), item("m", "a", "x")), (item("m", "b"), item("m", "a"))]
    # import statements
    import_stmts = [[("m", None)], [("m", "x")], [("m", None), ("n", None)], [("m.sub", None)], [("n", "x"), ("m", None)]]
    n = 0
    for names in import_stmts:
        node = R("Import", names=K(tuple(alias_node(a, b) for a, b in names)))
        for moved in move_lists:
            sc = CliScenario(repo, TCI, "RemoveImportsTransformer.leave_Import")
            sc.ri.on_attr = sc.ri.interp.on_attr = (lambda obj, attr, nd, st, _m=moved, _b=sc.on_attr: K(tuple(_m)) if isinstance(obj, S) and obj.name == "self" and attr == "import_items_to_be_removed" else _b(obj, attr, nd, st))  # type: ignore
            ps = li.positional_params()
            k, res = sc.result({ps[0]: S("self"), ps[1]: node, ps[2]: node})
            n += 1
            want_keep = [(a, b) for a, b in names if item(a, None, b) not in moved]
            got_keep = _kept(res)
            lab = f"`import {', '.join(a + (' as ' + b if b else '') for a, b in names)}` while moving {[_it(i) for i in moved]}"
            ctx.check(k == "return" and got_keep == want_keep, "R-C16.1", li.fq,
                      "an `import m [as x]` name is removed iff the very same import (module, no object, same alias) is being moved",
                      construct=f"{lab}: kept {got_keep}, expected {want_keep}")
    from_stmts = [("m", [("a", None)]), ("m", [("a", "x")]), ("m", [("a", None), ("b", None)]), ("n", [("a", None)]), ("m.sub", [("a", None)]), ("m", [("a", "x"), ("a", None)])]
    for mod, names in from_stmts:
        node = R("ImportFrom", module=K(mod), names=K(tuple(alias_node(a, b) for a, b in names)))
        for moved in move_lists:
            sc = CliScenario(repo, TCI, "RemoveImportsTransformer.leave_ImportFrom")
            sc.ri.on_attr = sc.ri.interp.on_attr = (lambda obj, attr, nd, st, _m=moved, _b=sc.on_attr: K(tuple(_m)) if isinstance(obj, S) and obj.name == "self" and attr == "import_items_to_be_removed" else _b(obj, attr, nd, st))  # type: ignore
            ps = lf.positional_params()
            k, res = sc.result({ps[0]: S("self"), ps[1]: node, ps[2]: node})
            n += 1
            want_keep = [(a, b) for a, b in names if item(mod, a, b) not in moved]
            got_keep = _kept(res)
            lab = f"`from {mod} import {', '.join(a + (' as ' + b if b else '') for a, b in names)}` while moving {[_it(i) for i in moved]}"
            ctx.check(k == "return" and got_keep == want_keep, "R-C16.1", lf.fq,
                      "a `from m import a [as x]` name is removed iff the very same import (module, object, alias) is being moved",
                      construct=f"{lab}: kept {got_keep}, expected {want_keep}")
    # relative imports of the source.  libcst resolves `from .m import x` against the package its context knows; without
    # a package the import is unresolvable: the gatherer skips it and the remover matches nothing.  Both sites must have
    # the same knowledge - if only the remover resolves relative imports, a source import is taken for one of the stub's
    # new imports and removed.
    seen_pkg: List[V] = []

    def spy(call, fname, fval, args, kwargs, st, _s=seen_pkg):
        if (fname or "") == "get_absolute_module_from_package_for_import" and (args or "current_package" in kwargs):
            _s.append(st.freeze(args[0] if args else kwargs["current_package"]))
        return None

    probe = R("ImportFrom", module=K("shapes"), relative=K(1), names=K((alias_node("Circle"),)))
    sc = CliScenario(repo, TCI, "RemoveImportsTransformer.leave_ImportFrom", hook=spy)
    def oa0(obj, attr, nd, st, _b=sc.on_attr):
        if isinstance(obj, S) and obj.name == "self" and attr == "import_items_to_be_removed":
            return K((item("shop.shapes", "Circle"),))
        if isinstance(obj, S) and obj.name == "self":
            return S("self." + attr)
        return _b(obj, attr, nd, st)
    sc.ri.on_attr = sc.ri.interp.on_attr = oa0  # type: ignore
    ps = lf.positional_params()
    try:
        sc.result({ps[0]: S("self"), ps[1]: probe, ps[2]: probe})
    except AnalysisError:
        pass
    remover_knows = [p_ for p_ in seen_pkg if p_ != K(None)]
    gather_ctx: List[Dict[str, V]] = []

    def spy2(call, fname, fval, args, kwargs, st, _g=gather_ctx):
        d = fname or ""
        if d == "CodemodContext":
            return R("context", package=st.freeze(kwargs.get("full_package_name", K(None))), module=st.freeze(kwargs.get("full_module_name", K(None))))
        if d == "GatherImportsVisitor":
            _g.append({"context": st.freeze(args[0]) if args else K(None)})
            return R("gatherer", n=K(len(_g)))
        if isinstance(call.func, ast.Attribute) and call.func.attr == "visit":
            return K(None)
        return None

    gn = repo.fn(CLI, "get_newly_imported_items")
    scg = CliScenario(repo, CLI, "get_newly_imported_items", hook=spy2)
    baseg = scg.on_attr
    scg.ri.on_attr = scg.ri.interp.on_attr = (lambda obj, attr, nd, st, _b=baseg: R("opaque", of=obj, attr=K(attr)) if isinstance(obj, R) and obj.kind == "gatherer" else _b(obj, attr, nd, st))  # type: ignore
    try:
        scg.result({p_: R("module", of=S(p_)) for p_ in gn.positional_params()[:2]} | {p_: S("arg:" + p_) for p_ in gn.positional_params()[2:]})
    except AnalysisError:
        pass
    gatherer_knows = [c for c in gather_ctx if isinstance(c["context"], R) and c["context"].kind == "context" and c["context"].fields["package"] != K(None)]
    n += 1
    ctx.check(not remover_knows or len(gatherer_knows) == len(gather_ctx) >= 2, "R-C16.1", lf.fq,
              "relative imports are resolved by the remover only if the computation of the new imports resolves them too (otherwise a source import is taken for new and removed)",
              construct=f"remover resolves against {[str(x) for x in seen_pkg]}; gatherer contexts {[str(c['context'])[:60] for c in gather_ctx]}")
    if not remover_knows:
        for dots, mod, moved_mod in ((1, "shapes", "shop.shapes"), (2, "shapes", "shop.shapes"), (1, None, "shop"), (1, "shapes", "shapes"), (2, "pkg.shapes", "pkg.shapes")):
            node = R("ImportFrom", module=K(mod), relative=K(dots), names=K((alias_node("Circle"),)))
            moved = (item(moved_mod, "Circle"),)
            sc = CliScenario(repo, TCI, "RemoveImportsTransformer.leave_ImportFrom")
            sc.ri.on_attr = sc.ri.interp.on_attr = (lambda obj, attr, nd, st, _m=moved, _b=sc.on_attr: K(tuple(_m)) if isinstance(obj, S) and obj.name == "self" and attr == "import_items_to_be_removed" else _b(obj, attr, nd, st))  # type: ignore
            k, res = sc.result({ps[0]: S("self"), ps[1]: node, ps[2]: node})
            n += 1
            ctx.check(k == "return" and _kept(res) == [("Circle", None)], "R-C16.1", lf.fq,
                      "a relative import of the source is never removed (unresolvable without a package, it matches none of the stub's absolute imports)",
                      construct=f"`from {'.' * dots}{mod or ''} import Circle` while moving `from {moved_mod} import Circle`: kept {_kept(res)}")
    # star imports are never touched
    star = R("ImportFrom", module=K("m"), names=R("ImportStar"))
    sc = CliScenario(repo, TCI, "RemoveImportsTransformer.leave_ImportFrom")
    sc.ri.on_attr = sc.ri.interp.on_attr = (lambda obj, attr, nd, st, _b=sc.on_attr: K((item("m", "a"),)) if isinstance(obj, S) and obj.name == "self" and attr == "import_items_to_be_removed" else _b(obj, attr, nd, st))  # type: ignore
    ps = lf.positional_params()
    k, res = sc.result({ps[0]: S("self"), ps[1]: star, ps[2]: star})
    ctx.check(k == "return" and res == star, "R-C16.1", lf.fq, "`from m import *` is left untouched", construct=f"{k} {str(res)[:80]}")
    ctx.floor("R-C16.1", "statement x move-list scenarios", n, 120)


def _kept(res: Any) -> Any:
    if isinstance(res, R) and res.kind == "removed":
        return []
    if isinstance(res, R) and res.kind in ("Import", "ImportFrom"):
        names = res.fields["names"]
        seq = names.v if isinstance(names, K) else (names.fields["items"] if isinstance(names, R) and names.kind == "list" else None)
        if seq is None:
            return f"?{names}"
        return [(a.fields["evaluated_name"].v, a.fields["evaluated_alias"].v) for a in seq]
    return f"?{str(res)[:60]}"


def _it(i: R) -> str:
    f = i.fields
    s = f"from {f['module_name'].v} import {f['obj_name'].v}" if f["obj_name"].v else f"import {f['module_name'].v}"
    return s + (f" as {f['alias'].v}" if f["alias"].v else "")


def _runtime_name_producers(repo: Repo) -> set:
    """Modules the generated stub imports names from although no annotation mentions them: build_module_stubs is
    interpreted on `def f(x: int) -> int` carrying one generated TypedDict class (fields of builtin types only); what its
    import block then lists is what the generated runtime code (the class statements) needs."""
    from . import anno_model as AM
    from .render_model import attribute_stub, class_stub, fkind, inst, to_inst
    from .sig_model import ST, param, sig
    from .c11 import cls as _cls
    INT = _cls("builtins", "int")
    td = class_stub("FooTypedDict__RENAME_ME__(TypedDict)", [], [attribute_stub("a", INT)])
    d = inst("FunctionDefinition", module=K("pkg.mod"), qualname=K("f"), kind=fkind("MODULE"), signature=sig([param("x", INT)], INT),
             is_async=K(False), typed_dict_class_stubs=R("list", items=(td,)))
    sc = AM.AnnoScenario(repo, ST, "build_module_stubs")
    AM._install_importmap(sc)
    k, res = sc.result({sc.fi.positional_params()[0]: K((d,))})
    if k != "return" or not (isinstance(res, R) and res.kind == "dict"):
        raise AnalysisError(f"R-C16.3: build_module_stubs on a definition with a generated class: {k} {str(res)[:80]}")
    out = set()
    for _m, ms in res.fields["items"]:
        imp = to_inst(ms).fields["imports_stub"].fields["imports"]
        for mk, _names in imp.fields["items"]:
            if not (isinstance(mk, K) and isinstance(mk.v, str)):
                raise AnalysisError(f"R-C16.3: import block key not determined: {mk}")
            out.add(mk.v)
    return out



def rule_exempt(ctx: Ctx, repo: Repo) -> None:
    fi = repo.fn(TCI, "MoveImportsToTypeCheckingBlockVisitor._remove_typing_module")
    ctx.functions.add(fi.fq)
    # producer table: modules from which generated *runtime* code takes names (stubs.build_module_stubs)
    producers = _runtime_name_producers(repo)
    ctx.floor("R-C16.3", "modules providing names to generated runtime code (build_module_stubs)", len(producers), 1)
    mods = ["typing", "mypy_extensions", "pkg.shapes", "typing_extra", "collections"] + sorted(producers)
    items = [item(m, "X") for m in dict.fromkeys(mods)]
    p = fi.positional_params()[0]
    k, res = CliScenario(repo, TCI, "MoveImportsToTypeCheckingBlockVisitor._remove_typing_module").result({p: K(tuple(items))})
    kept = [x.fields["module_name"].v for x in (res.fields["items"] if isinstance(res, R) and res.kind == "list" else [])]
    need_out = {"typing"} | producers
    ctx.check(k == "return" and not (set(kept) & need_out), "R-C16.3", fi.fq,
              "imports needed when the module is imported (typing, and the base class of generated TypedDict classes) are never confined to the TYPE_CHECKING block",
              construct=f"confined modules {kept}; must stay at runtime: {sorted(need_out)}")
    ctx.check(set(kept) >= {"pkg.shapes", "typing_extra", "collections"} and len(kept) == len(set(kept)), "R-C16.3", fi.fq,
              "every other newly introduced import is confined (exact module-name match, no prefix match)", construct=f"{kept}")
    # transform_module_impl interpreted with its helpers inlined, observed at the libcst boundary: TYPE_CHECKING import
    # first; with a move list: the imports removed from the tree and the imports put into the block are the SAME list,
    # the one without the runtime modules; without a move list nothing else happens
    tm = repo.fn(TCI, "MoveImportsToTypeCheckingBlockVisitor.transform_module_impl")
    ctx.functions.add(tm.fq)
    moved_in = [item("pkg.shapes", "Circle"), item("typing", "List"), item("mypy_extensions", "TypedDict"), item("os.path", None)]
    want_list = [i_ for i_ in moved_in if i_.fields["module_name"].v not in need_out]
    for with_items in (True, False):
        eff: List[Tuple[Any, ...]] = []

        def cur_items(st: State) -> Any:
            for e in reversed(st.effects):
                if e[0] == "setattr" and e[2] == "import_items_to_be_moved":
                    return st.freeze(e[3])
            return None

        def as_list(v: Any) -> Any:
            if isinstance(v, R) and v.kind == "list":
                return list(v.fields["items"])
            if isinstance(v, K) and isinstance(v.v, tuple):
                return list(v.v)
            return v

        def hook(call, fname, fval, args, kwargs, st, _e=eff):
            m = call.func.attr if isinstance(call.func, ast.Attribute) else None
            d = fname or ""
            if d == "CodemodContext":
                return R("context", n=K(len(_e)))
            if d.endswith("add_needed_import"):
                _e.append(("need", tuple(a.v for a in args[1:] if isinstance(a, K))))
                return K(None)
            if d == "AddImportsVisitor":
                return R("visitor", what=K("add-imports"))
            if m == "transform_module" and isinstance(fval, R) and fval.kind == "visitor":
                _e.append(("transform", fval.fields["what"].v))
                return R("tree", by=fval.fields["what"], of=st.freeze(args[0]))
            if d == "RemoveImportsTransformer":
                return R("remover", items=st.freeze(args[0]) if args else K(None))
            if m == "visit" and args and isinstance(args[0], R) and args[0].kind == "remover":
                _e.append(("remove", as_list(args[0].fields["items"])))
                return R("tree", by=K("remover"), of=st.freeze(fval))
            if m == "_add_if_type_checking_block" and isinstance(fval, S) and fval.name == "self":
                _e.append(("block", as_list(cur_items(st))))
                return R("tree", by=K("block"), of=st.freeze(args[0]) if args else K(None))
            if m == "get" and isinstance(fval, S) and "scratch" in fval.name:
                return K((K(tuple(moved_in)),)) if with_items else K(None)
            return None

        sc = CliScenario(repo, TCI, "MoveImportsToTypeCheckingBlockVisitor.transform_module_impl", hook=hook, inline_all=True)
        base = sc.on_attr

        def on_attr(obj, attr, nd, st, _b=base):
            if isinstance(obj, S) and obj.name == "self" and attr == "import_items_to_be_moved":
                v = None
                for e in reversed(st.effects):
                    if e[0] == "setattr" and e[2] == "import_items_to_be_moved":
                        v = e[3]
                        break
                if v is not None:
                    return v
            return _b(obj, attr, nd, st)
        sc.ri.on_attr = sc.ri.interp.on_attr = on_attr  # type: ignore
        try:
            o = sc.run({"self": S("self"), tm.positional_params()[1]: R("tree", by=K("input"), of=K(None))})
        except AnalysisError as e:
            ctx.violate("R-C16.4", tm.fq, f"move list present={with_items}: {str(e)[:160]}",
                        "the steps of the import mover depend on a condition the scenario does not decide (the TYPE_CHECKING import must be requested unconditionally)")
            continue
        kinds = [e[0] for e in eff]
        first_ok = kinds[:2] == ["need", "transform"] and eff[0][1] == ("typing", "TYPE_CHECKING")
        if with_items:
            ok = first_ok and kinds[2:] == ["remove", "block"]
            ctx.check(ok, "R-C16.4", tm.fq,
                      "TYPE_CHECKING is imported first; with a move list: runtime imports are dropped from it, the moved imports are removed, then the block is added",
                      construct=f"move list present: {kinds}")
            rem = next((e[1] for e in eff if e[0] == "remove"), None)
            blk = next((e[1] for e in eff if e[0] == "block"), None)
            ctx.check(rem == want_list and blk == want_list, "R-C16.3", tm.fq,
                      "the list used for removal and for the block is the one without the runtime imports",
                      construct=f"removed {[_it(x) for x in rem] if isinstance(rem, list) else rem}; block {[_it(x) for x in blk] if isinstance(blk, list) else blk}")
        else:
            ctx.check(first_ok and kinds[2:] == [], "R-C16.4", tm.fq, "without a move list only the TYPE_CHECKING import is added", construct=f"{kinds}")


def rule_split(ctx: Ctx, repo: Repo) -> None:
    fi = repo.fn(TCI, "MoveImportsToTypeCheckingBlockVisitor._split_module")
    ctx.functions.add(fi.fq)
    def imp(i: int) -> R:
        return R("Import", id=K(i))
    def line(i: int, *body: R) -> R:
        return R("stmt", simple=K(True), id=K(i), body=K(tuple(body)))
    def comp(i: int, *nested: R) -> R:
        return R("stmt", simple=K(False), id=K(i), nested=K(tuple(nested)))
    bodies = [
        ("docstring, future import, import, code", [line(0, R("Expr", id=K(0))), line(1, imp(1)), line(2, imp(2)), line(3, R("Assign", id=K(3)))], 3),
        ("imports separated by code", [line(0, imp(1)), line(1, R("Assign", id=K(9))), line(2, imp(2)), comp(3)], 3),
        ("no import at all", [line(0, R("Expr", id=K(0))), comp(1)], 0),
        ("import inside a function only", [line(0, R("Expr", id=K(0))), comp(1, imp(5))], 0),
        ("import in a try block and a later plain import", [comp(0, imp(4)), line(1, imp(2)), comp(2)], 2),
        ("two imports on one line", [line(0, imp(1), imp(2)), line(1, R("Expr", id=K(3)))], 1),
    ]
    for name, body, want in bodies:
        all_imps = [x for s in body for x in (list(s.fields.get("body", K(())).v) + list(s.fields.get("nested", K(())).v)) if isinstance(x, R) and x.kind == "Import"]
        def hook(call, fname, fval, args, kwargs, st, _a=all_imps):
            if fname == "GatherImportsVisitor":
                return R("gatherer", all_imports=K(tuple(_a)))
            if isinstance(call.func, ast.Attribute) and call.func.attr == "visit":
                return K(None)
            return None
        sc = CliScenario(repo, TCI, "MoveImportsToTypeCheckingBlockVisitor._split_module", hook=hook)
        k, res = sc.result({"self": S("self"), fi.positional_params()[1]: R("module", body=K(tuple(body)))})
        if isinstance(res, R) and res.kind == "nt":
            res = K(tuple(res.fields[n_] for n_ in res.fields["__fields__"].v))  # a two-field NamedTuple instead of a pair
        ok = k == "return" and isinstance(res, K) and isinstance(res.v, tuple) and len(res.v) == 2
        if ok:
            a, b = res.v
            la = len(a.fields["items"]) if isinstance(a, R) and a.kind == "list" else -1
            lb = len(b.fields["items"]) if isinstance(b, R) and b.kind == "list" else -1
            ok = la == want and la + lb == len(body)
        ctx.check(ok, "R-C16.4", fi.fq, "the TYPE_CHECKING block is inserted right after the last top-level import statement (imports nested in other statements do not count)",
                  construct=f"{name}: split {str(res)[:80] if not ok else ''} expected after {want} statement(s)")
    # no empty block
    ab = repo.fn(TCI, "MoveImportsToTypeCheckingBlockVisitor._add_if_type_checking_block")
    ctx.functions.add(ab.fq)
    sc = CliScenario(repo, TCI, "MoveImportsToTypeCheckingBlockVisitor._add_if_type_checking_block", inline_all=False)
    base = sc.on_attr
    sc.ri.on_attr = sc.ri.interp.on_attr = (lambda obj, attr, nd, st, _b=base: st.alloc("list", []) if isinstance(obj, S) and obj.name == "self" and attr == "import_items_to_be_moved" else _b(obj, attr, nd, st))  # type: ignore
    mod = R("module", body=K(()))
    k, res = sc.result({"self": S("self"), ab.positional_params()[1]: mod})
    ctx.check(k == "return" and res == mod, "R-C16.4", ab.fq, "with nothing to move no (empty, invalid) TYPE_CHECKING block is added", construct=f"{k} {str(res)[:80]}")
    # the TYPE_CHECKING import itself: _add_type_checking_import interpreted (helpers inlined)
    at = repo.fn(TCI, "MoveImportsToTypeCheckingBlockVisitor._add_type_checking_import")
    ctx.functions.add(at.fq)
    eff: List[Tuple[Any, ...]] = []

    def hook_tc(call, fname, fval, args, kwargs, st, _e=eff):
        d = fname or ""
        m = call.func.attr if isinstance(call.func, ast.Attribute) else None
        if d == "CodemodContext":
            return R("context", n=K(len([e for e in _e if e[0] == "ctx"]))) if not _e.append(("ctx",)) else None
        if d.endswith("add_needed_import"):
            _e.append(("need", tuple(st.freeze(a) for a in args), tuple(sorted((k, st.freeze(v)) for k, v in kwargs.items()))))
            return K(None)
        if d == "AddImportsVisitor":
            return R("visitor", what=K("add-imports"), context=st.freeze(args[0]) if args else kwargs.get("context", K(None)))
        if m == "transform_module" and isinstance(fval, R) and fval.kind == "visitor":
            _e.append(("transform", fval, st.freeze(args[0])))
            return R("transformed", by=fval, of=st.freeze(args[0]))
        return None

    sc = CliScenario(repo, TCI, "MoveImportsToTypeCheckingBlockVisitor._add_type_checking_import", hook=hook_tc)
    src = R("module", of=S("source"))
    try:
        k, res = sc.result({p: src for p in at.positional_params()[-1:]} | ({"self": S("self")} if at.positional_params()[0] == "self" else {}))
        needs = [e for e in eff if e[0] == "need"]
        trs = [e for e in eff if e[0] == "transform"]
        ok_need = len(needs) == 1 and (list(needs[0][1][1:]) + [v for _, v in needs[0][2] if not isinstance(v, R)])[:2] == [K("typing"), K("TYPE_CHECKING")]
        ctx.check(ok_need, "R-C16.4", at.fq, "`from typing import TYPE_CHECKING` is added", construct=f"{needs}"[:200])
        ok_seq = ok_need and len(trs) == 1 and eff.index(needs[0]) < eff.index(trs[0]) and trs[0][1].fields["context"] == needs[0][1][0] and trs[0][2] == src \
            and k == "return" and res == R("transformed", by=trs[0][1], of=src)
        why = f"{[e[0] for e in eff]}, result {k} {str(res)[:80]}"
    except AnalysisError as e:
        ok_seq, why = False, f"the request depends on a condition: {e}"
    ctx.check(ok_seq, "R-C16.4", at.fq,
              "the TYPE_CHECKING import is requested on every path (libcst's AddImportsVisitor puts it into the leading import block and does not duplicate it; "
              "skipping it because the name is imported somewhere else, e.g. inside a try block further down, leaves the new block above the binding)",
              construct=why)


def rule_cli(ctx: Ctx, repo: Repo) -> None:
    fi = repo.fn(CLI, "apply_stub_using_libcst")
    gn = repo.fn(CLI, "get_newly_imported_items")
    ctx.functions.update({fi.fq, gn.fq})
    ps = fi.positional_params()
    def symbol_of(it: R) -> Any:
        return it.fields["alias"].v or it.fields["obj_name"].v or it.fields["module_name"].v

    def symbol_mapping_values(items: List[R]) -> List[R]:
        """libcst GatherImportsVisitor.symbol_mapping: one entry per bound SYMBOL - a later import of the same symbol replaces the
        earlier one (read from the installed libcst's source)"""
        m: Dict[Any, R] = {}
        for it in items:
            m[symbol_of(it)] = it
        return list(m.values())

    for flag, variant in ((False, "plain"), (True, "plain"), (True, "symbol bound twice")):
        trace: List[Tuple[Any, ...]] = []
        stub_items = [item("pkg.shapes", "Circle"), item("typing", "List"), item("os", None)]
        src_items = [item("os", None), item("pkg.shapes", None)]
        if variant == "symbol bound twice":
            # `try: from fast import Point` / `except ImportError: from slow import Point` - the source binds Point twice;
            # the stub imports the class where it really lives
            stub_items = [item("fast", "Point"), item("typing", "List")]
            src_items = [item("fast", "Point"), item("slow", "Point"), item("os", None)]
        gather_count = [0]
        n_gatherers = [0]
        visited: Dict[int, Any] = {}

        def gathered(gid: int, attr: str) -> Optional[V]:
            """the attributes of a libcst GatherImportsVisitor after it visited a module (catalogue read from libcst's source):
            module_imports {module}, module_aliases {module: alias}, object_mapping {module: {name}}, alias_mapping
            {module: [(name, alias)]}, symbol_mapping {symbol: item} (last import of a symbol wins)"""
            which = visited.get(gid)
            if which is None:
                return None
            items_ = stub_items if (isinstance(which, R) and which.fields.get("of") == S("stub")) else src_items
            f_ = lambda it, k_: it.fields[k_].v  # noqa: E731
            if attr == "module_imports":
                return K(frozenset(K(f_(it, "module_name")) for it in items_ if f_(it, "obj_name") is None and f_(it, "alias") is None))
            if attr == "module_aliases":
                return R("dict", items=tuple((K(f_(it, "module_name")), K(f_(it, "alias"))) for it in items_ if f_(it, "obj_name") is None and f_(it, "alias") is not None))
            if attr == "object_mapping":
                mods: Dict[str, List[V]] = {}
                for it in items_:
                    if f_(it, "obj_name") is not None and f_(it, "alias") is None:
                        mods.setdefault(f_(it, "module_name"), []).append(K(f_(it, "obj_name")))
                return R("dict", items=tuple((K(m_), K(frozenset(v_))) for m_, v_ in mods.items()))
            if attr == "alias_mapping":
                mods2: Dict[str, List[V]] = {}
                for it in items_:
                    if f_(it, "obj_name") is not None and f_(it, "alias") is not None:
                        mods2.setdefault(f_(it, "module_name"), []).append(K((K(f_(it, "obj_name")), K(f_(it, "alias")))))
                return R("dict", items=tuple((K(m_), R("list", items=tuple(v_))) for m_, v_ in mods2.items()))
            if attr == "symbol_mapping":
                return R("dict", items=tuple((K(symbol_of(it)), it) for it in symbol_mapping_values(items_)))
            return None

        def hook(call, fname, fval, args, kwargs, st, _t=trace, _g=gather_count, _n_g=n_gatherers, _visited=visited):
            m = call.func.attr if isinstance(call.func, ast.Attribute) else None
            d = fname or ""
            if d == "parse_module":
                return R("module", of=args[0])
            if d == "CodemodContext":
                return R("context", n=K(len(_t)))
            if d.endswith("store_stub_in_context"):
                _t.append(("store_stub", tuple(st.freeze(a) for a in args), tuple(sorted((k, repr(st.freeze(v))) for k, v in kwargs.items()))))
                return K(None)
            if d == "ApplyTypeAnnotationsVisitor":
                return R("visitor", what=K("apply"))
            if d == "MoveImportsToTypeCheckingBlockVisitor":
                return R("visitor", what=K("move"))
            if d.split(".")[-1].endswith(("Visitor", "Transformer", "Codemod", "Command")) and d.split(".")[-1] not in ("GatherImportsVisitor",):
                return R("visitor", what=K(d))  # any other libcst transformer: shows up in the transform trace
            if d.endswith("store_imports_in_context"):
                _t.append(("store_imports", tuple(st.freeze(a) for a in args)))
                return K(None)
            if m == "transform_module" and isinstance(fval, R) and fval.kind == "visitor":
                _t.append(("transform", fval.fields["what"].v, st.freeze(args[0])))
                return R("transformed", by=fval.fields["what"], of=st.freeze(args[0]))
            if d == "GatherImportsVisitor":
                _n_g[0] += 1
                return R("gatherer", id=K(_n_g[0]))
            if m == "visit" and isinstance(fval, R) and fval.kind == "module":
                _t.append(("gather", st.freeze(fval)))
                if args and isinstance(args[0], R) and args[0].kind == "gatherer":
                    _visited[args[0].fields["id"].v] = st.freeze(fval)
                return K(None)
            if d == "ImportItem":
                names = ("module_name", "obj_name", "alias", "relative")
                vals = {n_: v_ for n_, v_ in zip(names, args)}
                vals.update(kwargs)
                mn = vals.get("module_name", K(""))
                return item(mn.v if isinstance(mn, K) else str(mn), vals.get("obj_name", K(None)).v, vals.get("alias", K(None)).v) if all(isinstance(vals.get(n_, K(None)), K) for n_ in names[:3]) else None
            if m == "values" and isinstance(fval, R) and fval.kind == "opaque" and fval.fields["attr"] == K("symbol_mapping"):
                _g[0] += 1
                # the n-th gather call belongs to the n-th visited module
                gathers = [e for e in _t if e[0] == "gather"]
                which = gathers[_g[0] - 1][1] if len(gathers) >= _g[0] else None
                is_stub = isinstance(which, R) and which.fields.get("of") == S("stub")
                return K(tuple(symbol_mapping_values(stub_items if is_stub else src_items)))
            return None
        sc = CliScenario(repo, CLI, "apply_stub_using_libcst", hook=hook)
        base = sc.on_attr
        def on_attr(obj, attr, nd, st, _b=base, _gathered=gathered):
            if isinstance(obj, R) and obj.kind == "gatherer":
                v_g = _gathered(obj.fields["id"].v, attr)
                if v_g is not None:
                    return v_g
                return R("opaque", of=obj, attr=K(attr))
            return _b(obj, attr, nd, st)
        sc.ri.on_attr = sc.ri.interp.on_attr = on_attr  # type: ignore
        k, res = sc.result({ps[0]: S("stub"), ps[1]: S("source"), ps[2]: S("overwrite"), ps[3]: K(flag)})
        lab = f"confine={flag}" + ("" if variant == "plain" else f" ({variant})")
        stores = [e for e in trace if e[0] == "store_stub"]
        ok = len(stores) == 1
        if ok:
            a, kw = stores[0][1], dict(stores[0][2])
            ok = len(a) >= 3 and a[1] == R("module", of=S("stub")) and a[2] == S("overwrite") and kw.get("use_future_annotations") == repr(K(flag))
        ctx.check(ok, "R-C16.4", fi.fq, "`from __future__ import annotations` is requested from libcst exactly when import confinement is on; the overwrite flag is passed through",
                  construct=f"{lab}: {stores}"[:300])
        tr = [e for e in trace if e[0] == "transform"]
        want_tr = [("apply", R("module", of=S("source")))] + ([("move", R("transformed", by=K("apply"), of=R("module", of=S("source"))))] if flag else [])
        ctx.check([(e[1], e[2]) for e in tr] == want_tr, "R-C16.4", fi.fq,
                  "the source is transformed by ApplyTypeAnnotationsVisitor and, only with the flag, then by MoveImportsToTypeCheckingBlockVisitor",
                  construct=f"{lab}: {[(e[1]) for e in tr]}")
        final = R("opaque", of=want_tr[-1] and R("transformed", by=K(want_tr[-1][0]), of=want_tr[-1][1]), attr=K("code"))
        ctx.check(k == "return" and res == final, "R-C16.4", fi.fq, "the result is the code of the last transformation", construct=f"{lab}: {k} {str(res)[:120]}")
        if flag:
            si = [e for e in trace if e[0] == "store_imports"]
            gathers = [e[1] for e in trace if e[0] == "gather"]
            ok = len(si) == 1 and len(si[0][1]) >= 2
            moved = si[0][1][1] if ok else None
            got = sorted(map(repr, moved.fields["items"])) if isinstance(moved, R) and moved.kind == "list" else None
            want = sorted(map(repr, [i for i in stub_items if i not in src_items]))
            if variant == "plain":
                ctx.check(got == want, "R-C16.2", gn.fq, "the imports to confine are exactly the stub's imports that the source does not already have (set difference, stub minus source)",
                          construct=f"moved {got if got is not None else str(moved)[:200]} expected {want}")
            else:
                ctx.check(got == want, "R-C16.2", gn.fq,
                          "an import the source already has is never taken for new, also when the source binds the same symbol more than once (try/except ImportError fallbacks)",
                          construct="the source's imports are read from GatherImportsVisitor.symbol_mapping, which keeps only the LAST import of each symbol: an earlier import of the same symbol counts as new and is removed from the source")
            ctx.check(R("module", of=S("source")) in gathers and R("module", of=S("stub")) in gathers and len(gathers) == 2, "R-C16.2", gn.fq,
                      "the source's existing imports are gathered from the untransformed source module", construct=f"{[str(g)[:60] for g in gathers]}")
        else:
            ctx.check(not [e for e in trace if e[0] in ("store_imports", "gather")], "R-C16.4", fi.fq, "without the flag nothing is confined", construct=f"{[e[0] for e in trace]}")
    # failures of libcst become HandlerError (exit status 1, file untouched - see C15)
    def failing(call, fname, fval, args, kwargs, st):
        if (fname or "") == "parse_module":
            st.pending = st.pending or "ParserSyntaxError"
            return U("parse error")
        return None
    sc = CliScenario(repo, CLI, "apply_stub_using_libcst", hook=failing)
    sc.ri.interp.exc_parents["ParserSyntaxError"] = "Exception"
    k, res = sc.result({ps[0]: S("stub"), ps[1]: S("source"), ps[2]: S("overwrite"), ps[3]: K(True)})
    ctx.check(k == "raise" and res == "HandlerError", "R-C16.4", fi.fq, "a failing transformation is reported as HandlerError", construct=f"{k} {res}")


def run(ctx: Ctx, repo: Repo, tier: str) -> None:
    ctx.trust("libcst: ImportItem identity is (module_name, obj_name, alias, relative); GatherImportsVisitor.symbol_mapping maps each imported symbol to its ImportItem; "
              "ImportAlias.evaluated_name / evaluated_alias are the dotted name and the alias; leave_* returning RemoveFromParent() deletes the statement",
              "class bodies (`class X(TypedDict)`) are evaluated when the module is imported, so their base class must be imported at runtime")
    ctx.attempt(rule_identity, ctx, repo)
    ctx.attempt(rule_exempt, ctx, repo)
    ctx.attempt(rule_split, ctx, repo)
    ctx.attempt(rule_cli, ctx, repo)
    ctx.settle()
