"""C08 - types and call traces survive serialisation unchanged (static clauses).

R-C08.1  decode(encode(T)) is structurally T for every abstract type of the universe (abstract interpretation
         of type_to_json / type_from_json through json.dumps/loads modelled as a transparent pair)
R-C08.2  row-shape agreement: CREATE TABLE columns / INSERT tuple / SELECT list / CallTraceRow.__init__ / from_trace / to_trace
R-C08.3  a call trace round-trips through CallTraceRow with absent return/yield kept distinct from NoneType
R-C08.4  canonical text: every json.dumps in the codec sorts keys
R-C08.5  hidden builtin table: every entry is reachable by its key and decodes to the type it names
R-C08.11 a type decodes to itself whatever was decoded before it in the process (no memo of names keyed by dotted text)
R-C08.10 a row carries the module and qualified name of the traced function object itself
R-C08.9  every generic form built by the inference functions is a form of the decided universe (no PEP 585 aliases)
R-C08.8  a recorded class that is no longer found under its name never decodes to a different, similarly named class
"""
from __future__ import annotations

import ast
from typing import Any, Dict, List, Tuple

from mtsa import sqlmini
from mtsa.absint import K, R, S, U, V
from mtsa.index import Repo, calls_in, dotted, norm, walk_no_nested
from mtsa.report import AnalysisError, Ctx

from . import codec_model as CM
from . import db_model as DM
from .codec_model import ENC, CodecScenario, World, same_type, show

LEVEL = "other"
EXPLANATION = (
    "Static decision of the structural clauses of C08: type_to_json and type_from_json are interpreted abstractly and "
    "composed over a universe of abstract types (builtin and user classes incl. nested ones, NoneType, Any, bare Callable, "
    "List/Set/Dict/DefaultDict/Tuple incl. Tuple[()], Type[C], Iterator[Any], Generator, Union/Optional, anonymous TypedDicts "
    "with required and optional fields nested under every container kind): the decoded type must be structurally equal to "
    "the encoded one and the encoder must request sorted keys. CallTraceRow.from_trace -> to_trace is composed the same way "
    "for return/yield each absent, NoneType or a type. The four row tables (CREATE TABLE, INSERT tuple, SELECT list, "
    "CallTraceRow.__init__ fed by CallTraceRow(*row)) are extracted from the source (SQL folded and parsed) and must agree "
    "position by position. Not decided: equality on concrete runtime types outside the universe; sqlite's own storage."
)


def _first_diff(a: Any, b: Any, path: str = "") -> str:
    from mtsa.absint import K as _K, R as _R
    if isinstance(a, _R) and isinstance(b, _R) and a.kind == b.kind:
        if a.kind == "dict" and "items" in a.fields and "items" in b.fields:
            da, db = dict(a.fields["items"]), dict(b.fields["items"])
            for k in da:
                if k not in db:
                    return f"{path}[{k}] missing"
                if da[k] != db[k]:
                    return _first_diff(da[k], db[k], f"{path}[{getattr(k, 'v', k)!r}]")
        for f in a.fields:
            if f in b.fields and a.fields[f] != b.fields[f]:
                return _first_diff(a.fields[f], b.fields[f], f"{path}.{f}" if a.kind != "json" else path)
    if isinstance(a, _K) and isinstance(b, _K) and isinstance(a.v, tuple) and isinstance(b.v, tuple) and len(a.v) == len(b.v):
        for i, (x, y) in enumerate(zip(a.v, b.v)):
            if x != y:
                return _first_diff(x, y, f"{path}[{i}]")
    return f"{path or 'value'}: {str(a)[:50]} vs {str(b)[:50]}"


def _canon(t: Any) -> str:
    """text of an abstract type with the fields of every TypedDict in sorted order (field order is not part of the structure)"""
    if isinstance(t, R) and t.kind == "td":
        return f"TypedDict({t.fields['__name__'].v}, total={t.fields['__total__'].v}, {{" + ", ".join(sorted(f"{k.v}: {_canon(v)}" for k, v in t.fields["__annotations__"].fields["items"])) + "})"
    if isinstance(t, R) and t.kind == "generic":
        return f"{t.fields['origin'].v}[{', '.join(_canon(x) for x in t.fields['args'].v)}]"
    return show(t)


def rule_type_round_trip(ctx: Ctx, repo: Repo) -> None:
    w = f"{ENC}.type_to_dict/type_from_dict"
    ctx.functions.update({f"{ENC}.type_to_dict", f"{ENC}.type_from_dict", f"{ENC}.typed_dict_to_dict", f"{ENC}.typed_dict_from_dict",
                          f"{ENC}.type_to_json", f"{ENC}.type_from_json"})
    uni = CM.type_universe()
    ctx.floor("R-C08.1", "abstract types in the universe", len(uni), 30)
    encodings: Dict[str, str] = {}
    for t in uni:
        k, enc = CodecScenario(repo, ENC, "type_to_json").result({repo.fn(ENC, "type_to_json").positional_params()[0]: t})
        if k != "return" or not (isinstance(enc, R) and enc.kind == "json"):
            ctx.violate("R-C08.1", w, f"encode {show(t)}: {k} {enc if k == 'raise' else ''}", "a type inference can produce does not encode to JSON")
            continue
        ctx.check(enc.fields["sort_keys"] == K(True), "R-C08.4", f"{ENC}.type_to_json", "the JSON text of a type is canonical (sort_keys=True)",
                  construct=f"json.dumps(..., sort_keys={enc.fields['sort_keys']})")
        k2, dec = CodecScenario(repo, ENC, "type_from_json").result({repo.fn(ENC, "type_from_json").positional_params()[0]: enc})
        ok = k2 == "return" and same_type(dec, t)
        ctx.check(ok, "R-C08.1", w, "decoding the encoding of a type gives a structurally identical type",
                  construct=f"{show(t)} -> {show(dec) if k2 == 'return' else 'raises ' + str(dec)}")
        if ok and isinstance(t, R) and t.kind == "td" and t.fields["__name__"] == K("DUMMY_NAME"):
            # the decoded copy of a generated TypedDict is read by the same accessor as the original (merging and stub
            # generation work on decoded types): required stays required, optional stays optional
            fa = repo.fn("monkeytype.typing", "field_annotations")
            halves = []
            for x in (t, dec):
                kf, rf = CodecScenario(repo, "monkeytype.typing", "field_annotations").result({fa.positional_params()[0]: x})
                halves.append((kf, rf))
            (k_a, r_a), (k_b, r_b) = halves
            def _fields(v: Any) -> Any:
                if isinstance(v, K) and isinstance(v.v, tuple) and len(v.v) == 2 and all(isinstance(h, R) and h.kind == "dict" for h in v.v):
                    return tuple(sorted((repr(k_), _canon(x_)) for k_, x_ in h.fields["items"]) for h in v.v)
                return None
            ctx.check(k_a == "return" and k_b == "return" and _fields(r_a) is not None and _fields(r_a) == _fields(r_b), "R-C08.1", "monkeytype.typing.field_annotations",
                      "the required and the optional fields read from a decoded TypedDict are those of the encoded one (a decoded dict lists its keys in the sorted order of the canonical JSON text)",
                      construct=f"{show(t)}: {k_a} {_fields(r_a)} before, {k_b} {_fields(r_b)} after the round trip")
        if ok:
            # structurally equal types encode equally: the decoded copy is structurally equal to t, so it must encode as t did
            k3, enc3 = CodecScenario(repo, ENC, "type_to_json").result({repo.fn(ENC, "type_to_json").positional_params()[0]: dec})
            ctx.check(k3 == "return" and enc3 == enc, "R-C08.6", f"{ENC}.type_to_dict",
                      "the encoding is a function of the type's structure only: a type and its decoded copy (structurally equal) have the same encoding",
                      construct=f"{show(t)}: the decoded copy encodes differently ({_first_diff(enc, enc3)})")
        key = repr(enc.fields["of"])
        if key in encodings and encodings[key] != show(t):
            ctx.violate("R-C08.1", w, f"{show(t)} and {encodings[key]} share one encoding", "two different types have the same encoding")
        encodings[key] = show(t)


def rule_structure_only(ctx: Ctx, repo: Repo) -> None:
    """R-C08.6: encoding is a function of the type's structure only - not of what was encoded earlier in the same
    process.  Types are encoded in pairs within one interpreter state (module-level objects persist)."""
    fi = repo.fn(ENC, "type_to_json")
    p = fi.positional_params()[0]
    a1 = CM.anon_td({"a": CM.INT})
    a2 = CM.anon_td({"b": CM.STR, "c": CM.INT})
    sel = [CM.INT, CM.USER, CM.gen("List", CM.INT), CM.gen("List", CM.STR), CM.gen("Union", CM.INT, CM.STR), a1, a2, CM.gen("List", a1), CM.gen("List", a2),
           CM.gen("Dict", CM.STR, a1), CM.gen("Dict", CM.STR, a2), CM.gen("Union", a1, CM.NONE_T), CM.gen("Union", a2, CM.NONE_T), CM.gen("Tuple", a1, a2), CM.gen("Tuple", a2, a1)]
    alone = {}
    for t in sel:
        k, enc = CodecScenario(repo, ENC, "type_to_json").result({p: t})
        alone[show(t)] = (k, enc)
    n = 0
    for t1 in sel:
        sc1 = CodecScenario(repo, ENC, "type_to_json")
        sc1.result({p: t1})
        for t2 in sel:
            if t1 is t2:
                continue
            sc2 = CodecScenario(repo, ENC, "type_to_json")
            k2, enc2 = sc2.result({p: t2}, carry=sc1.last_state)
            n += 1
            ctx.check((k2, enc2) == alone[show(t2)], "R-C08.6", f"{ENC}.type_to_dict",
                      "the encoding of a type does not depend on which types were encoded before it in the same process",
                      construct=f"after encoding {show(t1)[:60]}, {show(t2)[:60]} encodes differently than on its own")
    ctx.floor("R-C08.6", "ordered pairs of encodings sharing module state", n, 150)


def rule_position_independent(ctx: Ctx, repo: Repo) -> None:
    """R-C08.7: the encoding (decoding) of a type is the same wherever it sits inside a larger type: an optional numeric
    parameter of the codec functions (a depth, a budget that recursive calls hand down) must not change the result - a
    component at nesting depth 17 is the same type as at depth 0."""
    import ast as _ast
    a1 = CM.anon_td({"a": CM.INT})
    sel = [CM.INT, CM.NONE_T, CM.USER, CM.NESTED, CM.gen("Tuple"), CM.gen("Type", CM.USER), CM.gen("List", CM.INT), CM.gen("Dict", CM.STR, CM.gen("List", CM.USER)), a1,
           CM.gen("List", a1), CM.gen("Union", CM.INT, CM.NONE_T)]
    n = 0
    for fname, make_arg in (("type_to_dict", lambda t: t), ("typed_dict_to_dict", lambda t: t if isinstance(t, R) and t.kind == "td" else None),
                            ("type_from_dict", None), ("typed_dict_from_dict", None)):
        fi = repo.fn(ENC, fname)
        ps = fi.positional_params()
        extra = [(p_, d_) for p_, d_ in fi.defaults().items() if p_ != ps[0] and isinstance(d_, _ast.Constant) and isinstance(d_.value, int) and not isinstance(d_.value, bool)]
        n += 1
        if not extra:
            ctx.ok("R-C08.7", fi.fq, "no numeric extra parameter: the function sees nothing but the type")
            continue
        for p_, d_ in extra:
            for t in sel:
                if make_arg is not None:
                    arg = make_arg(t)
                else:
                    k0, enc0 = CodecScenario(repo, ENC, "type_to_dict").result({repo.fn(ENC, "type_to_dict").positional_params()[0]: t})
                    arg = enc0 if k0 == "return" and (fname == "type_from_dict" or (isinstance(t, R) and t.kind == "td")) else None
                if arg is None:
                    continue
                want = CodecScenario(repo, ENC, fname).result({ps[0]: arg})
                for delta in (1, 7, 1000):
                    got = CodecScenario(repo, ENC, fname).result({ps[0]: arg, p_: K(d_.value + delta)})
                    n += 1
                    ctx.check(got == want, "R-C08.7", fi.fq,
                              "a type is encoded / decoded the same way at every nesting position (no depth or budget parameter changes the result)",
                              construct=f"{fname}({show(t)}, {p_}={d_.value + delta}) differs from {fname}({show(t)}): a component nested that deep does not survive the round trip")
    ctx.floor("R-C08.7", "codec functions examined for position dependence", n, 4)


def rule_trace_round_trip(ctx: Ctx, repo: Repo) -> None:
    ft = repo.fn(ENC, "CallTraceRow.from_trace")
    tt = repo.fn(ENC, "CallTraceRow.to_trace")
    ctx.functions.update({ft.fq, tt.fq, f"{ENC}.maybe_encode_type", f"{ENC}.maybe_decode_type", f"{ENC}.arg_types_to_json", f"{ENC}.arg_types_from_json"})
    w = f"{ENC}.CallTraceRow"
    world = World()
    funcs = [CM.func("pkg.mod", "helper"), CM.func("pkg.mod", "User.method"), CM.func("pkg.mod", "Outer.Inner.deep")]
    for f in funcs:
        world.add(f.fields["__module__"].v, f.fields["__qualname__"].v, f)
    # the name may be bound to something that wraps the traced function: a functools.wraps wrapper, a bound
    # classmethod, a read-only property
    wrapped = CM.func("pkg.mod", "decorated")
    world.add("pkg.mod", "decorated", R("func", __module__=K("pkg.mod"), __qualname__=K("decorated"), __name__=K("decorated"),
                                        __wrapped__=R("func", __module__=K("pkg.mod"), __qualname__=K("decorated"), __name__=K("decorated"), __wrapped__=wrapped)))
    cm = CM.func("pkg.mod", "User.make")
    world.add("pkg.mod", "User.make", R("boundmethod", func=cm))
    cmw = CM.func("pkg.mod", "User.make_checked")
    world.add("pkg.mod", "User.make_checked", R("boundmethod", func=R("func", __module__=K("pkg.mod"), __qualname__=K("User.make_checked"), __name__=K("make_checked"), __wrapped__=cmw)))
    funcs.append(cmw)
    pg = CM.func("pkg.mod", "User.size")
    world.add("pkg.mod", "User.size", CM.prop(pg))
    # a read-only property (and a cached_property) whose getter is itself a functools.wraps wrapper: the tracer records the
    # innermost function (it follows __wrapped__), so decoding must follow the chain from the getter too
    pgw = CM.func("pkg.mod", "User.area")
    world.add("pkg.mod", "User.area", CM.prop(R("func", __module__=K("pkg.mod"), __qualname__=K("User.area"), __name__=K("area"), __wrapped__=pgw)))
    # a functools.wraps wrapper that also states a signature of its own (a dependency-injection decorator hiding a parameter):
    # the tracer records the inner function, whose frame ran
    inj = CM.func("pkg.mod", "lookup")
    world.add("pkg.mod", "lookup", R("func", __module__=K("pkg.mod"), __qualname__=K("lookup"), __name__=K("lookup"), __wrapped__=inj, __signature__=K("(key)")))
    funcs += [wrapped, cm, pg, pgw, inj]
    opts = [K(None), CM.NONE_T, CM.gen("List", CM.USER), CM.anon_td({"a": CM.INT}), CM.REGISTRY]  # REGISTRY: a class that is false as a truth value
    n = 0
    for f in funcs:
        for rt in opts:
            for yt in opts:
                args = R("dict", items=((K("a"), CM.INT), (K("self"), CM.USER), (K("opt"), CM.gen("Union", CM.STR, CM.NONE_T))))
                tr = R("trace", func=f, arg_types=args, return_type=rt, yield_type=yt)
                k, row = CodecScenario(repo, ENC, "CallTraceRow.from_trace", world).result(
                    {ft.positional_params()[0]: S("class:monkeytype.encoding.CallTraceRow"), ft.positional_params()[1]: tr})
                lab = f"{show(f)} return={show(rt)} yield={show(yt)}"
                if k != "return" or not (isinstance(row, R) and row.kind == "obj"):
                    ctx.violate("R-C08.3", w, f"{lab}: from_trace {k} {row}", "a call trace of an importable function does not serialise")
                    continue
                n += 1
                # absent stays absent (SQL NULL), NoneType is a real encoding
                for fld, val in (("return_type", rt), ("yield_type", yt)):
                    enc = row.fields.get(fld)
                    ctx.check((enc == K(None)) == (val == K(None)), "R-C08.3", ft.fq,
                              "an absent return/yield is stored as NULL and a NoneType one is not", construct=f"{fld}: {show(val)} -> {enc if enc == K(None) else 'json'}")
                a_enc = row.fields.get("arg_types")
                ctx.check(isinstance(a_enc, R) and a_enc.kind == "json" and a_enc.fields["sort_keys"] == K(True), "R-C08.4", f"{ENC}.arg_types_to_json",
                          "the JSON text of the argument types is canonical (sort_keys=True)", construct=f"{a_enc.fields.get('sort_keys') if isinstance(a_enc, R) else a_enc}")
                k2, back = CodecScenario(repo, ENC, "CallTraceRow.to_trace", world).result({tt.positional_params()[0]: row})
                ok = k2 == "return" and isinstance(back, R) and back.kind == "obj" and back.fields.get("func") == f and \
                    same_type(back.fields.get("return_type"), rt) and same_type(back.fields.get("yield_type"), yt)
                if ok:
                    got = back.fields.get("arg_types")
                    # a dict compared as a dict: the canonical text lists the argument names in sorted order
                    want_a = dict(args.fields["items"])
                    ok = isinstance(got, R) and got.kind == "dict" and len(got.fields["items"]) == len(want_a) and \
                        all(k_ in want_a and same_type(x, want_a[k_]) for k_, x in got.fields["items"])
                ctx.check(ok, "R-C08.3", w, "a call trace decodes back to the same function, argument types, return type and yield type",
                          construct=f"{lab} -> {k2} {str(back)[:160]}")
    ctx.floor("R-C08.3", "trace round trips", n, 40)


def rule_row_shape(ctx: Ctx, repo: Repo) -> None:
    """R-C08.2 table agreement."""
    # CREATE TABLE
    sc = DM.DbScenario(repo, "create_call_trace_table")
    fi = sc.fi
    ps = fi.positional_params()
    sc.run({ps[0]: S("conn"), ps[1]: K("T")})
    creates = []
    for meth, sql, _, _ in sc.executed:
        if isinstance(sql, K) and isinstance(sql.v, str):
            p = sqlmini.parse(sql.v)
            if isinstance(p, sqlmini.CreateTable):
                creates.append(p)
    if len(creates) != 1:
        raise AnalysisError("create_call_trace_table: no single foldable CREATE TABLE statement")
    cols = [c for c, _ in creates[0].columns]
    ctx.ok("R-C08.2", fi.fq, f"table columns: {cols}")
    # INSERT
    sc = DM.DbScenario(repo, "SQLiteStore.add", {"table": K("T")})
    sc.run({sc.fi.positional_params()[1]: S("traces")})
    ins = [(m, s, p) for m, s, p, _ in sc.executed if isinstance(s, K) and isinstance(s.v, str) and s.v.lstrip().upper().startswith(("INSERT", "REPLACE"))]
    if len(ins) != 1:
        raise AnalysisError("SQLiteStore.add: no single foldable INSERT")
    meth, sql, params = ins[0]
    pi = sqlmini.parse(sql.v)
    target_cols = pi.columns if pi.columns is not None else cols
    ctx.check(len(pi.values) == len(target_cols) and all(sqlmini.text(v) == "?" for v in pi.values), "R-C08.2", sc.fi.fq,
              "the INSERT binds one parameter per column", construct=sql.v.strip())
    tup = None
    if params and isinstance(params[0], R) and params[0].kind == "list" and len(params[0].fields["items"]) in (1, 2) and len(set(params[0].fields["items"])) == 1:
        tup = params[0].fields["items"][0]  # one symbolic round of a loop - or the two equal rounds of a generator helper
    elif params and isinstance(params[0], R) and params[0].kind == "comp" and not params[0].fields["ifs"]:
        tup = params[0].fields["elt"]
    if isinstance(tup, R) and tup.kind == "nt":
        tup = K(tuple(tup.fields[n_] for n_ in tup.fields["__fields__"].v))  # a NamedTuple row is bound like the tuple of its fields
    if not ctx.check(isinstance(tup, K) and isinstance(tup.v, tuple) and len(tup.v) == len(target_cols), "R-C08.2", sc.fi.fq,
                     "each inserted row is a tuple with one value per column", construct=f"{tup}"):
        return
    for col, v in zip(target_cols, tup.v):
        if col == "created_at":
            ctx.check(isinstance(v, R) and v.kind == "timestamp", "R-C08.2", sc.fi.fq, "created_at receives the insertion time", construct=f"{col} <- {v}")
        else:
            ok = isinstance(v, R) and v.kind == "attr" and v.fields["name"] == K(col) and isinstance(v.fields["of"], R) and \
                v.fields["of"].kind == "elem" and isinstance(v.fields["of"].fields["of"], R) and v.fields["of"].fields["of"].kind == "serialized"
            ctx.check(ok, "R-C08.2", sc.fi.fq, f"column {col} receives the serialised row's attribute of the same name", construct=f"{col} <- {v}")
    # SELECT list == CallTraceRow.__init__ order, filter builds CallTraceRow(*row)
    for wp in (False, True):
        sql_text, _ = DM.query(repo, wp)
        sel = sqlmini.parse(sql_text)
        init = repo.method(repo.cls(ENC, "CallTraceRow"), "__init__")
        ctx.check(sel.columns == init.positional_params()[1:], "R-C08.2", f"{DM.DB}.make_query",
                  "the SELECT list is CallTraceRow.__init__'s parameter list, in order", construct=f"SELECT {sel.columns} vs __init__{init.positional_params()[1:]}")
        ctx.check(set(sel.columns) <= set(cols), "R-C08.2", f"{DM.DB}.make_query", "every selected column exists in the table", construct=f"{sel.columns}")
    flt = repo.fn(DM.DB, "SQLiteStore.filter")
    ctx.functions.add(flt.fq)
    fps = flt.positional_params()
    sel_cols = init.positional_params()[1:]
    rows = K(tuple(K(tuple(S(f"r{i}.{c}") for c in sel_cols)) for i in range(2)))
    scf = DM.DbScenario(repo, "SQLiteStore.filter", {"table": K("T")})
    scf.rows = rows
    of = scf.run({fps[1]: S("module"), fps[2]: S("prefix"), fps[3]: S("limit")})
    res = of[0].freeze(of[0].term[1]) if len(of) == 1 and of[0].term and of[0].term[0] == "return" else None
    want = R("list", items=tuple(R("row_object", args=K(tuple(r.v))) for r in rows.v))
    ctx.check(res == want, "R-C08.2", flt.fq,
              "filter builds CallTraceRow(*row) from each fetched row (positional, all columns)", construct=str(res)[:200])
    # __init__ stores each parameter under its own name; from_trace passes them in order; to_trace reads them
    init = repo.method(repo.cls(ENC, "CallTraceRow"), "__init__")
    for p in init.positional_params()[1:]:
        st = [x for x in walk_no_nested(init.node) if isinstance(x, ast.Assign) and dotted(x.targets[0]) == f"self.{p}"]
        ctx.check(len(st) == 1 and dotted(st[0].value) == p, "R-C08.2", init.fq, f"CallTraceRow.{p} is the constructor argument of the same name", construct="; ".join(norm(s) for s in st))


def rule_hidden_builtins(ctx: Ctx, repo: Repo) -> None:
    mod = repo.module(ENC)
    from .common import follow_constant
    tbl = follow_constant(repo, mod, "_HIDDEN_BUILTIN_TYPES")  # the table may live in another module of the package, under another name
    if not isinstance(tbl, ast.Dict):
        raise AnalysisError("_HIDDEN_BUILTIN_TYPES is not a dict literal")
    tymod = repo.module("monkeytype.typing")
    n = 0
    for k, v in zip(tbl.keys, tbl.values):
        n += 1
        name = dotted(v)
        src = follow_constant(repo, tymod, name) if name else None
        # the value must be bound to type(<builtin singleton>) whose __name__ is the key (platform table)
        real = None
        if src is not None and isinstance(src, ast.Call) and dotted(src.func) == "type" and len(src.args) == 1:
            arg = norm(src.args[0])
            import builtins
            plat = {"None": type(None), "NotImplemented": type(NotImplemented), "range.__dict__": type(range.__dict__), "Ellipsis": type(Ellipsis), "...": type(Ellipsis)}
            real = plat.get(arg)
        ok = isinstance(k, ast.Constant) and real is not None and real.__name__ == k.value and real.__module__ == "builtins" and not hasattr(__import__("builtins"), k.value)
        ctx.check(ok, "R-C08.5", f"{ENC}._HIDDEN_BUILTIN_TYPES", "each hidden builtin is keyed by the qualname the encoder writes for it and is not reachable through the builtins module",
                  construct=f"{norm(k)}: {norm(v)}")
    ctx.floor("R-C08.5", "hidden builtin entries", n, 1)
    keys = {k.value for k in tbl.keys if isinstance(k, ast.Constant)}
    ctx.check("NoneType" in keys, "R-C08.5", f"{ENC}._HIDDEN_BUILTIN_TYPES", "NoneType (which inference produces for None) can be decoded", construct=str(sorted(keys)))


def rule_dumps(ctx: Ctx, repo: Repo) -> None:
    mod = repo.module(ENC)
    n = 0
    for fi in mod.functions.values():
        for c in calls_in(fi.node):
            if dotted(c.func) == "json.dumps":
                n += 1
                kw = {k.arg: k.value for k in c.keywords}
                ctx.check("sort_keys" in kw and isinstance(kw["sort_keys"], ast.Constant) and kw["sort_keys"].value is True, "R-C08.4", fi.fq,
                          "json.dumps is called with sort_keys=True (encoding is a function of the structure only)", construct=norm(c), node=c)
    ctx.floor("R-C08.4", "json.dumps calls in encoding.py", n, 2)


def rule_decode_no_memory(ctx: Ctx, repo: Repo) -> None:
    """R-C08.11: decoding is a function of the encoded text and the program as it is - not of what was decoded earlier in the
    process.  Pairs of types are decoded one after the other with the module-level objects of the package shared (a memo of
    resolved names lives there): names that are different (module, qualified name) pairs but the same dotted text - a class
    nested in a class `orders` of package `pkg` and a class of the submodule `pkg.orders` - and plain different names."""
    tj, fj = repo.fn(ENC, "type_to_json"), repo.fn(ENC, "type_from_json")
    ctx.functions.update({fj.fq, "monkeytype.util.get_name_in_module"})
    w = World()
    a_nested, a_sub = CM.cls("pkg", "orders.Line"), CM.cls("pkg.orders", "Line")
    w.add("pkg", "orders", CM.cls("pkg", "orders"))
    w.add("pkg", "orders.Line", a_nested)
    w.modules.setdefault("pkg.orders", {})
    w.add("pkg.orders", "Line", a_sub)
    pairs = [("`pkg` : `orders.Line` then `pkg.orders` : `Line` (one dotted text, two objects)", a_nested, a_sub), ("the same two, in the other order", a_sub, a_nested),
             ("List[...] of the two", CM.gen("List", a_nested), CM.gen("List", a_sub)), ("two unrelated classes", CM.USER, CM.OTHER),
             ("a class, then a generated TypedDict with a field of the look-alike", a_nested, CM.anon_td({"line": a_sub}))]
    n = 0
    for what, t1, t2 in pairs:
        encs = []
        for t in (t1, t2):
            k, enc = CodecScenario(repo, ENC, "type_to_json", w).result({tj.positional_params()[0]: t})
            if k != "return":
                raise AnalysisError(f"R-C08.11: {show(t)} does not encode")
            encs.append(enc)
        s1 = CodecScenario(repo, ENC, "type_from_json", w)
        k1, d1 = s1.result({fj.positional_params()[0]: encs[0]})
        s2 = CodecScenario(repo, ENC, "type_from_json", w)
        k2, d2 = s2.result({fj.positional_params()[0]: encs[1]}, carry=s1.last_state)
        n += 1
        ctx.check(k1 == "return" and same_type(d1, t1) and k2 == "return" and same_type(d2, t2), "R-C08.11", f"{ENC}.type_from_dict",
                  "a type decodes to itself whatever was decoded before it in the same process",
                  construct=f"{what}: the second decodes to {show(d2) if k2 == 'return' else 'raises ' + str(d2)}, expected {show(t2)}")
    ctx.floor("R-C08.11", "ordered pairs of decodings sharing module state", n, 5)


def rule_row_names(ctx: Ctx, repo: Repo, rule: str = "R-C08.10") -> None:
    """The row is filed under the module and qualified name of the traced function object ITSELF - the object whose
    __module__ the store logger's __main__ test read and whose code the filter admitted - not of something reachable from it
    (what a wrapper's __wrapped__ points at, the class of a bound method, ...)."""
    ft = repo.fn(ENC, "CallTraceRow.from_trace")
    ctx.functions.add(ft.fq)
    plain = CM.func("pkg.mod", "helper")
    inner_main = R("func", __module__=K("__main__"), __qualname__=K("job"), __name__=K("job"))
    wrapper = R("func", __module__=K("lib.deco"), __qualname__=K("retry.<locals>.wrapper"), __name__=K("wrapper"), __wrapped__=inner_main)
    renamed = R("func", __module__=K("pkg.mod"), __qualname__=K("public_name"), __name__=K("public_name"),
                __wrapped__=R("func", __module__=K("pkg.impl"), __qualname__=K("_private_impl"), __name__=K("_private_impl")))
    n = 0
    for what, f in (("a plain function", plain), ("a wrapper of another module that keeps its own identity and points at a __main__ function through __wrapped__", wrapper),
                    ("a wrapper whose __wrapped__ target has another name", renamed)):
        tr = R("trace", func=f, arg_types=R("dict", items=((K("a"), CM.INT),)), return_type=CM.NONE_T, yield_type=K(None))
        k, row = CodecScenario(repo, ENC, "CallTraceRow.from_trace", World()).result(
            {ft.positional_params()[0]: S("class:monkeytype.encoding.CallTraceRow"), ft.positional_params()[1]: tr})
        n += 1
        ok = k == "return" and isinstance(row, R) and row.kind == "obj" and row.fields.get("module") == f.fields["__module__"] and row.fields.get("qualname") == f.fields["__qualname__"]
        ctx.check(ok, rule, ft.fq, "a trace is stored under the module and qualified name of the traced function object itself",
                  construct=f"{what}: stored as ({row.fields.get('module') if isinstance(row, R) else k}, {row.fields.get('qualname') if isinstance(row, R) else row}), the function is "
                            f"({f.fields['__module__'].v}, {f.fields['__qualname__'].v})")
    ctx.floor(rule, "traced-function shapes encoded", n, 3)


def rule_no_impostor(ctx: Ctx, repo: Repo, rule: str = "R-C08.8") -> None:
    """A recorded class that cannot be found again under its recorded name (a class defined inside a function, a class that
    has since been removed or renamed) either fails to decode with a MonkeyType error - the trace is then skipped and counted -
    or decodes to the very class recorded: never to ANOTHER class that happens to be reachable under a similar name (the bare
    name of a function-local class at module level, the same name in the parent package, a different letter case)."""
    tj, fj = repo.fn(ENC, "type_to_json"), repo.fn(ENC, "type_from_json")
    ctx.functions.update({tj.fq, fj.fq, "monkeytype.util.get_name_in_module"})
    hier = None
    n = 0
    for recorded, lookalike in (
        (CM.cls("pkg.mod", "make_model.<locals>.Model"), ("pkg.mod", "Model")),       # a local class / a module-level class of the same bare name
        (CM.cls("pkg.mod", "Outer.helper.<locals>.Row"), ("pkg.mod", "Outer.Row")),   # local class of a method / attribute of the class
        (CM.cls("pkg.mod", "Removed"), ("pkg", "Removed")),                             # removed from the module / same name in the parent package
        (CM.cls("pkg.mod", "Outer.Gone"), ("pkg.mod", "Gone")),                         # nested class removed / a top-level class of that name
        (CM.cls("pkg.mod", "Config"), ("pkg.mod", "config")),                           # removed / a different letter case
    ):
        for wrap in (lambda t: t, lambda t: CM.gen("List", t), lambda t: CM.gen("Union", t, CM.INT), lambda t: CM.anon_td({"a": t})):
            t = wrap(recorded)
            w = World()
            other = CM.cls(lookalike[0], lookalike[1])
            w.add(lookalike[0], lookalike[1], other)
            w.add("pkg.mod", "make_model", CM.func("pkg.mod", "make_model"))
            w.add("pkg.mod", "Outer.helper", CM.func("pkg.mod", "Outer.helper"))
            k, enc = CodecScenario(repo, ENC, "type_to_json", w).result({tj.positional_params()[0]: t})
            if k != "return":
                continue  # not encodable: nothing is stored
            k2, dec = CodecScenario(repo, ENC, "type_from_json", w).result({fj.positional_params()[0]: enc})
            n += 1
            lab = f"{show(t)} recorded, `{lookalike[0]}.{lookalike[1]}` exists"
            if k2 == "return":
                ctx.check(same_type(dec, t), rule, f"{ENC}.type_from_dict",
                          "a recorded class that is not found under its recorded name is never replaced by a different class: decoding fails (the row is skipped) or gives the recorded class",
                          construct=f"{lab}: decodes to {show(dec)}")
            else:
                ctx.check(str(dec) in ("NameLookupError", "InvalidTypeError"), rule, f"{ENC}.type_from_dict",
                          "a class that is not found again makes decoding fail with a MonkeyType error (which the readers tolerate)",
                          construct=f"{lab}: raises {dec}")
    ctx.floor(rule, "recorded-class / look-alike scenarios decoded", n, 15)


def rule_producer_forms(ctx: Ctx, repo: Repo) -> None:
    """R-C08.9: producer / codec agreement.  Every generic form the inference functions can build (a subscripted typing
    alias or builtin class in monkeytype/typing.py, outside the rewriter classes) is a form whose round trip R-C08.1 decides;
    a form outside that universe - a PEP 585 alias such as frozenset[int], which compat.is_generic() does not recognise and the
    encoder therefore writes as the bare class - would be stored without its arguments."""
    import builtins as _b
    ty = repo.module("monkeytype.typing")
    heads_ok = set()
    def collect(t: Any) -> None:
        if isinstance(t, R) and t.kind == "generic":
            heads_ok.add(t.fields["origin"].v)
            for a in t.fields["args"].v:
                collect(a)
        elif isinstance(t, R) and t.kind == "td":
            for _, v in t.fields["__annotations__"].fields["items"]:
                collect(v)
    for t in CM.type_universe():
        collect(t)
    heads_ok |= {"Optional"}  # Optional[X] is Union[X, None]
    n = 0
    for fi in ty.functions.values():
        if fi.cls is not None and any(c.name.endswith("Rewriter") or "Rewrite" in c.name or c.name == "RemoveEmptyContainers" for c in repo.mro(fi.cls)):
            continue  # rewriters rebuild what they are given; their results are C07's business
        for x in walk_no_nested(fi.node):
            if not (isinstance(x, ast.Subscript) and isinstance(x.ctx, ast.Load) and isinstance(x.value, (ast.Name, ast.Attribute))):
                continue
            d = dotted(x.value) or ""
            tgt = ty.imports.get(d.split(".")[0], "")
            full = (tgt + d[len(d.split(".")[0]):]) if tgt else d
            head = None
            if full.startswith("typing."):
                head = full[len("typing."):]
            elif "." not in d and d not in fi.params and isinstance(getattr(_b, d, None), type) and not any(
                    isinstance(y, ast.Name) and y.id == d and isinstance(y.ctx, ast.Store) for y in ast.walk(fi.node)):
                head = d + " (the builtin class, subscripted: a PEP 585 alias)"
            if head is None:
                continue
            n += 1
            if full.startswith("typing.") and head not in heads_ok and head in CM.TYPING_NAMES:
                # a typing alias outside the fixed universe: its round trip is decided here, on one representative
                arity = len(x.slice.elts) if isinstance(x.slice, ast.Tuple) else 1
                rep = CM.gen(head, *([CM.STR, CM.INT, CM.NONE_T][:arity] if arity <= 3 else [CM.INT] * arity))
                k1, enc1 = CodecScenario(repo, ENC, "type_to_json").result({repo.fn(ENC, "type_to_json").positional_params()[0]: rep})
                k2, dec1 = CodecScenario(repo, ENC, "type_from_json").result({repo.fn(ENC, "type_from_json").positional_params()[0]: enc1}) if k1 == "return" else ("raise", enc1)
                ctx.check(k1 == "return" and k2 == "return" and same_type(dec1, rep), "R-C08.9", fi.fq,
                          "a generic form inference builds round-trips through the codec", construct=f"`{norm(x)[:60]}`: {show(rep)} -> {show(dec1) if k2 == 'return' else 'raises ' + str(dec1)}", node=x)
                continue
            if "PEP 585" in head:
                # a subscripted builtin class is a types.GenericAlias: does the package's own notion of a generic (compat.is_generic,
                # which the encoder consults before it writes the arguments) cover it?
                from .compat_rules import CompatScenario
                k_g, r_g = CompatScenario(repo, "is_generic").result(R("pep585", origin=K(d), args=K((CM.INT,))))
                if k_g != "return" or not (isinstance(r_g, K) and isinstance(r_g.v, bool)):
                    raise AnalysisError(f"R-C08.9: compat.is_generic on a PEP 585 alias: {k_g} {r_g}")
                ctx.check(r_g.v, "R-C08.9", fi.fq,
                          "every generic form inference builds is recognised as a generic by the encoder (otherwise it is stored as the bare class, without its arguments)",
                          construct=f"`{norm(x)[:60]}` builds {d}[...], a types.GenericAlias, for which compat.is_generic() is False: type_to_dict writes `{d}` and drops the element types", node=x)
                continue
            ctx.check(head in heads_ok, "R-C08.9", fi.fq,
                      "every generic form inference builds is one the codec is decided for (encoded with its arguments, decoded to the same form)",
                      construct=f"`{norm(x)[:60]}` builds {head}[...]; the forms decided by R-C08.1 are {sorted(heads_ok)}", node=x)
    ctx.floor("R-C08.9", "generic forms built by the inference functions", n, 6)


def run(ctx: Ctx, repo: Repo, tier: str) -> None:
    ctx.trust("json.loads(json.dumps(x)) == x for documents of dicts with str keys, lists, strings, booleans and null (tuples become lists)",
              "typing: alias[args] rebuilds the generic; Tuple[()] has empty __args__; bare aliases have no __args__ (CPython >= 3.11)",
              "mypy_extensions.TypedDict(name, fields) builds a TypedDict with those annotations (total=True)",
              "sqlite: INSERT ... VALUES (?, ...) binds parameters to the table's columns in declaration order; SELECT returns columns in list order")
    ctx.attempt(rule_type_round_trip, ctx, repo)
    ctx.attempt(rule_structure_only, ctx, repo)
    ctx.attempt(rule_position_independent, ctx, repo)
    ctx.attempt(rule_trace_round_trip, ctx, repo)
    ctx.attempt(rule_row_shape, ctx, repo)
    ctx.attempt(rule_hidden_builtins, ctx, repo)
    ctx.attempt(rule_dumps, ctx, repo)
    ctx.attempt(rule_no_impostor, ctx, repo)
    ctx.attempt(rule_producer_forms, ctx, repo)
    ctx.attempt(rule_row_names, ctx, repo)
    ctx.attempt(rule_decode_no_memory, ctx, repo)
    ctx.settle()
