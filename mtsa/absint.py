"""A small abstract interpreter over finite domains.

Used to turn a branch program (a function body or loop body whose behaviour depends on a
handful of boolean/enumerated facts) into its complete decision table *from the source*,
without executing repository code: the analysed statements are walked as syntax, values are
abstract (known constant, symbolic token, record, unknown), unknown branch conditions fork.

Domain
  K(v)      a known Python constant (bool, int, str, None, tuple of K)
  S(name)   a symbolic token; two tokens are equal iff their names are equal
  R(kind, fields)  an immutable record (e.g. an inspect.Parameter with .annotation)
  U(why)    unknown

A client supplies hooks for names, attributes and calls; effects (calls that matter) are
appended to the state's effect list by the hooks.
"""
from __future__ import annotations

import ast
import copy
from typing import Any, Callable, Dict, List, Optional, Tuple

from .index import norm, dotted
from .report import AnalysisError


class V:
    pass


class K(V):
    def __init__(self, v: Any) -> None:
        self.v = v

    def __repr__(self) -> str:
        return f"K({self.v!r})"

    def __eq__(self, o: object) -> bool:
        return isinstance(o, K) and type(o.v) is type(self.v) and o.v == self.v

    def __hash__(self) -> int:
        return hash(("K", repr(self.v)))


class S(V):
    def __init__(self, name: str, truth: Optional[bool] = True) -> None:
        self.name = name
        self.truth = truth

    def __repr__(self) -> str:
        return f"S({self.name})"

    def __eq__(self, o: object) -> bool:
        return isinstance(o, S) and o.name == self.name

    def __hash__(self) -> int:
        return hash(("S", self.name))


class R(V):
    def __init__(self, kind: str, **fields: Any) -> None:
        self.kind = kind
        self.fields = fields

    def replace(self, **kw: Any) -> "R":
        f = dict(self.fields)
        f.update(kw)
        return R(self.kind, **f)

    def __repr__(self) -> str:
        return f"R({self.kind},{self.fields})"

    def __eq__(self, o: object) -> bool:
        return isinstance(o, R) and o.kind == self.kind and o.fields == self.fields

    def __hash__(self) -> int:
        return hash(("R", self.kind, tuple(sorted((k, repr(v)) for k, v in self.fields.items()))))


class U(V):
    def __init__(self, why: str = "") -> None:
        self.why = why

    def __repr__(self) -> str:
        return f"U({self.why})"

    def __eq__(self, o: object) -> bool:
        return isinstance(o, U)

    def __hash__(self) -> int:
        return hash("U")


class State:
    def __init__(self) -> None:
        self.env: Dict[str, V] = {}
        self.effects: List[Tuple[Any, ...]] = []
        self.assume: Dict[str, bool] = {}
        self.term: Optional[Tuple[Any, ...]] = None  # ('return', V) | ('raise', text) | ('break',) | ('continue',)

    def fork(self) -> "State":
        s = State()
        s.env = dict(self.env)
        s.effects = list(self.effects)
        s.assume = dict(self.assume)
        s.term = self.term
        return s


def truth(v: V) -> Optional[bool]:
    if isinstance(v, K):
        return bool(v.v)
    if isinstance(v, S):
        return v.truth
    if isinstance(v, R):
        return True
    return None


class Interp:
    """Hooks (all optional):
    on_name(name, state) -> V | None        for names not in env
    on_attr(obj V, attr, node, state) -> V | None
    on_call(call node, fname, func V|None, args [V], kwargs {str:V}, state) -> V | None
    on_subscript(obj, key, node, state) -> V | None
    """

    def __init__(
        self,
        on_name: Optional[Callable[..., Optional[V]]] = None,
        on_attr: Optional[Callable[..., Optional[V]]] = None,
        on_call: Optional[Callable[..., Optional[V]]] = None,
        on_subscript: Optional[Callable[..., Optional[V]]] = None,
        strict_stmt: bool = True,
        max_states: int = 512,
    ) -> None:
        self.on_name = on_name
        self.on_attr = on_attr
        self.on_call = on_call
        self.on_subscript = on_subscript
        self.strict_stmt = strict_stmt
        self.max_states = max_states

    # -- expressions -----------------------------------------------------------
    def eval(self, e: ast.AST, st: State) -> V:
        if isinstance(e, ast.Constant):
            return K(e.value)
        if isinstance(e, ast.Name):
            if e.id in st.env:
                return st.env[e.id]
            if e.id in ("True", "False", "None"):
                return K({"True": True, "False": False, "None": None}[e.id])
            if self.on_name:
                v = self.on_name(e.id, st)
                if v is not None:
                    return v
            return U(f"name {e.id}")
        if isinstance(e, ast.Attribute):
            obj = self.eval(e.value, st)
            if isinstance(obj, R) and e.attr in obj.fields:
                return obj.fields[e.attr]
            if self.on_attr:
                v = self.on_attr(obj, e.attr, e, st)
                if v is not None:
                    return v
            return U(f"attr {norm(e)}")
        if isinstance(e, ast.UnaryOp) and isinstance(e.op, ast.Not):
            t = self._truth_of(e.operand, st)
            return U("not") if t is None else K(not t)
        if isinstance(e, ast.BoolOp):
            is_and = isinstance(e.op, ast.And)
            last: V = K(is_and)
            for v in e.values:
                last = self.eval(v, st)
                t = self._value_truth(v, last, st)
                if t is None:
                    # the value is one of the operands; only its truthiness may still be known
                    tt = self._truth_of(e, st)
                    return U("boolop") if tt is None else K(tt)
                if is_and and not t:
                    return last
                if not is_and and t:
                    return last
            return last
        if isinstance(e, ast.Compare):
            left = self.eval(e.left, st)
            result: Optional[bool] = True
            for op, right_e in zip(e.ops, e.comparators):
                right = self.eval(right_e, st)
                r = self._compare(op, left, right)
                if r is None:
                    key = norm(e)
                    if key in st.assume:
                        return K(st.assume[key])
                    return U(f"compare {key}")
                if not r:
                    return K(False)
                left = right
            return K(bool(result))
        if isinstance(e, ast.IfExp):
            t = self._truth_of(e.test, st)
            if t is None:
                a, b = self.eval(e.body, st), self.eval(e.orelse, st)
                return a if a == b else U("ifexp")
            return self.eval(e.body if t else e.orelse, st)
        if isinstance(e, ast.Tuple):
            vals = [self.eval(x, st) for x in e.elts]
            return K(tuple(vals))
        if isinstance(e, ast.List):
            vals = [self.eval(x, st) for x in e.elts]
            return R("list", items=tuple(vals))
        if isinstance(e, ast.Call):
            fname = dotted(e.func)
            fval: Optional[V] = None
            if isinstance(e.func, ast.Attribute):
                fval = self.eval(e.func.value, st)
            args = [self.eval(a, st) for a in e.args if not isinstance(a, ast.Starred)]
            kwargs = {k.arg: self.eval(k.value, st) for k in e.keywords if k.arg}
            # built-in record operation: x.replace(field=value)
            if isinstance(fval, R) and isinstance(e.func, ast.Attribute) and e.func.attr == "replace" and not args:
                return fval.replace(**kwargs)
            if self.on_call:
                v = self.on_call(e, fname, fval, args, kwargs, st)
                if v is not None:
                    return v
            return U(f"call {norm(e)[:60]}")
        if isinstance(e, ast.Subscript):
            obj = self.eval(e.value, st)
            key = self.eval(e.slice, st)
            if isinstance(obj, K) and isinstance(obj.v, (tuple, bytes, str)) and isinstance(key, K) and isinstance(key.v, int):
                try:
                    x = obj.v[key.v]
                    return x if isinstance(x, V) else K(x)
                except IndexError:
                    st.effects.append(("IndexError", norm(e)))
                    return U("index")
            if isinstance(obj, K) and isinstance(obj.v, (tuple, bytes, str)) and isinstance(key, R) and key.kind == "slice":
                f = key.fields
                if all(isinstance(f[x], K) for x in ("lower", "upper", "step")):
                    try:
                        return K(obj.v[slice(f["lower"].v, f["upper"].v, f["step"].v)])
                    except Exception:
                        return U("slice")
            if isinstance(obj, R) and obj.kind == "dict" and not isinstance(key, U):
                for k, v in obj.fields["items"]:
                    if k == key:
                        return v
                st.effects.append(("KeyError", norm(e)))
                return U("KeyError")
            if self.on_subscript:
                v = self.on_subscript(obj, key, e, st)
                if v is not None:
                    return v
            return U(f"subscript {norm(e)}")
        if isinstance(e, ast.JoinedStr):
            return U("fstring")
        if isinstance(e, ast.Dict):
            if all(k is not None for k in e.keys):
                return R("dict", items=tuple((self.eval(k, st), self.eval(v, st)) for k, v in zip(e.keys, e.values)))
            return U("dict unpack")
        if isinstance(e, ast.Slice):
            return R(
                "slice",
                lower=self.eval(e.lower, st) if e.lower is not None else K(None),
                upper=self.eval(e.upper, st) if e.upper is not None else K(None),
                step=self.eval(e.step, st) if e.step is not None else K(None),
            )
        if isinstance(e, ast.BinOp):
            l, r = self.eval(e.left, st), self.eval(e.right, st)
            if isinstance(l, K) and isinstance(r, K):
                try:
                    if isinstance(e.op, ast.Add):
                        return K(l.v + r.v)
                    if isinstance(e.op, ast.Sub):
                        return K(l.v - r.v)
                except Exception:
                    pass
            return U("binop")
        return U(type(e).__name__)

    def _compare(self, op: ast.cmpop, a: V, b: V) -> Optional[bool]:
        if isinstance(op, (ast.Is, ast.Eq, ast.IsNot, ast.NotEq)):
            neg = isinstance(op, (ast.IsNot, ast.NotEq))
            if isinstance(a, U) or isinstance(b, U):
                return None
            if isinstance(a, S) and isinstance(b, S):
                r = a.name == b.name
            elif isinstance(a, K) and isinstance(b, K):
                r = a == b
            elif isinstance(a, R) and isinstance(b, R):
                if a == b:
                    r = True
                else:
                    return None if isinstance(op, (ast.Eq, ast.NotEq)) else False
            else:
                r = False  # values of different sorts are distinct
            return (not r) if neg else r
        if isinstance(op, (ast.In, ast.NotIn)):
            neg = isinstance(op, ast.NotIn)
            if isinstance(b, R) and b.kind == "dict" and not isinstance(a, U):
                r = any(k == a for k, _ in b.fields["items"])
                return (not r) if neg else r
            if isinstance(b, K) and isinstance(b.v, (tuple, frozenset)) and not isinstance(a, U):
                if any(isinstance(x, U) for x in b.v):
                    return None
                r = any(self._compare(ast.Eq(), a, x) for x in b.v)
                return (not r) if neg else r
            return None
        if isinstance(a, K) and isinstance(b, K):
            try:
                if isinstance(op, ast.Lt):
                    return a.v < b.v
                if isinstance(op, ast.LtE):
                    return a.v <= b.v
                if isinstance(op, ast.Gt):
                    return a.v > b.v
                if isinstance(op, ast.GtE):
                    return a.v >= b.v
            except Exception:
                return None
        return None

    def _value_truth(self, e: ast.AST, v: V, st: State) -> Optional[bool]:
        t = truth(v)
        if t is None:
            key = norm(e)
            if key in st.assume:
                return st.assume[key]
        return t

    def _truth_of(self, e: ast.AST, st: State) -> Optional[bool]:
        if isinstance(e, ast.UnaryOp) and isinstance(e.op, ast.Not):
            t = self._truth_of(e.operand, st)
            return None if t is None else not t
        if isinstance(e, ast.BoolOp):
            ts = [self._truth_of(v, st) for v in e.values]
            if isinstance(e.op, ast.And):
                if any(t is False for t in ts):
                    return False
                return True if all(t is True for t in ts) else None
            if any(t is True for t in ts):
                return True
            return False if all(t is False for t in ts) else None
        return self._value_truth(e, self.eval(e, st), st)

    # -- branching -------------------------------------------------------------
    def branch(self, e: ast.AST, st: State) -> List[Tuple[State, bool]]:
        """Evaluate a condition with short-circuit semantics, forking on unknown atoms."""
        if isinstance(e, ast.UnaryOp) and isinstance(e.op, ast.Not):
            return [(s, not b) for s, b in self.branch(e.operand, st)]
        if isinstance(e, ast.BoolOp):
            is_and = isinstance(e.op, ast.And)
            cur: List[Tuple[State, bool]] = [(st, is_and)]
            for v in e.values:
                nxt: List[Tuple[State, bool]] = []
                for s, b in cur:
                    if b != is_and:  # already decided
                        nxt.append((s, b))
                    else:
                        nxt.extend(self.branch(v, s))
                cur = nxt
            return cur
        val = self.eval(e, st)  # evaluates the atom (and records its effects) exactly once
        t = self._value_truth(e, val, st)
        if t is not None:
            return [(st, t)]
        key = norm(e)
        a, b = st, st.fork()
        a.assume[key] = True
        b.assume[key] = False
        return [(a, True), (b, False)]

    # -- statements ------------------------------------------------------------
    def run(self, stmts: List[ast.stmt], st: State) -> List[State]:
        states = [st]
        for s in stmts:
            nxt: List[State] = []
            for x in states:
                if x.term is not None:
                    nxt.append(x)
                else:
                    nxt.extend(self.stmt(s, x))
            states = nxt
            if len(states) > self.max_states:
                raise AnalysisError(f"abstract interpretation: more than {self.max_states} states")
        return states

    def _assign(self, target: ast.AST, v: V, st: State) -> None:
        if isinstance(target, ast.Name):
            st.env[target.id] = v
            for k in [k for k in st.assume if _mentions(k, target.id)]:
                del st.assume[k]
        elif isinstance(target, (ast.Tuple, ast.List)):
            if isinstance(v, K) and isinstance(v.v, tuple) and len(v.v) == len(target.elts):
                for t, x in zip(target.elts, v.v):
                    self._assign(t, x if isinstance(x, V) else K(x), st)
            else:
                for t in target.elts:
                    self._assign(t, U("unpack"), st)
        elif isinstance(target, ast.Attribute):
            obj = self.eval(target.value, st)
            st.effects.append(("setattr", norm(target.value), target.attr, v, obj))
            if isinstance(obj, R) and isinstance(target.value, ast.Name):
                st.env[target.value.id] = obj.replace(**{target.attr: v})
        elif isinstance(target, ast.Subscript):
            obj = self.eval(target.value, st)
            key = self.eval(target.slice, st)
            st.effects.append(("setitem", norm(target.value), key, v))
            if isinstance(obj, R) and obj.kind == "dict" and isinstance(target.value, ast.Name):
                items = tuple((k, x) for k, x in obj.fields["items"] if k != key) + ((key, v),)
                st.env[target.value.id] = R("dict", items=items)
        else:
            raise AnalysisError(f"unsupported assignment target {norm(target)}")

    def stmt(self, s: ast.stmt, st: State) -> List[State]:
        if isinstance(s, ast.Assign):
            v = self.eval(s.value, st)
            for t in s.targets:
                self._assign(t, v, st)
            return [st]
        if isinstance(s, ast.AnnAssign):
            if s.value is not None:
                self._assign(s.target, self.eval(s.value, st), st)
            return [st]
        if isinstance(s, ast.AugAssign):
            cur = self.eval(s.target, st) if isinstance(s.target, ast.Name) else U("aug")
            rhs = self.eval(s.value, st)
            new: V = U("augassign")
            if isinstance(cur, K) and isinstance(rhs, K) and isinstance(s.op, ast.Add):
                try:
                    new = K(cur.v + rhs.v)
                except Exception:
                    new = U("augassign")
            st.effects.append(("augassign", norm(s.target), type(s.op).__name__, rhs))
            if isinstance(s.target, ast.Name):
                self._assign(s.target, new, st)
            return [st]
        if isinstance(s, ast.Expr):
            self.eval(s.value, st)
            return [st]
        if isinstance(s, ast.If):
            out: List[State] = []
            for bs, b in self.branch(s.test, st):
                out.extend(self.run(s.body if b else s.orelse, bs))
            return out
        if isinstance(s, ast.Return):
            st.term = ("return", self.eval(s.value, st) if s.value is not None else K(None))
            return [st]
        if isinstance(s, ast.Raise):
            st.term = ("raise", norm(s.exc) if s.exc is not None else "reraise")
            return [st]
        if isinstance(s, ast.Pass):
            return [st]
        if isinstance(s, ast.Break):
            st.term = ("break",)
            return [st]
        if isinstance(s, ast.Continue):
            st.term = ("continue",)
            return [st]
        if isinstance(s, ast.Delete):
            for t in s.targets:
                if isinstance(t, ast.Subscript):
                    st.effects.append(("delitem", norm(t.value), self.eval(t.slice, st)))
                else:
                    st.effects.append(("del", norm(t)))
            return [st]
        if isinstance(s, ast.Assert):
            return [st]
        if isinstance(s, ast.For):
            it = self.eval(s.iter, st)
            if isinstance(it, K) and isinstance(it.v, tuple):
                elems = [x if isinstance(x, V) else K(x) for x in it.v]
            elif isinstance(it, R) and it.kind == "list":
                elems = list(it.fields["items"])
            else:
                # one symbolic iteration stands for every element
                elems = [R("elem", of=it)]
                st.effects.append(("foreach", norm(s.iter), it))
            live, done, finished = [st], [], []
            for el in elems:
                nxt: List[State] = []
                for x in live:
                    self._assign(s.target, el, x)
                    for y in self.run(s.body, x):
                        if y.term is None:
                            nxt.append(y)
                        elif y.term[0] == "continue":
                            y.term = None
                            nxt.append(y)
                        elif y.term[0] == "break":
                            y.term = None
                            done.append(y)
                        else:
                            finished.append(y)
                live = nxt
            out2: List[State] = []
            for x in live:
                out2.extend(self.run(s.orelse, x))
            return out2 + done + finished
        if isinstance(s, ast.Try):
            # the guarded body is walked as straight-line code; handlers are analysed by CFG rules
            outs = self.run(s.body, st)
            res: List[State] = []
            for o in outs:
                if o.term is None:
                    res.extend(self.run(s.orelse, o))
                else:
                    res.append(o)
            if s.finalbody:
                fin: List[State] = []
                for o in res:
                    t = o.term
                    o.term = None
                    for f in self.run(s.finalbody, o):
                        if f.term is None:
                            f.term = t
                        fin.append(f)
                res = fin
            return res
        if self.strict_stmt:
            raise AnalysisError(f"abstract interpretation: unsupported statement {type(s).__name__}: {norm(s)[:80]}")
        return [st]


def _mentions(key: str, name: str) -> bool:
    try:
        return any(isinstance(n, ast.Name) and n.id == name for n in ast.walk(ast.parse(key, mode="eval")))
    except SyntaxError:
        return name in key
