"""Witness (run by hand): a parameter annotated in the source with a NewType that is defined in another module: the stub replicates
the annotation by its bare name but does not import it.
    cd /verif/witness && PYTHONPATH=/repo /venv/bin/python c11_newtype_import.py      (exit 1 while the defect is present)"""
import sys, tempfile, os
d = tempfile.mkdtemp(); sys.path.insert(0, d)
open(d + "/wids.py", "w").write("from typing import NewType\nUserId = NewType('UserId', int)\n")
open(d + "/wsvc.py", "w").write("from typing import List\nfrom wids import UserId\ndef find(owner: UserId = None, others: List[UserId] = ()):\n    return owner\n")
import wsvc
from monkeytype.tracing import CallTrace
from monkeytype.stubs import build_module_stubs_from_traces
txt = build_module_stubs_from_traces([CallTrace(wsvc.find, {"owner": int, "others": tuple}, int)], 0)["wsvc"].render()
print(txt)
ns = {}
try:
    exec(txt, ns)
    print("not present"); sys.exit(0)
except NameError as e:
    print("WITNESSED:", e); sys.exit(1)
