"""Abstract model of CallTracer.handle_call / handle_return / __call__ shared by C02, C03, C17, C18.

Platform side (trusted, computed on every run without executing anything): a corpus of
function forms is *compiled* with the analysing interpreter and disassembled; each
instruction offset is classified by what a `return`/`call` profile event at that offset
means (value return, generator yield, await suspension, exception exit; first entry,
resumption).  The classification of suspension points is by corpus snippet (a snippet
contains only one kind), not by the RESUME argument the repository code may consult.

Repository side: the bodies of the tracer methods are interpreted abstractly (mtsa.absint)
for every (event point x tracer state) scenario; the resulting effect sequence is what the
rules compare with the property.
"""
from __future__ import annotations

import ast
import dis
import types
from typing import Any, Dict, Iterator, List, Optional, Tuple

from mtsa.absint import K, R, S, U, V, State
from mtsa.index import FunctionInfo, Repo, norm, dotted
from mtsa.report import AnalysisError
from .common import RepoInterp

# (source, name of the code object to take, kind of every YIELD_VALUE in it)
CORPUS: List[Tuple[str, str, str]] = [
    ("def f(x):\n    return x\n", "f", "none"),
    ("def f(x):\n    return 1\n", "f", "none"),
    ("def f(x):\n    return None\n", "f", "none"),
    ("def f(x):\n    x.y\n", "f", "none"),
    ("def f(x):\n    if x:\n        return 'a'\n    raise ValueError(x)\n", "f", "none"),
    ("def f(x):\n    try:\n        return x()\n    finally:\n        x.done()\n", "f", "none"),
    ("def f(x):\n    with x as y:\n        return y\n", "f", "none"),
    ("def f(x):\n    for i in x:\n        if i:\n            return i\n", "f", "none"),
    ("f = lambda x: x + 1\n", "<lambda>", "none"),
    ("f = lambda: None\n", "<lambda>", "none"),
    ("class C:\n    @property\n    def p(self):\n        return self._p\n", "p", "none"),
    ("def g(x):\n    yield x\n    yield 1\n    return 2\n", "g", "yield"),
    ("def g(x):\n    y = yield x\n    yield y\n", "g", "yield"),
    ("def g(x):\n    yield from x\n", "g", "yield"),
    ("def g(x):\n    try:\n        yield x\n    finally:\n        x.close()\n", "g", "yield"),
    ("def g(x):\n    return (yield)\n", "g", "yield"),
    ("async def c(x):\n    await x\n    return 1\n", "c", "await"),
    ("async def c(x):\n    return await x\n", "c", "await"),
    ("async def c(x):\n    async with x as y:\n        return y\n", "c", "await"),
    ("async def c(x):\n    async for i in x:\n        pass\n", "c", "await"),
    ("async def ag(x):\n    yield x\n    yield 2\n", "ag", "yield"),
    ("async def c(x):\n    return [i async for i in x]\n", "c", "await"),
]

TRUSTED = [
    "CPython compiler + dis of the analysing interpreter (/venv python): which opcode ends / suspends / resumes a frame "
    "for each source form in the corpus (compiled, never executed)",
    "a 'return' profile event leaves frame.f_lasti at the instruction that returned, yielded or raised; a 'call' event "
    "leaves it at the RESUME instruction the frame (re)starts from",
    "return-like opcodes are the RETURN_* opcodes other than RETURN_GENERATOR",
    "an exception thrown into a suspended generator/coroutine (throw, close) delivers a 'call' event with f_lasti still at the YIELD_VALUE",
    "when that exception leaves the frame (close() of a suspended generator, an uncaught throw(), cancellation of an awaiting coroutine) the "
    "unwinding 'return' event has arg None and f_lasti still at that YIELD_VALUE - the same observation as a yield of None (checked on the "
    "analysing interpreter, CPython 3.12)",
    "at a yield of an async generator the 'return' event's arg is CPython's internal async_generator_wrapped_value box, not the yielded value",
]


def _find_code(co: types.CodeType, name: str) -> Optional[types.CodeType]:
    for c in co.co_consts:
        if isinstance(c, types.CodeType):
            if c.co_name == name:
                return c
            r = _find_code(c, name)
            if r is not None:
                return r
    return None


class Point:
    def __init__(self, src: str, code: types.CodeType, offset: int, opname: str, kind: str) -> None:
        self.src = src
        self.code = code
        self.offset = offset
        self.opname = opname
        self.kind = kind  # return | yield | await | exception | entry | resume

    def label(self) -> str:
        return f"{self.kind}@{self.opname}+{self.offset} in `{self.src.strip().splitlines()[0]} ...`"


def corpus_points() -> Tuple[List[Point], List[Point]]:
    """(return-event points, call-event points)"""
    ret: List[Point] = []
    call: List[Point] = []
    for src, name, ykind in CORPUS:
        top = compile(src, "<corpus>", "exec")
        code = _find_code(top, name)
        if code is None:
            raise AnalysisError(f"corpus: code object {name} not found")
        ins = list(dis.get_instructions(code))
        first_resume = True
        for idx, i in enumerate(ins):
            if i.opname.startswith("RETURN_") and i.opname != "RETURN_GENERATOR":
                ret.append(Point(src, code, i.offset, i.opname, "return"))
            elif i.opname == "YIELD_VALUE":
                if ykind == "none":
                    raise AnalysisError("corpus: unexpected YIELD_VALUE")
                ret.append(Point(src, code, i.offset, i.opname, ykind))
                # throw()/close() into the suspended frame whose exception leaves the frame: the unwinding 'return' event
                # (arg None) is delivered with f_lasti still at this instruction
                ret.append(Point(src, code, i.offset, i.opname, "unwind"))
                # throw()/close() into the suspended frame deliver a 'call' event at this very instruction
                call.append(Point(src, code, i.offset, i.opname, "resume"))
            elif i.opname in ("RESUME",):
                prev = ins[idx - 1].opname if idx else ""
                if first_resume:
                    call.append(Point(src, code, i.offset, i.opname, "entry"))
                    first_resume = False
                elif prev == "YIELD_VALUE":
                    call.append(Point(src, code, i.offset, i.opname, "resume"))
            elif i.opname in ("NOP", "CACHE", "RETURN_GENERATOR", "POP_TOP", "COPY_FREE_VARS", "MAKE_CELL", "EXTENDED_ARG"):
                continue
            elif i.opname.startswith(("LOAD_FAST", "LOAD_CONST", "STORE_FAST", "JUMP", "POP_JUMP", "PUSH_NULL", "COPY", "SWAP", "PUSH_EXC_INFO", "POP_EXCEPT")):
                continue  # cannot be the last instruction of a frame that raised
            else:
                ret.append(Point(src, code, i.offset, i.opname, "exception"))
    return ret, call


def frame_value(p: Point, f_locals: Optional[V] = None, extra: Optional[Dict[str, Any]] = None) -> R:
    code = R(
        "code",
        co_code=K(p.code.co_code),
        co_name=K(p.code.co_name),
        co_flags=K(p.code.co_flags),
        co_argcount=K(p.code.co_argcount),
        co_kwonlyargcount=K(p.code.co_kwonlyargcount),
        co_posonlyargcount=K(p.code.co_posonlyargcount),
        co_varnames=K(tuple(p.code.co_varnames)),
        co_filename=K("/src/app.py"),
    )
    fields: Dict[str, Any] = dict(f_code=code, f_lasti=K(p.offset), f_locals=f_locals if f_locals is not None else U("f_locals"))
    if extra:
        fields.update(extra)
    return R("frame", **fields)


def real_class(tok: V) -> Any:
    """the platform class a class token stands for (builtins / collections read as data; a user class is a fresh
    subclass of object)"""
    import builtins as _b
    import collections as _c
    if isinstance(tok, S):
        if tok.name.startswith("builtin:"):
            return getattr(_b, tok.name[8:], None)
        if tok.name.startswith("mod:collections."):
            return getattr(_c, tok.name[16:], None)
        if tok.name.startswith("mod:typing."):
            import typing as _t
            o = getattr(_t, tok.name[11:], None)
            return o if isinstance(o, type) else None
        if tok.name.startswith("class:app."):
            return type(tok.name[10:], (), {})
    return None


TRACER_INLINE_STOP = {"get_type", "get_func", "get_func_in_mro", "_has_code", "get_previous_frames", "get_locals_from_previous_frames"}


class TracerScenario:
    """Interprets one CallTracer method under a scenario; collects tracer-relevant effects."""

    def __init__(self, repo: Repo, method: str, attrs: Dict[str, V], oracle: Optional[Dict[str, V]] = None,
                 trace_in_table: Optional[V] = None, func_value: Optional[V] = None, draw: Optional[V] = None,
                 may_fork: Tuple[str, ...] = (), cache_hit: Optional[bool] = None) -> None:
        self.repo = repo
        self.cls = repo.cls("monkeytype.tracing", "CallTracer")
        fi = repo.method(self.cls, method)
        if fi is None:
            raise AnalysisError(f"CallTracer.{method} not found")
        self.fi = fi
        self.attrs = attrs
        self.trace_in_table = trace_in_table
        self.func_value = func_value
        self.draw = draw
        self.cache_hit = cache_hit
        mod = fi.module
        inline = {f.fq for f in mod.functions.values() if f.qualname.split(".")[-1] not in TRACER_INLINE_STOP}
        # helpers the tracer may delegate to in the package's utility modules
        for um in ("monkeytype.util", "monkeytype.compat"):
            umod = repo.modules.get(um)
            if umod is not None:
                inline |= {f.fq for f in umod.functions.values() if f.qualname.split(".")[-1] not in TRACER_INLINE_STOP and f.qualname not in ("get_func_fqname",)}
        self.ri = RepoInterp(repo, fi, oracle=oracle, inline=inline, may_fork=may_fork, call_hook=self.call_hook, heap=True)
        self.ri.on_attr = self._on_attr  # type: ignore[method-assign]
        self.ri.interp.on_attr = self._on_attr
        base_compare = self.ri.interp._compare
        def compare(op: ast.cmpop, a: V, b: V) -> Optional[bool]:
            if isinstance(op, (ast.In, ast.NotIn)) and isinstance(b, S) and b.name == "self.traces":
                if self.trace_in_table is None:
                    return None
                r = not (isinstance(self.trace_in_table, K) and self.trace_in_table.v is None)
                return (not r) if isinstance(op, ast.NotIn) else r
            if isinstance(op, (ast.In, ast.NotIn)) and isinstance(b, S) and b.name == "self.cache":
                if self.cache_hit is None:
                    return None
                return (not self.cache_hit) if isinstance(op, ast.NotIn) else self.cache_hit
            return base_compare(op, a, b)
        self.ri.interp._compare = compare  # type: ignore[method-assign]
        base_sub = self.ri.on_subscript
        def on_subscript(obj: V, key: V, node: ast.AST, st: State) -> Optional[V]:
            if isinstance(obj, S) and obj.name == "self.cache":
                fv_ = self.func_value if self.func_value is not None else U("cache")
                shape = self._cache_entry_shape()
                if shape is not None and not isinstance(fv_, U):
                    # the entries are tuples that hold the function at one position (next to the code object they keep alive)
                    return K(tuple(fv_ if i_ == shape[0] else S("cache-entry-part") for i_ in range(shape[1])))
                return fv_
            if isinstance(obj, S) and obj.name == "self.traces":
                return self.trace_in_table if self.trace_in_table is not None else U("traces[]")
            return base_sub(obj, key, node, st)
        self.ri.on_subscript = on_subscript  # type: ignore[method-assign]
        self.ri.interp.on_subscript = on_subscript

    KNOWN_ATTRS = {"traces", "cache", "logger", "sample_rate", "should_trace", "max_typed_dict_size"}

    def _extra_containers(self) -> Dict[str, ast.AST]:
        """Attributes other than the modelled ones that __init__ initialises to an empty container
        (e.g. a cache somebody added): they get a real heap object that lives as long as the tracer."""
        init = self.repo.method(self.cls, "__init__")
        out: Dict[str, ast.AST] = {}
        if init is None:
            return out
        from .common import _is_mutable_ctor
        for x in ast.walk(init.node):
            tgt = val = None
            if isinstance(x, ast.Assign) and len(x.targets) == 1:
                tgt, val = x.targets[0], x.value
            elif isinstance(x, ast.AnnAssign) and x.value is not None:
                tgt, val = x.target, x.value
            if isinstance(tgt, ast.Attribute) and isinstance(tgt.value, ast.Name) and tgt.value.id == "self" and tgt.attr not in self.KNOWN_ATTRS \
                    and val is not None and _is_mutable_ctor(val):
                out[tgt.attr] = val
        return out

    def own_rng_attrs(self) -> Dict[str, str]:
        """attributes that CallTracer.__init__ binds to a generator object of its own: `self.x = random.Random()` (how it is
        seeded is kept: no argument = from the operating system's entropy)"""
        if getattr(self, "_own_rng", None) is None:
            out: Dict[str, str] = {}
            init = self.repo.method(self.cls, "__init__")
            if init is not None:
                for x in ast.walk(init.node):
                    tgt = val = None
                    if isinstance(x, ast.Assign) and len(x.targets) == 1:
                        tgt, val = x.targets[0], x.value
                    elif isinstance(x, ast.AnnAssign) and x.value is not None:
                        tgt, val = x.target, x.value
                    if isinstance(tgt, ast.Attribute) and isinstance(tgt.value, ast.Name) and tgt.value.id == "self" and isinstance(val, ast.Call) \
                            and (dotted(val.func) or "") in ("random.Random", "Random", "random.SystemRandom", "SystemRandom"):
                        out[tgt.attr] = "unseeded" if not val.args and not val.keywords else "seeded:" + norm(val)
            self._own_rng = out
        return self._own_rng

    def _on_attr(self, obj: V, attr: str, node: ast.AST, st: State) -> Optional[V]:
        if isinstance(obj, S) and obj.name == "self":
            if attr in self.attrs:
                return self.attrs[attr]
            extra = self._extra_containers()
            if attr in extra and self.ri.heap:
                key = f"__global__:self.{attr}"
                if key not in st.env:
                    st.env[key] = self.ri.interp.eval(extra[attr], st)
                return st.env[key]
            if attr not in self.KNOWN_ATTRS and any(attr in c.attrs for c in self.repo.mro(self.cls)):
                saved_sc = self.ri.self_class
                self.ri.self_class = self.cls
                try:
                    v_c = RepoInterp.on_attr(self.ri, obj, attr, node, st)  # a class-level constant (a dispatch table)
                finally:
                    self.ri.self_class = saved_sc
                if v_c is not None:
                    return v_c
            return S("self." + attr)
        return RepoInterp.on_attr(self.ri, obj, attr, node, st)

    def _cache_entry_shape(self) -> Optional[Tuple[int, int]]:
        """(position of the function, length) when the tracer stores TUPLES in self.cache - read off the one statement that
        stores what the look-up returned: `self.cache[key] = (code, get_func(frame))`; None when it stores the function itself"""
        if getattr(self, "_shape_done", False):
            return self._shape
        self._shape_done, self._shape = True, None
        for m in self.cls.methods.values():
            for x in ast.walk(m.node):
                if isinstance(x, ast.Assign) and any(isinstance(t, ast.Subscript) and isinstance(t.value, ast.Attribute) and t.value.attr == "cache" for t in x.targets) \
                        and isinstance(x.value, ast.Tuple):
                    for i_, el in enumerate(x.value.elts):
                        if isinstance(el, ast.Call) and (dotted(el.func) or "").split(".")[-1] == "get_func":
                            self._shape = (i_, len(x.value.elts))
        return self._shape

    def _is_cache_accessor(self, fi: FunctionInfo) -> bool:
        """a method of the tracer whose whole job is the memoised look-up: it reads/writes `self.cache` and calls the look-up"""
        if fi is self.fi or fi.cls is not self.cls:
            return False
        touches = any(isinstance(x, ast.Attribute) and x.attr == "cache" and isinstance(x.value, ast.Name) and x.value.id == "self" for x in ast.walk(fi.node))
        looks_up = any(isinstance(x, ast.Call) and (dotted(x.func) or "").split(".")[-1] == "get_func" for x in ast.walk(fi.node))
        return touches and looks_up

    def call_hook(self, call: ast.Call, fname: Optional[str], fval: Optional[V], args: List[V], kwargs: Dict[str, V], st: State) -> Optional[V]:
        meth = call.func.attr if isinstance(call.func, ast.Attribute) else None
        if meth is not None and isinstance(fval, S) and fval.name == "self" and "cache" not in self.attrs and self.func_value is not None:
            # where the cache is not the subject of the scenario (no real dict was handed in), the memoised look-up is the
            # abstraction boundary: it answers with the scenario's function, however the cache represents its entries
            m_ = self.repo.method(self.cls, meth)
            if m_ is not None and self._is_cache_accessor(m_):
                # (a miss writes the cache: an effect that a call which is not sampled must not have)
                if not self.cache_hit:
                    st.effects.append(("setitem", "self.cache", args[0] if args else K(None), U("?")))  # a miss is remembered
                return self.func_value
        # a symbolic program value S('val:<n>') / S('arg') is a plain instance of a user class of its own
        if len(args) == 1 and isinstance(args[0], S) and (args[0].name.startswith("val:") or args[0].name == "arg") and not kwargs:
            if fname == "type":
                return S("class:app.ClassOf_" + args[0].name.replace(":", "_"))
            if fname == "id":
                return R("id", of=args[0])
        if fname == "type" and len(args) == 1 and not kwargs and isinstance(args[0], (K, R)) and not (isinstance(args[0], R) and args[0].kind not in ("dict", "list")):
            # a plain Python value of the scenario (the tuple bound to *args, the dict bound to **kwargs): its exact builtin class
            a_t = args[0]
            return S("builtin:" + (a_t.kind if isinstance(a_t, R) else type(a_t.v).__name__))
        if fname == "issubclass" and len(args) == 2:
            a = real_class(args[0])
            seq = list(args[1].v) if isinstance(args[1], K) and isinstance(args[1].v, tuple) else [args[1]]
            real = [real_class(b) for b in seq]
            if a is not None and all(b is not None for b in real):
                return K(any(issubclass(a, b) for b in real))
        if isinstance(fval, S) and fval.name == "self.traces":
            if meth == "get":
                if self.trace_in_table is None:
                    return U("traces.get")
                return self.trace_in_table
            if meth in ("pop", "popitem", "clear"):
                st.effects.append(("delitem", "self.traces", args[0] if args else K(None)))
                return self.trace_in_table if self.trace_in_table is not None else U("pop")
            if meth in ("setdefault", "update", "__setitem__"):
                st.effects.append(("setitem", "self.traces", args[0] if args else K(None), args[1] if len(args) > 1 else U("?")))
                return U(meth)
        if isinstance(fval, S) and fval.name == "self.cache" and meth == "get" and args and self.cache_hit is not None:
            # the scenario says whether the frame's key is cached: a hit answers with the cached function, a miss with the default
            if self.cache_hit:
                return self.func_value if self.func_value is not None else U("cache")
            return args[1] if len(args) > 1 else K(None)
        if isinstance(fval, S) and fval.name == "self.cache" and meth in ("setdefault", "update", "__setitem__"):
            st.effects.append(("setitem", "self.cache", args[0] if args else K(None), U("?")))
            return U(meth)
        if isinstance(fval, S) and fval.name == "self.logger" and meth is not None:
            st.effects.append(("logger." + meth, tuple(args)))
            return K(None)
        if isinstance(fval, R) and fval.kind == "trace" and meth is not None:
            st.effects.append(("trace." + meth, tuple(args)))
            return K(None)
        if isinstance(fval, S) and fval.name == "self.should_trace":
            pass
        callee = self.ri.resolve(call, fval)
        if callee is not None:
            tail = callee.qualname.split(".")[-1]
            if callee.fq == "monkeytype.typing.get_type" or tail == "get_type":
                mt = kwargs.get("max_typed_dict_size", args[1] if len(args) > 1 else K("<missing>"))
                st.effects.append(("get_type", args[0] if args else U("?"), mt))
                return R("typeof", of=args[0] if args else U("?"))
            if callee.cls is not None and callee.cls.name == "CallTrace" and tail == "__init__":
                args = [st.freeze(a) for a in args]
                kwargs = {k: st.freeze(v) for k, v in kwargs.items()}
                st.effects.append(("CallTrace", tuple(args), tuple(sorted(kwargs.items()))))
                return R("trace", func=args[0] if args else kwargs.get("func", U("?")),
                         arg_types=args[1] if len(args) > 1 else kwargs.get("arg_types", U("?")), new=K(True))
            if tail == "get_func":
                st.effects.append(("get_func", tuple(args)))
                return self.func_value if self.func_value is not None else U("get_func")
        if meth in ("randrange", "randint", "random", "choice", "getrandbits", "uniform") and isinstance(fval, S) and fval.name.startswith("self.") \
                and fval.name[5:] in self.own_rng_attrs():
            # a generator object the tracer created for itself in __init__ (random.Random()): the program's global
            # generator is neither consumed nor able to influence the draw
            st.effects.append(("draw", "own." + meth, tuple(args)))
            return self.draw if self.draw is not None else U("draw")
        if meth in ("getstate", "setstate", "seed") and isinstance(fval, S) and fval.name.startswith("self.") and fval.name[5:] in self.own_rng_attrs():
            st.effects.append(("rng-state", "own." + meth))
            return R("rngstate") if meth == "getstate" else K(None)
        if fname is not None and fname.split(".")[0] == "random" and fname.split(".")[-1] in ("getstate", "setstate", "seed"):
            st.effects.append(("rng-state", fname))
            return R("rngstate") if fname.endswith("getstate") else K(None)
        if fname is not None and fname.split(".")[-1] in ("randrange", "randint", "random", "choice", "getrandbits", "uniform") and fname.split(".")[0] in ("random",):
            st.effects.append(("draw", fname, tuple(args)))
            if self.draw is not None:
                return self.draw
            return U("draw")
        return None

    def run(self, env: Dict[str, V], carry: Optional[State] = None) -> List[State]:
        e = {"self": S("self")}
        e.update(env)
        return self.ri.run(e, carry=carry)


RELEVANT = ("setattr", "setitem", "delitem", "logger.", "trace.", "get_type", "draw", "rng-state", "CallTrace", "get_func", "KeyError", "IndexError", "del")


def relevant(effects: List[Tuple[Any, ...]]) -> List[Tuple[Any, ...]]:
    return [e for e in effects if str(e[0]).startswith(RELEVANT)]
