#!/venv/bin/python
"""Apply one textual mutation to a scratch copy of /repo/monkeytype and run a check on it.
usage: mut.py <PROP> <relative file> <old> <new>   (strings are python literals with \\n)"""
import os, shutil, subprocess, sys, tempfile
prop, rel, old, new = sys.argv[1:5]
old = old.encode().decode('unicode_escape'); new = new.encode().decode('unicode_escape')
d = tempfile.mkdtemp(prefix="mtsa-mut-")
try:
    shutil.copytree("/repo/monkeytype", os.path.join(d, "monkeytype"))
    p = os.path.join(d, rel)
    s = open(p).read()
    if old not in s:
        print("STALE: old text not found"); sys.exit(3)
    s = s.replace(old, new, 1)
    compile(s, p, "exec")
    open(p, "w").write(s)
    env = dict(os.environ, MTSA_REPO=d, MTSA_NO_EVIDENCE="1")
    r = subprocess.run(["/verif/check", prop], env=env, capture_output=True, text=True)
    print(r.stdout[-3000:], r.stderr[-2000:])
    print("rc", r.returncode)
finally:
    shutil.rmtree(d)
