"""Abstract file-system world for deciding monkeytype.config.default_code_filter (C17).

Paths are records R('path', parts=K(tuple of str), abs=K(bool)); the world fixes three library roots (the values
sysconfig.get_path returns for stdlib / purelib / platlib), a symbolic link into site-packages and a working
directory.  pathlib / os.path / os.environ operations are catalogued here with their documented semantics, so the
filter can be *interpreted* on a table of code objects, however its source is arranged (helpers, flag loops,
early returns ...).  The expected verdicts come from `oracle`, which is written from the property's sentence, not
from the code."""
from __future__ import annotations

import ast
from typing import Any, Dict, List, Optional, Tuple

from mtsa.absint import K, R, Ref, S, U, V, State
from mtsa.index import Repo, dotted, norm
from mtsa.report import AnalysisError
from .common import RepoInterp

CFG = "monkeytype.config"

ROOTS = {"stdlib": "/py/stdlib", "purelib": "/opt/pylink/site", "platlib": "/py/site64"}  # purelib is configured through a link
OTHER_SYSCONFIG = {"platstdlib": "/py/platstd", "include": "/py/include", "scripts": "/py/bin", "data": "/py"}
SYMLINKS = {("/", "link"): ("/", "py", "site"), ("/", "opt", "pylink"): ("/", "py"),  # /link -> /py/site, /opt/pylink -> /py
            # links whose LAST component is the link: a file of the project that points into site-packages, and an entry of
            # site-packages that points at a working copy (a development install)
            ("/", "home", "u", "app", "vendored.py"): ("/", "py", "site", "requests", "api.py"),
            ("/", "py", "site", "devpkg.py"): ("/", "home", "u", "work", "devpkg.py")}
CWD = ("/", "home", "u", "app")

# (co_filename, description)
FILES: List[Tuple[str, str]] = [
    ("", "empty file name"),
    ("<string>", "exec'd source"),
    ("<frozen importlib._bootstrap>", "frozen module"),
    ("<stdin>", "interactive input"),
    ("/home/u/app/main.py", "user script"),
    ("/home/u/app/pkg/mod.py", "user package module"),
    ("pkg/mod.py", "user module given by a relative file name"),
    ("/py/stdlib/json/decoder.py", "standard library"),
    ("/py/site/requests/api.py", "site-packages (purelib)"),
    ("/py/site64/numpy/core.py", "site-packages (platlib)"),
    ("/link/requests/api.py", "site-packages reached through a symbolic link"),
    ("/opt/pylink/site/requests/api.py", "site-packages named the way sysconfig names it (through a link)"),
    ("/home/u/app/vendored.py", "file of the project that is itself a symbolic link to a site-packages file"),
    ("/py/site/devpkg.py", "entry of site-packages that is itself a symbolic link to a file of a working copy"),
    ("/py/stdlibx/evil.py", "directory whose name merely starts like a library root"),
    ("/home/u/py/stdlib/x.py", "user directory that repeats the root's last components"),
]
ALLOW_LISTS: List[Optional[str]] = [None, "", "pkg", "mod", "requests", "api", "zzz", "site", "zzz,numpy", "json,zzz,main"]
# files whose allow-list verdict the property's sentence does not determine for some tested name
ALLOW_SKIP = {"/home/u/py/stdlib/x.py"}


def mkpath(parts: Tuple[str, ...]) -> R:
    return R("path", parts=K(tuple(parts)))


def parse(s: str) -> Tuple[str, ...]:
    ab = s.startswith("/")
    ps = [p for p in s.split("/") if p and p != "."]
    return (("/",) if ab else ()) + tuple(ps)


def text(parts: Tuple[str, ...]) -> str:
    if parts and parts[0] == "/":
        return "/" + "/".join(parts[1:])
    return "/".join(parts) if parts else "."


def resolve(parts: Tuple[str, ...]) -> Tuple[str, ...]:
    if not parts or parts[0] != "/":
        parts = CWD + tuple(parts)
    out: List[str] = []
    for p in parts:
        if p == "..":
            if len(out) > 1:
                out.pop()
            continue
        out.append(p)
        if tuple(out) in SYMLINKS:
            out = list(SYMLINKS[tuple(out)])
    return tuple(out)


def under(parts: Tuple[str, ...], root: Tuple[str, ...]) -> bool:
    return len(parts) >= len(root) and parts[:len(root)] == root


def oracle(filename: str, allow: Optional[str]) -> bool:
    """C17: real source file; without allow-list: outside stdlib and site-packages (after resolving links);
    with an allow-list: some listed name is the module (file stem) or one of its packages (directory components
    below the library root / of the path)."""
    if not filename or filename.startswith("<"):
        return False
    real = resolve(parse(filename))
    roots = [resolve(parse(r)) for r in ROOTS.values()]
    if allow is None:
        return not any(under(real, r) for r in roots)
    names = allow.split(",")
    rel = real
    for r in roots:
        if under(real, r):
            rel = real[len(r):]
            break
    stem = rel[-1].rsplit(".", 1)[0] if "." in rel[-1].lstrip(".") else rel[-1]
    return any(n == stem or n in rel for n in names)


def _pp(v: V) -> Optional[Tuple[str, ...]]:
    if isinstance(v, R) and v.kind == "path":
        return tuple(v.fields["parts"].v)
    if isinstance(v, K) and isinstance(v.v, str):
        return parse(v.v)
    return None


class FilterScenario:
    def __init__(self, repo: Repo, allow: Optional[str]) -> None:
        self.repo = repo
        self.allow = allow
        self.fi = repo.fn(CFG, "default_code_filter")
        self.mod = repo.module(CFG)
        inline = {f.fq for f in self.mod.functions.values()}
        for um in ("monkeytype.util", "monkeytype.compat"):  # helpers the filter may delegate to in the package's utility modules
            if um in repo.modules:
                inline |= {f.fq for f in repo.modules[um].functions.values()}
        self.ri = RepoInterp(repo, self.fi, inline=inline, call_hook=self.hook, may_fork=(), heap=True, max_depth=16)
        self.ri.construct_instances = True  # helper objects the filter may be organised around (a dataclass holding the resolved path)
        self.ri.dispatch_instances = True
        base_name = self.ri.on_name
        base_attr = self.ri.on_attr
        self.path_work: List[str] = []
        self.env_reads: List[str] = []

        def on_name(name: str, st: State) -> Optional[V]:
            mod = self.ri.cur_fi.module
            if mod is self.mod and name in mod.constants and name not in mod.functions and name not in mod.classes:
                key = f"__global__:{mod.name}.{name}"
                if key not in st.env:
                    st.env[key] = U("recursive constant")
                    st.env[key] = self.ri.interp.eval(mod.constants[name], st)
                return st.env[key]
            return base_name(name, st)

        def on_attr(obj: V, attr: str, node: ast.AST, st: State) -> Optional[V]:
            if isinstance(obj, R) and obj.kind == "path":
                ps = tuple(obj.fields["parts"].v)
                last = ps[-1] if ps and ps[-1] != "/" else ""
                if attr == "parts":
                    return K(tuple(ps))
                if attr == "name":
                    return K(last)
                if attr == "stem":
                    return K(last.rsplit(".", 1)[0] if "." in last.lstrip(".") else last)
                if attr == "suffix":
                    return K("." + last.rsplit(".", 1)[1] if "." in last.lstrip(".") else "")
                if attr == "parent":
                    return mkpath(ps[:-1] if len(ps) > 1 else ps)
                if attr == "parents":
                    return K(tuple(mkpath(ps[:i]) for i in range(len(ps) - 1, 0, -1)))
                return None
            if isinstance(obj, S) and obj.name in ("mod:sys",) and attr == "real_prefix":
                st.pending = st.pending or "AttributeError"
                return U("no real_prefix")
            return base_attr(obj, attr, node, st)

        self.ri.on_name = on_name  # type: ignore[method-assign]
        self.ri.interp.on_name = on_name
        self.ri.on_attr = on_attr  # type: ignore[method-assign]
        self.ri.interp.on_attr = on_attr

    def hook(self, call: ast.Call, fname: Optional[str], fval: Optional[V], args: List[V], kwargs: Dict[str, V], st: State) -> Optional[V]:
        d = fname or ""
        tail = d.split(".")[-1]
        meth = call.func.attr if isinstance(call.func, ast.Attribute) else None
        # --- environment
        if d in ("os.environ.get", "os.getenv", "environ.get", "getenv") and args and isinstance(args[0], K):
            self.env_reads.append(str(args[0].v))
            if args[0].v == "MONKEYTYPE_TRACE_MODULES":
                if self.allow is None:
                    return args[1] if len(args) > 1 else kwargs.get("default", K(None))
                return K(self.allow)
            return args[1] if len(args) > 1 else K(None)
        if d in ("sysconfig.get_path", "get_path") and args and isinstance(args[0], K):
            if "vars" in kwargs:
                return K("/real/stdlib")
            return K(ROOTS.get(args[0].v, OTHER_SYSCONFIG.get(args[0].v)))
        if d in ("sysconfig.get_paths", "get_paths"):
            allp = dict(ROOTS, **OTHER_SYSCONFIG)
            return R("dict", items=tuple((K(k), K(v)) for k, v in allp.items()))
        if d == "getattr" and len(args) == 3 and args[0] == S("mod:sys") and args[1] == K("real_prefix"):
            return args[2]
        if d == "hasattr" and len(args) == 2 and args[0] == S("mod:sys") and args[1] == K("real_prefix"):
            return K(False)
        # --- pathlib
        if tail in ("Path", "PurePath", "PosixPath", "PurePosixPath") and (d.startswith("pathlib.") or d == tail) and len(args) >= 1:
            ps: Tuple[str, ...] = ()
            for a in args:
                q = _pp(a)
                if q is None:
                    return None
                ps = q if (q and q[0] == "/") else ps + q
            self.path_work.append(norm(call)[:50])
            return mkpath(ps)
        if isinstance(fval, R) and fval.kind == "path" and meth is not None:
            me = tuple(fval.fields["parts"].v)
            self.path_work.append(meth)
            if meth in ("resolve", "absolute"):
                return mkpath(resolve(me) if meth == "resolve" else (me if me and me[0] == "/" else CWD + me))
            if meth in ("relative_to", "is_relative_to") and len(args) == 1:
                other = _pp(args[0])
                if other is None:
                    return None
                ok = under(me, other)
                if meth == "is_relative_to":
                    return K(ok)
                if not ok:
                    st.pending = st.pending or "ValueError"
                    return U("not relative")
                return mkpath(me[len(other):])
            if meth in ("as_posix", "__str__", "__fspath__"):
                return K(text(me))
            if meth == "exists" or meth == "is_file":
                return K(True)
            if meth in ("with_suffix",) and len(args) == 1 and isinstance(args[0], K):
                last = me[-1]
                st_ = last.rsplit(".", 1)[0] if "." in last.lstrip(".") else last
                return mkpath(me[:-1] + (st_ + args[0].v,))
            return None
        if d in ("str", "os.fspath", "fspath", "os.fsdecode") and len(args) == 1 and isinstance(args[0], R) and args[0].kind == "path":
            return K(text(tuple(args[0].fields["parts"].v)))
        if d == "bool" and len(args) == 1 and isinstance(args[0], R) and args[0].kind == "path":
            return K(True)  # pathlib paths define no __bool__/__len__
        # --- os.path on strings
        if d.startswith("os.path.") or d.startswith("path."):
            vals = [_pp(a) for a in args]
            if any(v is None for v in vals):
                return None
            self.path_work.append(tail)
            if tail in ("realpath",):
                return K(text(resolve(vals[0])))  # type: ignore[arg-type]
            if tail in ("abspath",):
                v0 = vals[0]
                return K(text(v0 if v0 and v0[0] == "/" else CWD + v0))  # type: ignore[operator,index]
            if tail == "basename":
                return K(vals[0][-1] if vals[0] else "")  # type: ignore[index]
            if tail == "dirname":
                return K(text(vals[0][:-1]))  # type: ignore[index]
            if tail == "splitext" and isinstance(args[0], K):
                s = args[0].v
                base = s.rsplit("/", 1)[-1]
                if "." in base.lstrip("."):
                    i = s.rfind(".")
                    return K((K(s[:i]), K(s[i:])))
                return K((K(s), K("")))
            if tail == "join":
                ps2: Tuple[str, ...] = ()
                for q in vals:
                    ps2 = q if (q and q[0] == "/") else ps2 + q  # type: ignore[operator,index]
                return K(text(ps2))
            if tail == "commonpath":
                return None
            if tail == "sep":
                return K("/")
        if d in ("functools.lru_cache", "lru_cache", "functools.cache"):
            return None
        return None

    def verdict(self, filename: str) -> Tuple[str, Any, List[str]]:
        """('value', bool) | ('raise', name) | ('other', text), plus the path operations performed"""
        self.path_work = []
        p = self.fi.positional_params()[0]
        code = R("code", co_filename=K(filename), co_name=K("f"), co_firstlineno=K(1))
        outs = self.ri.run({p: code})
        work = list(self.path_work)
        if len(outs) != 1:
            raise AnalysisError(f"default_code_filter: {len(outs)} outcomes for one code object")
        o = outs[0]
        if o.term is None:
            return ("value", None, work)
        if o.term[0] == "return":
            v = o.freeze(o.term[1])
            if isinstance(v, K) and isinstance(v.v, bool):
                return ("value", v.v, work)
            return ("other", str(v), work)
        return ("raise", o.term[1], work)

    def verdict_as_called(self, filename: str, carry: Optional[State] = None, line: int = 1) -> Tuple[str, Any, State]:
        """the verdict a *caller* of default_code_filter gets: decorators such as functools.lru_cache are honoured, the
        process state (cache tables) is carried from call to call"""
        p = self.fi.positional_params()[0]
        code = R("code", co_filename=K(filename), co_name=K("f"), co_firstlineno=K(line))
        st = State()
        if carry is not None:
            st.heap, st._next = carry.heap, carry._next
            for k, v in carry.env.items():
                if k.startswith("__global__:"):
                    st.env[k] = v
        fake = ast.Call(func=ast.Name(id=self.fi.qualname, ctx=ast.Load()), args=[], keywords=[])
        v = self.ri.inline_call(self.fi, fake, None, [code], {}, st)
        if st.pending is not None:
            return ("raise", st.pending, st)
        fv = st.freeze(v)
        if isinstance(fv, K) and isinstance(fv.v, bool):
            return ("value", fv.v, st)
        return ("other", str(fv), st)

    def lib_paths(self) -> Any:
        st = State()
        v = self.ri.interp.on_name("LIB_PATHS", st) if "LIB_PATHS" in self.mod.constants else None
        return st.freeze(v) if v is not None else None
