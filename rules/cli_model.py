"""Abstract model of the `apply` path (monkeytype.cli.apply_stub_using_libcst / apply_stub_handler /
get_newly_imported_items) and of monkeytype.type_checking_imports_transformer, used by C15 and C16.
libcst objects are opaque records; the libcst entry points the repository calls are hooks that
record their arguments (the effect trace is what the rules inspect)."""
from __future__ import annotations

import ast
from typing import Any, Callable, Dict, List, Optional, Tuple

from mtsa.absint import K, R, Ref, S, U, V, State
from mtsa.index import Repo, dotted, norm
from mtsa.report import AnalysisError
from .common import RepoInterp
from .codec_model import exception_hierarchy

CLI = "monkeytype.cli"
TCI = "monkeytype.type_checking_imports_transformer"


def item(module: str, obj: Optional[str] = None, alias: Optional[str] = None, relative: int = 0) -> R:
    return R("ImportItem", module_name=K(module), obj_name=K(obj), alias=K(alias), relative=K(relative))


class CliScenario:
    def __init__(self, repo: Repo, module: str, func: str, hook: Optional[Callable[..., Optional[V]]] = None, inline_all: bool = True) -> None:
        self.repo = repo
        self.fi = repo.fn(module, func)
        self.trace: List[Tuple[Any, ...]] = []
        self.extra = hook
        inline = set()
        if inline_all:
            for m in (CLI, TCI):
                for f in repo.module(m).functions.values():
                    inline.add(f.fq)
        self.ri = RepoInterp(repo, self.fi, inline=inline, call_hook=self.call_hook, may_fork=(), heap=True, max_depth=24)
        self.ri.construct_instances = False
        self.ri.dispatch_instances = True
        self.ri.interp.exc_parents = dict(exception_hierarchy(repo))
        self.ri.interp.exc_parents["HandlerError"] = "Exception"
        self.ri.on_attr = self.on_attr  # type: ignore[method-assign]
        self.ri.interp.on_attr = self.on_attr

    def on_attr(self, obj: V, attr: str, node: ast.AST, st: State) -> Optional[V]:
        if isinstance(obj, R) and obj.kind in ("opaque", "transformed", "module") and attr not in obj.fields:
            return R("opaque", of=obj, attr=K(attr))
        if isinstance(obj, S) and obj.name == "self" and self.fi.cls is not None and self.repo.method(self.fi.cls, attr) is not None:
            # a method of the receiver taken as a VALUE (put into a tuple of steps, handed to reduce/map): a bound method
            # (the callee of `self.m(...)` is not looked up through this hook)
            return R("boundmethod", name=K(attr), self=obj, cls=K(self.fi.cls.fq))
        if isinstance(obj, S) and (obj.name == "self" or obj.name.startswith("self.")):
            return S(obj.name + "." + attr)
        return RepoInterp.on_attr(self.ri, obj, attr, node, st)

    def call_hook(self, call: ast.Call, fname: Optional[str], fval: Optional[V], args: List[V], kwargs: Dict[str, V], st: State) -> Optional[V]:
        if self.extra is not None:
            v = self.extra(call, fname, fval, args, kwargs, st)
            if v is not None:
                return v
        d = fname or ""
        meth = call.func.attr if isinstance(call.func, ast.Attribute) else None
        if isinstance(fval, R) and fval.kind in ("ImportAlias", "Import", "ImportFrom", "stmt") and meth == "with_changes":
            return fval.replace(**{k: st.freeze(v) for k, v in kwargs.items()})
        if d == "RemoveFromParent":
            return R("removed")
        if d == "isinstance" and len(args) == 2:
            c = args[1]
            nm = (c.name if isinstance(c, S) else repr(c)).split(".")[-1]
            a = args[0]
            if isinstance(a, (R,)):
                return K(a.kind == nm or (nm == "SimpleStatementLine" and a.kind == "stmt" and a.fields.get("simple") == K(True)))
            if isinstance(a, K):
                return K(False)
            return None
        if d.split(".")[-1] in ("get_full_name_for_node", "get_full_name_for_node_or_raise") and len(args) == 1:
            # libcst.helpers: the dotted name a Name/Attribute node spells (leading dots of a relative import are not part of it)
            a0 = args[0]
            if isinstance(a0, K):
                return a0
            if isinstance(a0, R) and "value" in a0.fields:
                return a0.fields["value"]
            return None
        if d == "get_absolute_module_from_package_for_import" and len(args) + len(kwargs) == 2 and set(kwargs) <= {"current_package", "import_node"}:
            # (libcst.helpers.get_absolute_module_from_package_for_import(current_package, import_node): also by keyword)
            args = ([kwargs["current_package"]] if "current_package" in kwargs and not args else list(args[:1])) + \
                ([kwargs["import_node"]] if "import_node" in kwargs else list(args[1:2]))
            if len(args) != 2:
                return None
            # libcst.helpers: an absolute import names its module; a relative one is resolved against the package
            # (None when no package is given)
            n = args[1]
            if not (isinstance(n, R) and "module" in n.fields):
                return None
            dots = n.fields.get("relative", K(0))
            dots = dots.v if isinstance(dots, K) and isinstance(dots.v, int) else 0
            if dots == 0:
                return n.fields["module"]
            pkg = args[0]
            if not (isinstance(pkg, K) and isinstance(pkg.v, str)):
                return K(None) if pkg == K(None) else None
            parts = pkg.v.split(".")
            base = parts[: len(parts) - (dots - 1)] if dots - 1 <= len(parts) else []
            modname = n.fields["module"].v if isinstance(n.fields["module"], K) else None
            return K(".".join(base + ([modname] if modname else [])))
        if d in ("list", "set") and len(args) == 1:
            seq = self.ri.interp.iterate(args[0], st)
            if seq is not None:
                if d == "set":
                    out: List[V] = []
                    for x in seq:
                        if x not in out:
                            out.append(x)
                    return st.alloc("set", out)
                return st.alloc("list", list(seq))
        if d == "enumerate" and args:
            seq = self.ri.interp.iterate(args[0], st)
            start_v = kwargs.get("start", args[1] if len(args) > 1 else K(0))
            if seq is not None and isinstance(start_v, K) and isinstance(start_v.v, int):
                return K(tuple(K((K(i), x)) for i, x in enumerate(seq, start_v.v)))
        return None

    def run(self, env: Dict[str, V]) -> State:
        outs = self.ri.run(env)
        if len(outs) != 1:
            raise AnalysisError(f"{self.fi.fq}: {len(outs)} outcomes for one scenario")
        return outs[0]

    def result(self, env: Dict[str, V]) -> Tuple[str, Any]:
        o = self.run(env)
        if o.term is None:
            return ("return", K(None))
        if o.term[0] == "raise":
            return ("raise", str(o.term[1]))
        return ("return", o.freeze(o.term[1]))
