"""monkeytype.compat decided by interpretation.

The inference, rewriter, codec and rendering models treat the predicates of monkeytype/compat.py as catalogued
facts (is_generic_of = "same origin", types_equal = structural equality, ...).  This module discharges that
catalogue against the source: every predicate is interpreted over a universe of abstract types - typing aliases
with their CPython representation (class of the alias object, __origin__, _name), classes, Any, anonymous and named
TypedDicts nested up to three levels - and must give the catalogued answer.

`==` between two TypedDict classes is MonkeyType's own metaclass __eq__ (compat installs it): the interpreter
routes such comparisons, also the nested ones that arise inside `__annotations__ == __annotations__`, through the
repository function that is assigned to _TypedDictMeta.__eq__."""
from __future__ import annotations

import ast
from typing import Any, Dict, List, Optional, Tuple

from mtsa.absint import K, R, Ref, S, U, V, State
from mtsa.index import Repo, dotted, norm
from mtsa.report import AnalysisError, Ctx

from .common import RepoInterp
from .tracer_model import real_class

CP = "monkeytype.compat"

# typing alias -> (runtime origin class token, arity or None)
ALIASES: Dict[str, Tuple[str, Optional[int]]] = {
    "List": ("builtin:list", 1), "Set": ("builtin:set", 1), "Dict": ("builtin:dict", 2), "Tuple": ("builtin:tuple", None),
    "DefaultDict": ("mod:collections.defaultdict", 2), "Type": ("builtin:type", 1), "Iterator": ("mod:collections.abc.Iterator", 1),
    "Generator": ("mod:collections.abc.Generator", 3), "Callable": ("mod:collections.abc.Callable", None),
    "Iterable": ("mod:collections.abc.Iterable", 1), "OrderedDict": ("mod:collections.OrderedDict", 2), "Deque": ("mod:collections.deque", 1),
}
INT, STR, NONE = S("builtin:int"), S("builtin:str"), S("builtin:NoneType")
ANY = S("mod:typing.Any")
UNION = S("mod:typing.Union")


def gen(origin: str, *args: V) -> R:
    return R("generic", origin=K(origin), args=K(tuple(args)))


def bare(origin: str) -> S:
    return S("mod:typing." + origin)


def td(name: str, fields: Dict[str, V], total: bool = True) -> R:
    return R("typeddict", name=K(name), total=K(total), fields=R("dict", items=tuple((K(k), v) for k, v in fields.items())))


def anon(required: Dict[str, V], optional: Optional[Dict[str, V]] = None) -> R:
    return td("DUMMY_NAME", {"required_fields": td("REQUIRED_TYPED_DICT_NAME", required), "optional_fields": td("OPTIONAL_TYPED_DICT_NAME", optional or {}, total=False)})


def origin_token(t: V) -> Optional[V]:
    if isinstance(t, R) and t.kind == "generic":
        o = t.fields["origin"].v
        return UNION if o == "Union" else S(ALIASES[o][0])
    if isinstance(t, S) and t.name.startswith("mod:typing.") and t.name[11:] in ALIASES:
        return S(ALIASES[t.name[11:]][0])
    return None


def structurally_equal(a: V, b: V) -> bool:
    if isinstance(a, R) and isinstance(b, R) and a.kind == b.kind == "generic" and a.fields["origin"] == b.fields["origin"] == K("Union"):
        xs, ys = list(a.fields["args"].v), list(b.fields["args"].v)
        return len(xs) == len(ys) and all(any(structurally_equal(x, y) for y in ys) for x in xs) and all(any(structurally_equal(x, y) for x in xs) for y in ys)
    if isinstance(a, R) and isinstance(b, R) and a.kind == b.kind == "generic":
        return a.fields["origin"] == b.fields["origin"] and len(a.fields["args"].v) == len(b.fields["args"].v) and \
            all(structurally_equal(x, y) for x, y in zip(a.fields["args"].v, b.fields["args"].v))
    if isinstance(a, R) and isinstance(b, R) and a.kind == b.kind == "typeddict":
        fa, fb = dict(a.fields["fields"].fields["items"]), dict(b.fields["fields"].fields["items"])
        return a.fields["name"] == b.fields["name"] and a.fields["total"] == b.fields["total"] and set(fa) == set(fb) and \
            all(structurally_equal(fa[k], fb[k]) for k in fa)
    return a == b


class CompatScenario:
    def __init__(self, repo: Repo, func: str) -> None:
        self.repo = repo
        self.mod = repo.module(CP)
        self.fi = repo.fn(CP, func)
        self.eq_impl = self._eq_impl()
        inline = {f.fq for f in self.mod.functions.values()}
        self.ri = RepoInterp(repo, self.fi, inline=inline, call_hook=self.hook, may_fork=(), heap=True, max_depth=40)
        self.ri.on_attr = self.on_attr  # type: ignore[method-assign]
        self.ri.interp.on_attr = self.on_attr
        self.base_cmp = self.ri.interp._compare
        self.ri.interp._compare = self.compare  # type: ignore[method-assign]
        self.st: Optional[State] = None

    def _eq_impl(self) -> Any:
        """the function compat assigns to _TypedDictMeta.__eq__"""
        for st in self.mod.tree.body:
            if isinstance(st, ast.Assign) and len(st.targets) == 1 and norm(st.targets[0]).endswith("_TypedDictMeta.__eq__") and isinstance(st.value, ast.Name):
                f = self.mod.functions.get(st.value.id)
                if f is not None:
                    return f
        return None

    # ---- equality -----------------------------------------------------------------------------------
    def compare(self, op: ast.cmpop, a: V, b: V) -> Optional[bool]:
        if isinstance(op, (ast.Eq, ast.NotEq)):
            r = self.equal(a, b)
            if r is None:
                return None
            return (not r) if isinstance(op, ast.NotEq) else r
        return self.base_cmp(op, a, b)

    def equal(self, a: V, b: V) -> Optional[bool]:
        st = self.st
        if st is not None:
            a, b = st.freeze(a), st.freeze(b)
        if isinstance(a, R) and a.kind == "typeddict":
            if self.eq_impl is None:
                return a == b if isinstance(b, R) and b.kind == "typeddict" else False  # identity of distinct classes: only the same object
            call = ast.Call(func=ast.Name(id=self.eq_impl.qualname, ctx=ast.Load()), args=[], keywords=[])
            assert st is not None
            v = self.ri.inline_call(self.eq_impl, call, None, [a, b], {}, st)
            if isinstance(v, K) and isinstance(v.v, bool):
                return v.v
            if isinstance(v, K):
                return bool(v.v)
            return None
        if isinstance(b, R) and b.kind == "typeddict":
            return self.equal(b, a) if isinstance(a, R) and a.kind == "typeddict" else False
        if isinstance(a, R) and isinstance(b, R) and a.kind == b.kind == "dict":
            da, db = dict(a.fields["items"]), dict(b.fields["items"])
            if set(da) != set(db):
                return False
            for k in da:
                r = self.equal(da[k], db[k])
                if r is None:
                    return None
                if not r:
                    return False
            return True
        if isinstance(a, R) and isinstance(b, R) and a.kind == b.kind == "generic":
            if a.fields["origin"] != b.fields["origin"]:
                return False
            xs, ys = list(a.fields["args"].v), list(b.fields["args"].v)
            if a.fields["origin"] == K("Union"):
                if len(xs) != len(ys):
                    return False
                for x in xs:
                    rs = [self.equal(x, y) for y in ys]
                    if any(r is None for r in rs):
                        return None
                    if not any(rs):
                        return False
                return True
            if len(xs) != len(ys):
                return False
            for x, y in zip(xs, ys):
                r = self.equal(x, y)
                if r is None:
                    return None
                if not r:
                    return False
            return True
        return self.base_cmp(ast.Eq(), a, b)

    # ---- attributes / calls -------------------------------------------------------------------------
    def on_attr(self, obj: V, attr: str, node: ast.AST, st: State) -> Optional[V]:
        if isinstance(obj, R) and obj.kind == "usergeneric":
            # Box[int] for `class Box(Generic[T])` nested in class Containers of module warehouse: a typing._GenericAlias whose
            # _name is None; __qualname__ / __name__ are answered with the UNQUALIFIED name of the origin (CPython >= 3.10)
            if attr == "_name":
                return K(None)
            if attr in ("__qualname__", "__name__"):
                return K(obj.fields["qualname"].v.split(".")[-1])
            if attr == "__origin__":
                return R("userclass", module=obj.fields["module"], qualname=obj.fields["qualname"])
            if attr == "__args__":
                return obj.fields["args"]
            if attr == "__module__":
                return obj.fields["module"]
        if isinstance(obj, R) and obj.kind == "userclass":
            if attr == "__qualname__":
                return obj.fields["qualname"]
            if attr == "__name__":
                return K(obj.fields["qualname"].v.split(".")[-1])
            if attr == "__module__":
                return obj.fields["module"]
            st.pending = st.pending or "AttributeError"
            return U(f"a class has no {attr}")
        if isinstance(obj, R) and obj.kind == "typeddict":
            if attr == "__name__" or attr == "__qualname__":
                return obj.fields["name"]
            if attr == "__total__":
                return obj.fields["total"]
            if attr == "__annotations__":
                return obj.fields["fields"]
            if attr in ("__required_keys__", "__optional_keys__"):
                keys = frozenset(k for k, _ in obj.fields["fields"].fields["items"])
                want_req = attr == "__required_keys__"
                return K(keys if (obj.fields["total"] == K(True)) == want_req else frozenset())
            if attr == "__module__":
                return K("monkeytype.typing")
        ot = origin_token(obj)
        if attr == "__origin__":
            if ot is not None:
                return ot
            st.pending = st.pending or "AttributeError"
            return U("no __origin__")
        if attr == "__args__":
            if isinstance(obj, R) and obj.kind == "generic":
                return obj.fields["args"]
            st.pending = st.pending or "AttributeError"
            return U("no __args__")
        if attr in ("__qualname__", "__name__") and ((isinstance(obj, R) and obj.kind == "generic") or (isinstance(obj, S) and obj.name.startswith("mod:typing.") and obj.name[11:] in ALIASES)):
            # typing's own aliases answer with their public name (Optional[X] says "Optional")
            if isinstance(obj, S):
                return K(obj.name[11:])
            o_ = obj.fields["origin"].v
            return K("Optional" if o_ == "Union" and len(obj.fields["args"].v) == 2 and NONE in obj.fields["args"].v else o_)
        if attr == "_name":
            if isinstance(obj, R) and obj.kind == "generic":
                o_u = obj.fields["origin"].v
                if o_u == "Union":
                    return K("Optional") if len(obj.fields["args"].v) == 2 and NONE in obj.fields["args"].v else K(None)
                return obj.fields["origin"]
            if isinstance(obj, S) and obj.name.startswith("mod:typing."):
                return K(obj.name[11:])
            st.pending = st.pending or "AttributeError"
            return U("no _name")
        if attr in ("__name__", "__qualname__") and isinstance(obj, S) and (obj.name.startswith("builtin:") or obj.name.startswith("mod:") or obj.name.startswith("class:")):
            return K(obj.name.split(":")[-1].split(".")[-1])
        return RepoInterp.on_attr(self.ri, obj, attr, node, st)

    def hook(self, call: ast.Call, fname: Optional[str], fval: Optional[V], args: List[V], kwargs: Dict[str, V], st: State) -> Optional[V]:
        self.st = st
        d = fname or ""
        if d == "isinstance" and len(args) == 2:
            a, c = args[0], args[1]
            cs = list(c.v) if isinstance(c, K) and isinstance(c.v, tuple) else [c]
            res = False
            for cl in cs:
                nm = cl.name.split(".")[-1] if isinstance(cl, S) else ""
                if nm == "_TypedDictMeta":
                    res = res or (isinstance(a, R) and a.kind == "typeddict")
                elif nm == "_GenericAlias":
                    # List[int], Dict[str, int], Union[int, str] ... ; Callable[..] is a subclass instance
                    res = res or (isinstance(a, R) and a.kind == "generic")
                elif nm == "GenericAlias":
                    res = res or (isinstance(a, R) and a.kind == "pep585")  # types.GenericAlias: list[int], frozenset[str]
                elif nm == "_SpecialGenericAlias":
                    res = res or (isinstance(a, S) and a.name.startswith("mod:typing.") and a.name[11:] in ALIASES)
                elif nm == "ForwardRef":
                    res = res or (isinstance(a, R) and a.kind == "forward_ref")
                elif nm == "type":
                    res = res or (isinstance(a, S) and a.name.startswith(("builtin:", "class:"))) or (isinstance(a, R) and a.kind == "typeddict")
                else:
                    return None
            return K(res)
        if d == "issubclass" and len(args) == 2:
            a = real_class(args[0]) if isinstance(args[0], S) else None
            seq = list(args[1].v) if isinstance(args[1], K) and isinstance(args[1].v, tuple) else [args[1]]
            real = [real_class(b) if isinstance(b, S) else None for b in seq]
            if a is not None and all(b is not None for b in real):
                return K(any(issubclass(a, b) for b in real))
            import collections.abc as _abc
            def rc(t: Any) -> Any:
                if isinstance(t, S) and t.name.startswith("mod:collections.abc."):
                    return getattr(_abc, t.name[20:], None)
                return real_class(t) if isinstance(t, S) else None
            a2, real2 = rc(args[0]), [rc(b) for b in seq]
            if a2 is not None and all(b is not None for b in real2):
                return K(any(issubclass(a2, b) for b in real2))
            return None
        if d == "getattr" and len(args) >= 2 and isinstance(args[1], K):
            before = st.pending
            v = self.on_attr(args[0], args[1].v, call, st)
            if st.pending is not None and before is None:
                st.pending = None
                if len(args) > 2:
                    return args[2]
                st.pending = "AttributeError"
                return U("getattr")
            if v is None:
                return args[2] if len(args) > 2 else None
            return v
        if d == "str" and len(args) == 1 and isinstance(args[0], K):
            return K(str(args[0].v))
        if d in ("id",) and len(args) == 1:
            return R("id", of=st.freeze(args[0]))
        return None

    def result(self, *args: V) -> Tuple[str, Any]:
        ps = self.fi.positional_params()
        st0 = State()
        self.st = st0
        outs = self.ri.run(dict(zip(ps, args)))
        if len(outs) != 1:
            raise AnalysisError(f"{self.fi.fq}: {len(outs)} outcomes")
        o = outs[0]
        if o.term is None:
            return ("return", K(None))
        if o.term[0] == "raise":
            return ("raise", str(o.term[1]))
        return ("return", o.freeze(o.term[1]))


def universe() -> List[Tuple[str, V]]:
    a1 = anon({"a": INT})
    a1b = anon({"a": INT})
    a2 = anon({"a": STR})
    n1 = anon({"outer": anon({"x": INT})})
    n2 = anon({"outer": anon({"x": STR})})
    n3 = anon({"outer": anon({"mid": anon({"x": INT})})})
    n4 = anon({"outer": anon({"mid": anon({"x": STR})})})
    o1 = anon({"a": INT}, {"b": STR})
    o2 = anon({"a": INT}, {"b": INT})
    out: List[Tuple[str, V]] = [
        ("int", INT), ("str", STR), ("Any", ANY), ("Union", UNION),
        ("List[int]", gen("List", INT)), ("List[str]", gen("List", STR)), ("Set[int]", gen("Set", INT)),
        ("Dict[str, int]", gen("Dict", STR, INT)), ("DefaultDict[str, int]", gen("DefaultDict", STR, INT)), ("OrderedDict[str, int]", gen("OrderedDict", STR, INT)),
        ("Tuple[int, str]", gen("Tuple", INT, STR)), ("Tuple[int]", gen("Tuple", INT)), ("Union[int, str]", gen("Union", INT, STR)), ("Union[str, int]", gen("Union", STR, INT)),
        ("Optional[int]", gen("Union", INT, NONE)), ("Type[int]", gen("Type", INT)), ("Iterator[int]", gen("Iterator", INT)),
        ("Generator[int, None, None]", gen("Generator", INT, NONE, NONE)), ("bare List", bare("List")), ("bare Dict", bare("Dict")), ("bare Callable", bare("Callable")),
        ("TD{a:int}", a1), ("TD{a:int} (another object)", a1b), ("TD{a:str}", a2), ("TD{outer:TD{x:int}}", n1), ("TD{outer:TD{x:str}}", n2),
        ("TD{outer:TD{mid:TD{x:int}}}", n3), ("TD{outer:TD{mid:TD{x:str}}}", n4), ("TD{a:int, b?:str}", o1), ("TD{a:int, b?:int}", o2),
        ("named Foo{a:int}", td("Foo", {"a": INT})), ("named Bar{a:int}", td("Bar", {"a": INT})), ("named Foo{a:int} non-total", td("Foo", {"a": INT}, total=False)),
        ("Tuple[TD{outer:TD{x:int}}]", gen("Tuple", n1)), ("Tuple[TD{outer:TD{x:str}}]", gen("Tuple", n2)), ("List[TD{a:int}]", gen("List", a1)), ("List[TD{a:str}]", gen("List", a2)),
        ("Dict[int, TD{outer:TD{x:int}}]", gen("Dict", INT, n1)), ("Dict[int, TD{outer:TD{x:str}}]", gen("Dict", INT, n2)),
    ]
    return out


def is_generic_model(t: V) -> bool:
    return t == UNION or (isinstance(t, R) and t.kind == "generic") or (isinstance(t, S) and t.name.startswith("mod:typing.") and t.name[11:] in ALIASES)


def compat_predicates(ctx: Ctx, repo: Repo, rule: str, which: Tuple[str, ...] = ("types_equal", "is_generic_of", "is_union", "is_generic", "is_any", "is_typed_dict")) -> None:
    uni = universe()
    n = 0
    mod = repo.module(CP)
    if "types_equal" in which:
        fi = repo.fn(CP, "types_equal")
        ctx.functions.add(fi.fq)
        sc0 = CompatScenario(repo, "types_equal")
        if sc0.eq_impl is not None:
            ctx.functions.add(sc0.eq_impl.fq)
        for la, a in uni:
            for lb, b in uni:
                if not ((isinstance(a, R) and a.kind in ("typeddict", "generic")) or (isinstance(b, R) and b.kind in ("typeddict", "generic"))):
                    continue
                k, v = CompatScenario(repo, "types_equal").result(a, b)
                want = structurally_equal(a, b)
                n += 1
                got = v.v if k == "return" and isinstance(v, K) else f"{k} {v}"
                ctx.check(got is want or got == want, rule, fi.fq,
                          "types_equal is structural equality on the types inference produces (TypedDicts compared field by field at every nesting depth)",
                          construct=f"types_equal({la}, {lb}) = {got}, structurally {'equal' if want else 'different'}")
    gens = [("Dict", bare("Dict")), ("List", bare("List")), ("Set", bare("Set")), ("Tuple", bare("Tuple")), ("DefaultDict", bare("DefaultDict")),
            ("Generator", bare("Generator")), ("Iterator", bare("Iterator")), ("Type", bare("Type"))]
    if "is_generic_of" in which:
        fi = repo.fn(CP, "is_generic_of")
        ctx.functions.add(fi.fq)
        for la, a in uni:
            for lg, gbare in gens:
                k, v = CompatScenario(repo, "is_generic_of").result(a, gbare)
                oa, og = origin_token(a), origin_token(gbare) if gbare != UNION else UNION
                if a == UNION:
                    continue  # bare Union has no __origin__: never asked by the rewriters
                want = is_generic_model(a) and oa is not None and oa == og
                n += 1
                got = v.v if k == "return" and isinstance(v, K) else f"{k} {v}"
                ctx.check(got is want or got == want, rule, fi.fq,
                          "is_generic_of(t, G) holds exactly for the aliases whose runtime origin is G's (a DefaultDict is not a Dict, an OrderedDict is not a Dict)",
                          construct=f"is_generic_of({la}, {lg}) = {got}, expected {want}")
    table = {
        "is_union": lambda t: t == UNION or (isinstance(t, R) and t.kind == "generic" and t.fields["origin"] == K("Union")),
        "is_generic": is_generic_model,
        "is_any": lambda t: t == ANY,
        "is_typed_dict": lambda t: isinstance(t, R) and t.kind == "typeddict",
    }
    for name, model in table.items():
        if name not in which:
            continue
        fi = repo.fn(CP, name)
        ctx.functions.add(fi.fq)
        for la, a in uni:
            k, v = CompatScenario(repo, name).result(a)
            want = bool(model(a))
            n += 1
            got = v.v if k == "return" and isinstance(v, K) else f"{k} {v}"
            ctx.check(got is want or got == want, rule, fi.fq, f"{name} answers as the type models assume", construct=f"{name}({la}) = {got}, expected {want}")
    for name in ("qualname_of_generic", "name_of_generic"):
        if name not in which:
            continue
        fi = repo.fn(CP, name)
        ctx.functions.add(fi.fq)
        user1 = R("usergeneric", module=K("warehouse"), qualname=K("Containers.Box"), args=K((INT,)))
        user2 = R("usergeneric", module=K("warehouse"), qualname=K("Box"), args=K((INT, STR)))
        cases = [(la, a) for la, a in uni if (isinstance(a, R) and a.kind == "generic") or (isinstance(a, S) and a.name.startswith("mod:typing.") and a.name[11:] in ALIASES)]
        cases += [("warehouse.Containers.Box[int] (a user-defined generic class nested in a class)", user1), ("warehouse.Box[int, str] (a user-defined generic class)", user2)]
        for la, a in cases:
            k, v = CompatScenario(repo, name).result(a)
            if isinstance(a, R) and a.kind == "usergeneric":
                q = a.fields["qualname"].v
                want_n: Any = q if name == "qualname_of_generic" else q.split(".")[-1]
            elif isinstance(a, S):
                want_n = a.name[11:]
            else:
                want_n = a.fields["origin"].v
            n += 1
            got = v.v if k == "return" and isinstance(v, K) else f"{k} {v}"
            if name == "name_of_generic" and isinstance(a, R) and a.kind == "usergeneric":
                continue  # only its use for typing's own constructs is catalogued
            ok_n = got == want_n or (want_n == "Union" and got == "Optional")  # Optional[X] is a Union that calls itself Optional (CPython >= 3.10)
            ctx.check(ok_n, rule, fi.fq,
                      f"{name} names the generic by what has to be imported for it: typing's public name for a typing construct, the qualified name of the class for a user-defined generic (its import is the root of that path)",
                      construct=f"{name}({la}) = {got!r}, expected {want_n!r}")
    ctx.floor(rule, "compat predicate instances interpreted", n, 40 if which == ("types_equal",) else 60 if not set(which) <= {"qualname_of_generic", "name_of_generic"} else 20)
