"""Concrete small-value decision of the inference clauses (C04 membership, C05 tightness, C06 limit).

get_type -> get_dict_type -> shrink_types -> shrink_typed_dict_types are interpreted *together* (all inlined) on a
grammar of small concrete values: atoms (int, str, None, bool, a user object, class objects), and
list / tuple / set / dict / defaultdict values of depth <= 2 with 0..2 elements, including empty containers, dicts
with non-string keys and lists of dicts.  typing.Union is normalised as CPython does (flatten, drop duplicates,
unwrap a single member); RewriteAnonymousTypedDictToDict is the catalogued TypedDict -> Dict[str, Union[...]] map
(its source is decided by R-C04.3 / the container-recursion rule).  The resulting type is then judged by oracles
written from the properties' sentences: `admits` (C04), `tight` (C05), `typed_dicts_within` (C06)."""
from __future__ import annotations

import ast
import itertools
from typing import Any, Dict, List, Optional, Tuple

from mtsa.absint import K, R, Ref, S, U, V, State
from mtsa.index import Repo
from mtsa.report import AnalysisError

from . import infer_model as IM
from .infer_model import ANY, TY, generic

INT, STR, NONE, BOOL = S("builtin:int"), S("builtin:str"), S("builtin:NoneType"), S("builtin:bool")
USER = S("class:User")


# ---- values -------------------------------------------------------------------------------------------
def container(cls: str, label: str, elems: Tuple[V, ...] = (), pairs: Tuple[Tuple[V, V], ...] = ()) -> R:
    if pairs:
        elems = tuple(k for k, _ in pairs)
    return R("val", cls=S(cls), label=K(label), n=K(len(elems)), keykind=K(None), elems=K(tuple(elems)), pairs=K(tuple(K((k, v)) for k, v in pairs)))


def lst(label: str, *e: V) -> R:
    return container("builtin:list", label, tuple(e))


def tup(label: str, *e: V) -> R:
    return container("builtin:tuple", label, tuple(e))


def st_(label: str, *e: V) -> R:
    return container("builtin:set", label, tuple(e))


def dct(label: str, *pairs: Tuple[V, V]) -> R:
    return container("builtin:dict", label, pairs=tuple(pairs))


def ddct(label: str, *pairs: Tuple[V, V]) -> R:
    return container("mod:collections.defaultdict", label, pairs=tuple(pairs))


def user(label: str) -> R:
    return IM.val("class:User", label)


def klass(label: str) -> R:
    return IM.val("builtin:type", label)


def class_of(v: V) -> Optional[str]:
    if isinstance(v, K):
        if v.v is None:
            return "builtin:NoneType"
        return {bool: "builtin:bool", int: "builtin:int", str: "builtin:str", float: "builtin:float", bytes: "builtin:bytes"}.get(type(v.v))
    if isinstance(v, R) and v.kind == "val":
        return v.fields["cls"].name
    return None


def show_value(v: V) -> str:
    if isinstance(v, K):
        return repr(v.v)
    if isinstance(v, R) and v.kind == "val":
        c = v.fields["cls"].name
        if "pairs" in v.fields and v.fields["pairs"].v:
            body = ", ".join(f"{show_value(p.v[0])}: {show_value(p.v[1])}" for p in v.fields["pairs"].v)
            return ("defaultdict{" if "defaultdict" in c else "{") + body + "}"
        if "elems" in v.fields:
            body = ", ".join(show_value(e) for e in v.fields["elems"].v)
            if c == "builtin:list":
                return "[" + body + "]"
            if c == "builtin:tuple":
                return "(" + body + ("," if len(v.fields["elems"].v) == 1 else "") + ")"
            if c == "builtin:set":
                return "{" + body + "}" if body else "set()"
            if c == "builtin:dict":
                return "{}"
            return c.split(":")[-1].split(".")[-1] + "(" + body + ")"
        if c == "builtin:type":
            return f"<class {v.fields['label'].v}>"
        return f"<{c.split(':')[-1]} {v.fields['label'].v}>"
    return str(v)


def grammar(tier: str = "quick") -> List[V]:
    atoms: List[V] = [K(1), K("s"), K(None), K(True), user("u"), klass("Shape"), IM.val("class:Handler", "h")]
    inner: List[V] = [lst("e0"), lst("l1", K(1)), lst("l2", K(1), K("s")), dct("d0"), dct("da", (K("a"), K(1))), dct("das", (K("a"), K("s"))),
                      dct("dab", (K("a"), K(1)), (K("b"), K("s"))), dct("d1", (K(1), K("s"))), tup("t2", K(1), K("s")), tup("t0"), st_("s1", K(1)),
                      dct("db", (K("b"), K(2)))]
    out: List[V] = list(atoms) + list(inner)
    # keys that are identifiers but not in NFKC form (MICRO SIGN vs GREEK MU, a ligature) or differ only by case: distinct keys of
    # one dict, whatever a parser, a normaliser or a case-folder would make of them
    out += [dct("dmu", (K("\u00b5s"), K(1))), dct("dmu2", (K("\u00b5s"), K(1)), (K("\u03bcs"), K("s"))), dct("dcase", (K("Key"), K(1)), (K("key"), K("s"))),
            dct("dfi", (K("\ufb01le"), K(1)), (K("file"), K("s")))]
    out += [ddct("dd0"), ddct("dd1", (K("k"), K(1))), ddct("dd2", (K("k"), lst("ddl", K(1)))), dct("dm", (K("a"), K(1)), (K(2), K("s"))), st_("s0"), st_("s2", K(1), K("s"))]
    n = 0
    pick = inner if tier == "thorough" else inner[:9] + inner[11:]
    for a in pick:
        n += 1
        out.append(lst(f"L1_{n}", a))
        out.append(tup(f"T1_{n}", a, K(1)))
        out.append(dct(f"D1_{n}", (K("k"), a)))
    for a, b in itertools.combinations(pick, 2):
        n += 1
        out.append(lst(f"L2_{n}", a, b))
        if tier == "thorough":
            out.append(dct(f"D2_{n}", (K("x"), a), (K("y"), b)))
            out.append(st_(f"S2_{n}", a, b) if False else tup(f"T2_{n}", a, b))
    # elements of ONE Python class whose inferred types differ (class objects are all instances of `type`)
    out.append(lst("Lclasses", klass("Shape"), klass("Circle")))
    out.append(lst("Lmix_classes", K(1), klass("Shape"), K("s"), klass("Circle")))
    out.append(dct("Dclasses", (K(1), klass("Shape")), (K(2), klass("Circle"))))
    out.append(ddct("DDclasses", (K("a"), klass("Shape")), (K("b"), klass("Circle"))))
    out.append(lst("Lrows", dct("r1", (K("a"), K(1))), dct("r2", (K("a"), K(2)), (K("b"), K("s")))))
    out.append(lst("Lempties", dct("x0"), dct("y0")))
    out.append(lst("Lmixed", dct("m0"), dct("m1", (K("a"), K(1)))))
    out.append(dct("Dnest", (K("outer"), dct("in1", (K("x"), K(1))))))
    return out


# ---- CPython's Union ---------------------------------------------------------------------------------
def union(*args: V) -> V:
    flat: List[V] = []
    for a in args:
        if isinstance(a, R) and a.kind == "generic" and a.fields["origin"] == K("Union"):
            for x in a.fields["args"].v:
                if x not in flat:
                    flat.append(x)
        elif a not in flat:
            flat.append(a)
    if len(flat) == 1:
        return flat[0]
    return generic("Union", *flat)


def td_to_dict(t: V) -> V:
    """RewriteAnonymousTypedDictToDict().rewrite (catalogue; its source is decided by R-C04.3 and the container recursion rule)"""
    if isinstance(t, R) and t.kind == "typeddict":
        vals = [v for _, v in _items(t.fields["required"])] + [v for _, v in _items(t.fields["optional"])]
        if not vals:
            return generic("Dict", ANY, ANY)
        return generic("Dict", STR, union(*[td_to_dict(v) for v in vals]))
    if isinstance(t, R) and t.kind == "generic":
        args = t.fields["args"].v
        if t.fields["origin"] == K("Union"):
            return union(*[td_to_dict(a) for a in args])
        return generic(t.fields["origin"].v, *[td_to_dict(a) for a in args])
    return t


def kn(k: Any) -> Any:
    return k.v if isinstance(k, K) else str(k)


def _items(d: V) -> List[Tuple[V, V]]:
    if isinstance(d, R) and d.kind == "dict":
        return list(d.fields["items"])
    return []


# ---- interpretation ------------------------------------------------------------------------------------
class ConcreteInfer(IM.InferScenario):
    def __init__(self, repo: Repo, func: str = "get_type") -> None:
        others = tuple(x for x in ("get_type", "get_dict_type", "shrink_types", "shrink_typed_dict_types") if x != func)
        super().__init__(repo, func, inline=others, self_recursion=True, heap=True)
        self.ri.max_depth = 60
        self.ri.on_subscript = self.on_subscript2  # type: ignore[method-assign]
        self.ri.interp.on_subscript = self.on_subscript2
        self.ri.call_hook = self.hook2

    def on_subscript2(self, obj: V, key: V, node: ast.AST, st: State) -> Optional[V]:
        if isinstance(obj, S) and obj.name == "mod:typing.Union":
            args = key.v if isinstance(key, K) and isinstance(key.v, tuple) else (key,)
            return union(*[st.freeze(a) for a in args])
        if isinstance(obj, S) and obj.name == "mod:typing.Optional":
            return union(st.freeze(key), NONE)
        return self.on_subscript(obj, key, node, st)

    cyclic: Optional[V] = None   # a container that holds ITSELF (the element S('itself') stands for it)
    entered = 0

    def hook2(self, call: ast.Call, fname: Optional[str], fval: Optional[V], args: List[V], kwargs: Dict[str, V], st: State) -> Optional[V]:
        d = fname or ""
        meth = call.func.attr if isinstance(call.func, ast.Attribute) else None
        if self.cyclic is not None and args and args[0] == S("itself") and d.split(".")[-1] == "get_type":
            # the element IS the container: the call is the one that is already running.  Interpreted again (a guard of the source
            # gets its chance); the third entry for the same object is taken for what it is - recursion without end
            self.entered += 1
            if self.entered >= 3:
                from mtsa.absint import raise_exc
                raise_exc(st, "RecursionError")
                return U("maximum recursion depth exceeded")
            callee = self.ri.resolve(call, fval)
            if callee is None:
                return None
            return self.ri.inline_call(callee, call, None, [self.cyclic] + list(args[1:]), dict(kwargs), st)
        if d == "type" and len(args) == 1 and isinstance(args[0], K):
            c = class_of(args[0])
            return S(c) if c else None
        if d == "len" and len(args) == 1 and isinstance(args[0], K) and isinstance(args[0].v, (tuple, str)):
            return K(len(args[0].v))
        if meth in ("keys", "values", "items") and isinstance(fval, R) and fval.kind == "val" and "pairs" in fval.fields and not args:
            ps = fval.fields["pairs"].v
            if meth == "items":
                return K(tuple(ps))
            return K(tuple(p.v[0] if meth == "keys" else p.v[1] for p in ps))
        if meth == "rewrite" and isinstance(fval, R) and fval.kind == "rwobj" and fval.fields["cls"] == K("RewriteAnonymousTypedDictToDict") and len(args) == 1:
            return td_to_dict(st.freeze(args[0]))
        if meth == "rewrite" and isinstance(call.func.value, ast.Call) and len(args) == 1:  # type: ignore[attr-defined]
            from mtsa.index import dotted as _d
            if (_d(call.func.value.func) or "").endswith("RewriteAnonymousTypedDictToDict"):  # type: ignore[attr-defined]
                return td_to_dict(st.freeze(args[0]))
        if d in ("tuple", "list") and len(args) == 1:
            seq = self.ri.interp.iterate(args[0], st)
            if seq is not None:
                return K(tuple(seq)) if d == "tuple" else st.alloc("list", list(seq))
        if d in ("set", "frozenset") and len(args) == 1:
            seq = self.ri.interp.iterate(args[0], st)
            if seq is not None:
                out: List[V] = []
                for x in seq:
                    if x not in out:
                        out.append(x)
                return st.alloc("set", out)
        if d in ("all", "any") and len(args) == 1:
            seq = self.ri.interp.iterate(args[0], st)
            if seq is not None and all(isinstance(x, K) for x in seq):
                return K((all if d == "all" else any)(bool(x.v) for x in seq))
        return self.call_hook(call, fname, fval, args, kwargs, st)


def infer(repo: Repo, v: V, k: int) -> V:
    sc = ConcreteInfer(repo, "get_type")
    ps = sc.fi.positional_params()
    return sc.result({ps[0]: v, ps[1]: K(k)})


def infer_cyclic(repo: Repo, make: Any, k: int) -> V:
    """get_type of a container that contains itself: make(S('itself')) builds the value around the self-reference"""
    sc = ConcreteInfer(repo, "get_type")
    sc.cyclic = make(S("itself"))
    ps = sc.fi.positional_params()
    return sc.result({ps[0]: sc.cyclic, ps[1]: K(k)})


def merge(repo: Repo, types: Tuple[V, ...], k: int) -> V:
    sc = ConcreteInfer(repo, "shrink_types")
    ps = sc.fi.positional_params()
    return sc.result({ps[0]: K(tuple(types)), ps[1]: K(k)})


# ---- oracles --------------------------------------------------------------------------------------------
SUBCLASS = {"builtin:bool": ("builtin:bool", "builtin:int")}


def elems_of(v: V) -> List[V]:
    return list(v.fields["elems"].v) if isinstance(v, R) and v.kind == "val" and "elems" in v.fields else []


def pairs_of(v: V) -> List[Tuple[V, V]]:
    return [(p.v[0], p.v[1]) for p in v.fields["pairs"].v] if isinstance(v, R) and v.kind == "val" and "pairs" in v.fields else []


def admits(t: V, v: V, empty_is_no_record: bool = False) -> bool:
    """C04: v is a member of t.  With empty_is_no_record a TypedDict never admits an empty dict (C06: an empty dict is
    never typed as a generated TypedDict - it must be covered by a Dict[...] alternative)."""
    if t == ANY:
        return True
    c = class_of(v)
    if isinstance(t, S):
        return c is not None and (c == t.name or t.name in SUBCLASS.get(c, ()))
    if isinstance(t, R) and t.kind == "generic":
        o, args = t.fields["origin"].v, list(t.fields["args"].v) if isinstance(t.fields["args"], K) else None
        if args is None:
            return False
        if o == "Union":
            return any(admits(a, v, empty_is_no_record) for a in args)
        if o == "Type":
            return c == "builtin:type" and (args[0] == v or args[0] == ANY)
        if o in ("List", "Set"):
            want = "builtin:list" if o == "List" else "builtin:set"
            return c == want and all(admits(args[0], e, empty_is_no_record) for e in elems_of(v))
        if o == "Tuple":
            es = elems_of(v)
            return c == "builtin:tuple" and len(es) == len(args) and all(admits(a, e, empty_is_no_record) for a, e in zip(args, es))
        if o in ("Dict", "DefaultDict"):
            ok_c = c in (("builtin:dict", "mod:collections.defaultdict") if o == "Dict" else ("mod:collections.defaultdict",))
            return ok_c and all(admits(args[0], k_, empty_is_no_record) and admits(args[1], x, empty_is_no_record) for k_, x in pairs_of(v))
        return False
    if isinstance(t, R) and t.kind == "typeddict":
        if c != "builtin:dict":
            return False
        req, opt = dict(_items(t.fields["required"])), dict(_items(t.fields["optional"]))
        ps = pairs_of(v)
        if empty_is_no_record and not ps:
            return False
        keys = [k_ for k_, _ in ps]
        if not all(isinstance(k_, K) and isinstance(k_.v, str) for k_ in keys):
            return False
        if not all(r in keys for r in req):
            return False
        for k_, x in ps:
            ft = req.get(k_, opt.get(k_))
            if ft is None or not admits(ft, x, empty_is_no_record):
                return False
        return True
    return False


def typed_dicts_in(t: V) -> List[R]:
    out: List[R] = []
    if isinstance(t, R) and t.kind == "typeddict":
        out.append(t)
        for _, x in _items(t.fields["required"]) + _items(t.fields["optional"]):
            out += typed_dicts_in(x)
    elif isinstance(t, R) and t.kind == "generic" and isinstance(t.fields["args"], K):
        for a in t.fields["args"].v:
            out += typed_dicts_in(a)
    return out


def limit_violations(t: V, k: int) -> List[str]:
    """C06: no TypedDict with limit 0; every TypedDict has between 1 and k keys in total"""
    bad = []
    for td in typed_dicts_in(t):
        n = len(_items(td.fields["required"])) + len(_items(td.fields["optional"]))
        if k == 0:
            bad.append(f"a TypedDict with {n} key(s) although the limit is 0")
        elif n == 0:
            bad.append("a TypedDict without keys (an empty dict is never a TypedDict)")
        elif n > k:
            bad.append(f"a TypedDict with {n} keys, limit {k}")
    return bad


def tight(t: V, vs: List[V], any_ok: bool = False) -> Optional[str]:
    """C05: None if every alternative / class / Any / required-ness of t is witnessed by the values vs observed at this
    position, else what is not witnessed.  any_ok: an empty container was observed one level up (its element type
    is recorded as Any)."""
    if t == ANY:
        return None if (not vs or any_ok) else "Any although no empty container was observed at this position"
    if isinstance(t, S):
        return None if any(class_of(v) == t.name for v in vs) else f"{t.name.split(':')[-1]} is not the class of any observed value"
    if isinstance(t, R) and t.kind == "generic":
        o = t.fields["origin"].v
        args = list(t.fields["args"].v) if isinstance(t.fields["args"], K) else []
        if o == "Union":
            for a in args:
                if a == ANY:
                    if not any_ok:
                        return "Any as a union alternative although no empty container was observed at this position"
                    continue
                wit = [v for v in vs if admits(a, v)]
                if not wit:
                    return f"union alternative {short(a)} admits none of the observed values"
                r = tight(a, wit, any_ok)
                if r:
                    return r
            return None
        mine = [v for v in vs if admits(t, v)]
        if not mine:
            return f"{short(t)} admits none of the observed values"
        if o == "Type":
            return None
        empty_seen = any(not elems_of(v) for v in mine)
        if args and all(a == ANY for a in args) and o in ("List", "Set", "Dict", "DefaultDict"):
            # C[Any, ...] is what an observed *empty* container of that kind looks like
            return None if empty_seen else f"{short(t)} although no empty {o.lower()} was observed here"
        if o in ("List", "Set"):
            return tight(args[0], [e for v in mine for e in elems_of(v)], empty_seen)
        if o == "Tuple":
            for i, a in enumerate(args):
                r = tight(a, [elems_of(v)[i] for v in mine])
                if r:
                    return r
            return None
        if o in ("Dict", "DefaultDict"):
            r = tight(args[0], [k_ for v in mine for k_, _ in pairs_of(v)], empty_seen)
            return r or tight(args[1], [x for v in mine for _, x in pairs_of(v)], empty_seen)
        return None
    if isinstance(t, R) and t.kind == "typeddict":
        mine = [v for v in vs if admits(t, v)]
        if not mine:
            return f"{short(t)} admits none of the observed values"
        req, opt = _items(t.fields["required"]), _items(t.fields["optional"])
        for k_, ft in req + opt:
            have = [dict(pairs_of(v)).get(k_) for v in mine]
            present = [x for x in have if x is not None]
            if not present:
                return f"key {kn(k_)!r} occurs in no observed dict"
            is_req = (k_, ft) in req
            if is_req and len(present) != len(mine):
                return f"key {kn(k_)!r} is required although an observed dict lacks it"
            if not is_req and len(present) == len(mine):
                return f"key {kn(k_)!r} is optional although every observed dict has it"
            r = tight(ft, present)
            if r:
                return r
        return None
    return None


def short(t: V) -> str:
    if t == ANY:
        return "Any"
    if isinstance(t, S):
        return t.name.split(":")[-1].split(".")[-1]
    if isinstance(t, R) and t.kind == "generic":
        a = t.fields["args"]
        return f"{t.fields['origin'].v}[{', '.join(short(x) for x in a.v)}]" if isinstance(a, K) else f"{t.fields['origin'].v}[?]"
    if isinstance(t, R) and t.kind == "typeddict":
        r = ", ".join(f"{kn(k_)}: {short(x)}" for k_, x in _items(t.fields["required"]))
        o = ", ".join(f"{kn(k_)}?: {short(x)}" for k_, x in _items(t.fields["optional"]))
        return "TD{" + ", ".join(x for x in (r, o) if x) + "}"
    if isinstance(t, R) and t.kind == "val":
        return show_value(t)
    return str(t)[:60]


_CACHE: Dict[Tuple[str, str], List[Tuple[V, int, V]]] = {}


def table(repo: Repo, tier: str) -> List[Tuple[V, int, V]]:
    """(value, limit, inferred type) over the grammar"""
    key = (str(repo.root) if hasattr(repo, "root") else "", tier)
    if key not in _CACHE:
        rows = []
        for v in grammar(tier):
            for k in ((0, 1, 2, 3) if tier == "thorough" else (0, 1, 2)):
                rows.append((v, k, infer(repo, v, k)))
        _CACHE[key] = rows
    return _CACHE[key]


def canon(t: V) -> str:
    """type text with union members sorted (order of union members is not significant)"""
    if isinstance(t, R) and t.kind == "generic" and isinstance(t.fields["args"], K):
        parts = [canon(a) for a in t.fields["args"].v]
        if t.fields["origin"] == K("Union"):
            parts = sorted(parts)
        return f"{t.fields['origin'].v}[{', '.join(parts)}]"
    if isinstance(t, R) and t.kind == "typeddict":
        r = sorted(f"{kn(k_)}: {canon(x)}" for k_, x in _items(t.fields["required"]))
        o = sorted(f"{kn(k_)}?: {canon(x)}" for k_, x in _items(t.fields["optional"]))
        return "TD{" + ", ".join(r + o) + "}"
    return short(t)


def concrete_rules(ctx: Any, repo: Repo, tier: str, member: Optional[str] = None, tightness: Optional[str] = None, limit: Optional[str] = None,
                   order: Optional[str] = None) -> None:
    """single values and merged pairs of the grammar against the oracles; each argument names the rule id under which
    the clause is reported (None = clause not claimed by the calling property)"""
    w = f"{TY}.get_type"
    rows = table(repo, tier)
    n = 0
    for v, k, t in rows:
        lab = f"get_type({show_value(v)}, {k}) = {short(t)}"
        n += 1
        if isinstance(t, R) and t.kind == "raises":
            ctx.violate(member or tightness or limit, w, lab, "inference raises on this value")
            continue
        if member:
            ctx.check(admits(t, v), member, w, "the type inferred for a value admits that value", construct=lab)
        if tightness:
            r = tight(t, [v])
            ctx.check(r is None, tightness, w, "every alternative, class, Any and required key of the inferred type is witnessed by the value", construct=f"{lab}: {r}")
        if limit:
            bad = limit_violations(t, k)
            ctx.check(not bad, limit, w, "TypedDicts appear only with a positive limit, with at least one and at most `limit` keys", construct=f"{lab}: {'; '.join(bad)}")
            if admits(t, v):
                ctx.check(admits(t, v, True), limit, w, "an empty dict is never typed as a generated TypedDict (a Dict[...] alternative covers it)", construct=lab)
    ws = f"{TY}.shrink_types"
    ks = (0, 2, 3) if tier == "thorough" else (0, 2)
    vals = [v for v, k, _ in rows if k == ks[0]]
    by = {(id(v), k): t for v, k, t in rows}
    sel = vals[:70] + vals[-4:] if tier == "thorough" else vals[6:40] + vals[-4:]
    m = 0
    for a, b in itertools.combinations(sel, 2):
        for k in ks:
            ta, tb = by.get((id(a), k)), by.get((id(b), k))
            if ta is None or tb is None or any(isinstance(x, R) and x.kind == "raises" for x in (ta, tb)):
                continue
            t1 = merge(repo, (ta, tb), k)
            m += 1
            lab = f"values {show_value(a)} and {show_value(b)}, limit {k}: merged {short(t1)}"
            if isinstance(t1, R) and t1.kind == "raises":
                ctx.violate(member or tightness or limit, ws, lab, "merging the two inferred types raises")
                continue
            if member:
                ctx.check(admits(t1, a) and admits(t1, b), member, ws, "the merged type admits every observed value", construct=lab)
            if tightness:
                r = tight(t1, [a, b])
                ctx.check(r is None, tightness, ws, "every alternative, class, Any and required key of the merged type is witnessed by an observed value", construct=f"{lab}: {r}")
            if limit:
                bad = limit_violations(t1, k)
                ctx.check(not bad, limit, ws, "merged TypedDicts stay within the limit", construct=f"{lab}: {'; '.join(bad)}")
                if admits(t1, a) and admits(t1, b):
                    ctx.check(admits(t1, a, True) and admits(t1, b, True), limit, ws, "after merging, an observed empty dict is still not typed as a generated TypedDict", construct=lab)
            if order:
                t2 = merge(repo, (tb, ta), k)
                t3 = merge(repo, (ta, tb, ta), k) if (m % 3 == 0 or tier != "thorough") else t1
                ctx.check(canon(t1) == canon(t2) == canon(t3), order, ws, "the merged type does not depend on the order or multiplicity of the observations",
                          construct=f"{lab}; reversed {short(t2)}; with a duplicate {short(t3)}")
    rid = member or tightness or limit or order
    ctx.floor(rid, "concrete values x limits inferred", n, 150)
    ctx.floor(rid, "pairs of concrete values merged", m, 300)
