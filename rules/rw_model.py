"""Abstract model of the shipped type rewriters (monkeytype.typing), used by C07 (and C14).

The rewrite_* methods are interpreted abstractly (mtsa.absint, heap mode) on abstract types:
class tokens with an explicit hierarchy (single and multiple inheritance), typing generics
R('generic', origin, args), Any, NoneType.  `self.rewrite(x)` on a member is the identity (members
are leaves here; recursion is decided separately on _rewrite_container).  An independent subtype
oracle `admits(result, member)` over the same abstract types decides "never narrows".
"""
from __future__ import annotations

import ast
import itertools
from typing import Any, Dict, List, Optional, Tuple

from mtsa.absint import K, R, Ref, S, U, V, State
from mtsa.index import ClassInfo, FunctionInfo, Repo, dotted, norm
from mtsa.report import AnalysisError
from .common import origin_token, RepoInterp

TY = "monkeytype.typing"
ANY = S("mod:typing.Any")
NONE_T = S("builtin:NoneType")
OBJ = "builtin:object"

# class token -> direct bases (in MRO order)
BASES: Dict[str, Tuple[str, ...]] = {
    OBJ: (),
    "builtin:int": (OBJ,),
    "builtin:bool": ("builtin:int",),
    "builtin:str": (OBJ,),
    "builtin:float": (OBJ,),
    "builtin:bytes": (OBJ,),
    "builtin:NoneType": (OBJ,),
    "builtin:dict": (OBJ,),
    "class:Base": (OBJ,),
    "class:Mid": ("class:Base",),
    "class:Leaf1": ("class:Mid",),
    "class:Leaf2": ("class:Mid",),
    "class:Other": ("class:Base",),
    "class:Mixin": (OBJ,),
    "class:X": ("class:Mixin", "class:Other"),   # multiple inheritance, different orders
    "class:Y": ("class:Other", "class:Mixin"),
    "class:Z": ("class:Mixin", "class:Other"),
    "class:Solo": (OBJ,),
    # user classes that merely share their NAME with a typing alias (an ORM's `List`, an AST's `Union`, a `Generator` of ids)
    "class:Union": (OBJ,),
    "class:List": (OBJ,),
    "class:Dict": ("class:Base",),
    "class:Tuple": (OBJ,),
    "class:Set": (OBJ,),
    "class:Generator": (OBJ,),
    "class:Iterator": (OBJ,),
    "class:DefaultDict": (OBJ,),
    "class:TypedDict": (OBJ,),
    "class:Any": (OBJ,),
    # class objects that are false as truth values (a metaclass with __len__ / __bool__: a registry that is still empty)
    # a base class whose metaclass refuses subclass checks (a typing.Protocol that is not runtime-checkable, a Protocol with data
    # members, a metaclass that raises): issubclass(x, Proto) raises TypeError although both are ordinary classes
    "class:Proto": (OBJ,),
    "class:Plug1": ("class:Proto",), "class:Plug2": ("class:Proto",), "class:Plug3": ("class:Proto",),
    "class:Plug4": ("class:Proto",), "class:Plug5": ("class:Proto",), "class:Plug6": ("class:Proto",),
    "class:Registry": ("class:Base",),
    "class:EmptyEnum": (OBJ,),
}
FALSY_CLASSES = ("class:Registry", "class:EmptyEnum")
REFUSES_SUBCLASS_CHECKS = ("class:Proto",)
NAMESAKES = ("class:Union", "class:List", "class:Dict", "class:Tuple", "class:Set", "class:Generator", "class:Iterator", "class:DefaultDict",
             "class:TypedDict", "class:Any")


def mro(c: str) -> Tuple[str, ...]:
    """C3 linearisation of the model hierarchy."""
    def merge(seqs: List[List[str]]) -> List[str]:
        res: List[str] = []
        seqs = [list(s) for s in seqs if s]
        while seqs:
            for s in seqs:
                head = s[0]
                if not any(head in t[1:] for t in seqs):
                    break
            else:
                raise AnalysisError("inconsistent model hierarchy")
            res.append(head)
            seqs = [[x for x in t if x != head] for t in seqs]
            seqs = [t for t in seqs if t]
        return res
    bs = list(BASES[c])
    return tuple([c] + merge([list(mro(b)) for b in bs] + [bs]))


def cls(name: str) -> S:
    return S(name, truth=name not in FALSY_CLASSES)


def g(origin: str, *args: V) -> R:
    return R("generic", origin=K(origin), args=K(tuple(args)))


ELL = K(Ellipsis)
DICT_CLS = "builtin:dict"


def td(name: str, fields: Dict[str, V], total: bool = True) -> R:
    return R("td", __module__=K("monkeytype.typing"), __qualname__=K(name), __name__=K(name), __total__=K(total),
             __annotations__=R("dict", items=tuple((K(k), v) for k, v in fields.items())))


def anon_td(required: Dict[str, V], optional: Optional[Dict[str, V]] = None) -> R:
    """the anonymous TypedDict inference produces for a small dict with string keys (monkeytype.typing.make_typed_dict)"""
    return td("DUMMY_NAME", {"required_fields": td("DUMMY_REQUIRED_NAME", required), "optional_fields": td("DUMMY_OPTIONAL_NAME", optional or {}, )})


def is_td(t: V) -> bool:
    return isinstance(t, R) and t.kind == "td"


def td_fields(t: R) -> Tuple[Dict[str, V], Dict[str, V]]:
    """(required, optional) fields of an anonymous TypedDict; a named one: all fields required or all optional by `total`"""
    ann = {k.v: v for k, v in t.fields["__annotations__"].fields["items"]}
    if t.fields["__name__"] == K("DUMMY_NAME") and set(ann) == {"required_fields", "optional_fields"} and all(is_td(x) for x in ann.values()):
        return ({k.v: v for k, v in ann["required_fields"].fields["__annotations__"].fields["items"]},
                {k.v: v for k, v in ann["optional_fields"].fields["__annotations__"].fields["items"]})
    return (ann, {}) if t.fields["__total__"] == K(True) else ({}, ann)


def is_class(t: V) -> bool:
    return isinstance(t, S) and t.name in BASES


def union(*members: V) -> V:
    """typing.Union normal form: flatten, deduplicate (keeping the first occurrence), unwrap singletons."""
    flat: List[V] = []
    for m in members:
        if isinstance(m, R) and m.kind == "generic" and m.fields["origin"] == K("Union") and isinstance(m.fields["args"], K):
            flat.extend(m.fields["args"].v)
        else:
            flat.append(m)
    out: List[V] = []
    for m in flat:
        if m not in out:
            out.append(m)
    if len(out) == 1:
        return out[0]
    return R("generic", origin=K("Union"), args=K(tuple(out)))


def members(t: V) -> Tuple[V, ...]:
    if isinstance(t, R) and t.kind == "generic" and t.fields["origin"] == K("Union"):
        return tuple(t.fields["args"].v)
    return (t,)


EMPTY_KINDS = ("List", "Set", "Dict", "DefaultDict")


def admits(res: V, t: V) -> bool:
    """Independent oracle: every value of abstract type t is a value of abstract type res."""
    if res == t or res == ANY or res == S(OBJ):
        return True
    if isinstance(t, R) and t.kind == "generic" and t.fields["origin"] == K("Union"):
        return all(admits(res, m) for m in t.fields["args"].v)
    if isinstance(res, R) and res.kind == "generic" and res.fields["origin"] == K("Union"):
        return any(admits(m, t) for m in res.fields["args"].v)
    if is_class(res) and is_class(t):
        return res.name in mro(t.name)  # type: ignore[union-attr]
    if is_td(t):
        req_t, opt_t = td_fields(t)  # the values of t: dicts with every required key, any of the optional ones, nothing else
        if is_class(res):
            return res.name in (DICT_CLS, OBJ)  # type: ignore[union-attr]
        if is_td(res):
            req_r, opt_r = td_fields(res)
            return set(req_r) <= set(req_t) and set(req_t) | set(opt_t) <= set(req_r) | set(opt_r) and \
                all(admits({**opt_r, **req_r}[k], v) for k, v in {**opt_t, **req_t}.items())
        if isinstance(res, R) and res.kind == "generic" and res.fields["origin"] == K("Dict") and isinstance(res.fields["args"], K) and res.fields["args"].v is not None \
                and len(res.fields["args"].v) == 2:
            kt, vt = res.fields["args"].v
            return admits(kt, S("builtin:str")) and all(admits(vt, v) for v in {**opt_t, **req_t}.values())
        return False
    if is_td(res):
        # a TypedDict admits the empty dict (recorded as Dict[Any, Any]) only if it requires no key
        if isinstance(t, R) and t.kind == "generic" and t.fields["origin"] == K("Dict") and isinstance(t.fields["args"], K) and t.fields["args"].v is not None \
                and all(a == ANY for a in t.fields["args"].v):
            return not td_fields(res)[0]
        return False
    if isinstance(res, R) and res.kind == "generic" and isinstance(t, R) and t.kind == "generic":
        ro, to = res.fields["origin"].v, t.fields["origin"].v
        ra, ta = res.fields["args"], t.fields["args"]
        if not (isinstance(ra, K) and isinstance(ta, K)):
            return False
        ra, ta = ra.v, ta.v
        if ra is None:  # a bare alias admits every parameterisation of the same kind
            return ro == to
        if ta is None:
            return False
        if ro == "Iterator" and to == "Generator" and len(ta) == 3 and len(ra) == 1:
            return admits(ra[0], ta[0])
        if ro != to:
            return False
        if ro == "Tuple":
            if len(ra) == 2 and ra[1] == ELL:
                if len(ta) == 2 and ta[1] == ELL:
                    return admits(ra[0], ta[0])
                return all(admits(ra[0], x) for x in ta)
            if len(ta) == 2 and ta[1] == ELL:
                return False
            return len(ra) == len(ta) and all(admits(x, y) for x, y in zip(ra, ta))
        # an empty container C[Any] is a value-level subset of any C[...] (it has no elements) - for the kinds whose
        # C[Any] is how inference records an EMPTY value.  Iterator[Any] is how a generator object is recorded (its items
        # are never looked at), Type[Any] / Generator[Any, ..] are not produced for empty values either.
        if all(a == ANY for a in ta) and ta and to in EMPTY_KINDS:
            return True
        return len(ra) == len(ta) and all(admits(x, y) for x, y in zip(ra, ta))
    return False


CATALOGUED = ("is_any", "is_generic", "is_union", "is_generic_of", "is_list", "is_typed_dict", "is_anonymous_typed_dict", "name_of_generic", "qualname_of_generic",
              "types_equal", "is_forward_ref", "make_forward_ref", "repr_forward_ref", "__are_typed_dict_types_equal")


class RewriterScenario:
    """Interprets one method of a shipped rewriter class on abstract types."""

    def __init__(self, repo: Repo, cls_name: str, method: str, attrs: Optional[Dict[str, V]] = None) -> None:
        self.repo = repo
        self.ci = repo.cls(TY, cls_name)
        fi = repo.method(self.ci, method)
        if fi is None:
            raise AnalysisError(f"{cls_name}.{method} not found")
        self.fi = fi
        self.attrs = attrs or {}
        inline = set()
        for c in repo.mro(self.ci):
            for m in c.methods.values():
                if m.qualname.split(".")[-1] not in ("rewrite", "generic_rewrite"):
                    inline.add(m.fq)
        # private module-level helpers of typing.py (a piece extracted from a rewriter method) are interpreted with it
        for f in repo.module(TY).functions.values():
            if f.cls is None and f.qualname.startswith("_"):
                inline.add(f.fq)
        # helpers of compat.py other than the catalogued predicates are interpreted, too
        for f in repo.module("monkeytype.compat").functions.values():
            if f.cls is None and f.qualname not in CATALOGUED:
                inline.add(f.fq)
        self.ri = RepoInterp(repo, fi, inline=inline, call_hook=self.call_hook, may_fork=(), heap=True, max_depth=16)
        self.ri.self_class = self.ci
        self.ri.on_attr = self.on_attr  # type: ignore[method-assign]
        self.ri.interp.on_attr = self.on_attr
        self.ri.on_subscript = self.on_subscript  # type: ignore[method-assign]
        self.ri.interp.on_subscript = self.on_subscript
        base_name = self.ri.on_name
        def on_name(name: str, st: State) -> Optional[V]:
            v = base_name(name, st)
            if v is not None:
                if isinstance(v, S) and v.name == f"func:{TY}.NoneType" or name == "NoneType":
                    return NONE_T
                return v
            import builtins
            if hasattr(builtins, name):
                return S("builtin:" + name)
            return None
        self.ri.on_name = on_name  # type: ignore[method-assign]
        self.ri.interp.on_name = on_name

    # ---- hooks --------------------------------------------------------------------
    def on_attr(self, obj: V, attr: str, node: ast.AST, st: State) -> Optional[V]:
        if isinstance(obj, S) and obj.name == "self":
            if attr in self.attrs:
                return self.attrs[attr]
            from .common import instance_containers
            extra = instance_containers(self.repo, self.ci, self.attrs)
            if attr in extra:
                key = f"__global__:self.{attr}"
                if key not in st.env:
                    st.env[key] = self.ri.interp.eval(extra[attr], st)
                return st.env[key]
            m = self.repo.method(self.ci, attr)
            if m is not None:
                return R("boundmethod", name=K(attr))
            v_cls = RepoInterp.on_attr(self.ri, obj, attr, node, st)  # a class-level constant read through the instance
            if v_cls is not None:
                return v_cls
            return U("self." + attr)
        if isinstance(obj, R) and obj.kind == "generic":
            if attr == "__args__":
                if obj.fields["args"] == K(None):
                    st.pending = "AttributeError"
                    return U("no __args__")
                return obj.fields["args"]
            if attr == "__origin__":
                return origin_token(obj.fields["origin"].v)
            if attr == "__module__":
                return K("typing")
            if attr in ("__name__", "__qualname__"):
                # typing's aliases answer with their public name (CPython >= 3.10; Optional[X] says "Optional")
                o_q = obj.fields["origin"].v
                a_q = obj.fields["args"].v if isinstance(obj.fields["args"], K) else None
                return K("Optional" if o_q == "Union" and a_q is not None and len(a_q) == 2 and NONE_T in a_q else o_q)
            if attr in ("__bases__", "__mro__"):
                st.pending = "AttributeError"
                return U("generic alias has no " + attr)
        if is_td(obj):
            if attr in obj.fields:  # type: ignore[union-attr]
                return obj.fields[attr]  # type: ignore[union-attr]
            if attr == "__bases__":
                return K((S(DICT_CLS),))
            if attr == "__mro__":
                return K((obj, S(DICT_CLS), S(OBJ)))
            st.pending = "AttributeError"
            return U("a TypedDict class has no " + attr)
        if is_class(obj):
            if attr == "__module__":
                return K("builtins" if obj.name.startswith("builtin:") else "pkg.mod")  # type: ignore[union-attr]
            if attr in ("__qualname__", "__name__"):
                return K(obj.name.split(":")[-1])  # type: ignore[union-attr]
            if attr == "__bases__":
                return K(tuple(S(b) for b in BASES[obj.name]))  # type: ignore[union-attr]
            if attr == "__mro__":
                return K(tuple(S(b) for b in mro(obj.name)))  # type: ignore[union-attr]
            if attr in ("__args__", "__origin__"):
                st.pending = "AttributeError"
                return U("class has no " + attr)
        if isinstance(obj, S) and obj.name.startswith("mod:typing.") and obj != ANY:
            # a bare alias (typing.Callable, typing.List, ...)
            if attr == "__origin__":
                return origin_token(obj.name[len("mod:typing."):])
            if attr == "__module__":
                return K("typing")
            if attr in ("__qualname__", "__name__"):
                return K(obj.name[len("mod:typing."):])
            if attr in ("__args__", "__bases__", "__mro__"):
                st.pending = "AttributeError"
                return U("bare alias has no " + attr)
        if obj == ANY and attr == "__module__":
            return K("typing")
        if obj == ANY and attr in ("__qualname__", "__name__"):
            return K("Any")
        if obj == ANY and attr in ("__args__", "__origin__", "__bases__", "__mro__"):
            st.pending = "AttributeError"
            return U("Any has no " + attr)
        return RepoInterp.on_attr(self.ri, obj, attr, node, st)

    def on_subscript(self, obj: V, key: V, node: ast.AST, st: State) -> Optional[V]:
        if isinstance(obj, S) and obj.name.startswith("mod:typing."):
            origin = obj.name[len("mod:typing."):]
            if isinstance(key, K) and isinstance(key.v, tuple):
                args = key.v
            else:
                args = (key,)
            if origin == "Union":
                return union(*args)
            return R("generic", origin=K(origin), args=K(tuple(args)))
        return RepoInterp.on_subscript(self.ri, obj, key, node, st)

    def _origin_of(self, v: V) -> Optional[str]:
        if isinstance(v, R) and v.kind == "generic":
            return v.fields["origin"].v
        if isinstance(v, S) and v.name.startswith("mod:typing."):
            return v.name[len("mod:typing."):]
        return None

    def call_hook(self, call: ast.Call, fname: Optional[str], fval: Optional[V], args: List[V], kwargs: Dict[str, V], st: State) -> Optional[V]:
        d = fname or ""
        meth = call.func.attr if isinstance(call.func, ast.Attribute) else None
        if isinstance(fval, S) and fval.name == "self" and meth == "rewrite" and len(args) == 1:
            return args[0]  # members are leaves
        if isinstance(fval, R) and fval.kind == "boundmethod" and isinstance(call.func, ast.Name):
            # a bound method of the rewriter held in a local (`rewriter = getattr(self, "rewrite_" + name)`) is called
            m_b = self.repo.method(self.ci, fval.fields["name"].v)
            if m_b is not None:
                return self.ri.inline_call(m_b, call, S("self"), args, kwargs, st)
        if isinstance(fval, R) and fval.kind == "rw" and meth == "rewrite" and len(args) == 1:
            st.effects.append(("rw.rewrite", fval.fields["id"], st.freeze(args[0])))
            return R("out", by=fval.fields["id"], of=K(repr(st.freeze(args[0]))))  # an opaque member of a chain returns a new object (described, not referenced)
        if d == "getattr" and len(args) >= 2 and isinstance(args[1], K):
            before = st.pending
            v = self.on_attr(args[0], args[1].v, call, st)
            if st.pending == "AttributeError" and before is None:
                st.pending = None
                if len(args) > 2:
                    return args[2]
                st.pending = "AttributeError"
                return U("getattr")
            if isinstance(v, U) and len(args) > 2:
                return args[2]
            return v
        if d == "hasattr" and len(args) == 2 and isinstance(args[1], K) and isinstance(args[1].v, str):
            if isinstance(args[0], K):
                return K(hasattr(args[0].v, args[1].v))  # a plain Python value ((), Ellipsis, a string): the platform answers
            before = st.pending
            v_h = self.on_attr(args[0], args[1].v, call, st)
            if st.pending == "AttributeError" and before is None:
                st.pending = None
                return K(False)
            return K(True) if v_h is not None and not isinstance(v_h, U) else None
        if d == "repr" and len(args) == 1:
            return K(show(args[0]))
        if d == "len" and len(args) == 1 and isinstance(args[0], K) and isinstance(args[0].v, tuple):
            return K(len(args[0].v))
        if d in ("all", "any") and len(args) == 1:
            a = args[0]
            seq = self.ri.interp.iterate(a, st)
            if seq is not None and all(isinstance(x, K) for x in seq):
                return K((all if d == "all" else any)(x.v for x in seq))
            return None
        if d == "isinstance" and len(args) == 2:
            if args[1] == S("builtin:type"):
                return K(is_class(args[0]) or is_td(args[0]))
            if args[1] == S("mod:typing.TypeVar"):
                return K(False)  # the type universe has no type variables
            return None
        if d == "issubclass" and len(args) == 2:
            a, b = args
            if is_class(b) and b.name in REFUSES_SUBCLASS_CHECKS and (is_class(a) or is_td(a)):  # type: ignore[union-attr]
                st.pending = "TypeError"  # Instance and class checks can only be used with @runtime_checkable protocols
                return U("issubclass against a class that refuses subclass checks")
            if is_class(a) and is_class(b):
                return K(b.name in mro(a.name))  # type: ignore[union-attr]
            if is_td(b) and (is_class(a) or is_td(a)):
                st.pending = "TypeError"  # TypedDict does not support instance and class checks
                return U("issubclass against a TypedDict")
            if is_td(a) and is_class(b):
                return K(b.name in (DICT_CLS, OBJ))  # type: ignore[union-attr]
            st.pending = "TypeError"  # issubclass() arg 1 must be a class
            return U("issubclass on a non-class")
        if d in ("inspect.getmro",) and len(args) == 1:
            if is_class(args[0]):
                return K(tuple(S(b) for b in mro(args[0].name)))  # type: ignore[union-attr]
            if is_td(args[0]):
                return K((args[0], S(DICT_CLS), S(OBJ)))
            st.pending = "AttributeError"  # getmro reads cls.__mro__
            return U("getmro on a non-class")
        if d == "zip" and len(args) == 2:
            x, y = self.ri.interp.iterate(args[0], st), self.ri.interp.iterate(args[1], st)
            if x is not None and y is not None:
                return K(tuple(K((a, b)) for a, b in zip(x, y)))
            return None
        if d in ("functools.reduce", "reduce") and len(args) >= 2 and isinstance(args[0], R) and args[0].kind == "boundmethod":
            seq = self.ri.interp.iterate(args[1], st)
            if seq is None:
                return None
            m = self.repo.method(self.ci, args[0].fields["name"].v)
            if not seq and len(args) < 3:
                st.pending = "TypeError"
                return U("reduce of empty sequence")
            acc = args[2] if len(args) > 2 else seq[0]
            rest = seq if len(args) > 2 else seq[1:]
            for x in rest:
                acc = self.ri.inline_call(m, call, S("self"), [acc, x], {}, st)
            return acc
        if d == "tuple" and len(args) == 1:
            seq = self.ri.interp.iterate(args[0], st)
            return K(tuple(seq)) if seq is not None else None
        if d.split(".")[-1] == "TypedDict" and len(args) == 2 and isinstance(args[0], K):
            fs = self.ri.interp.iterate(args[1].fields["items"] if isinstance(args[1], R) and args[1].kind == "dict" else K(tuple(K(kv) for kv in st.dict_of(args[1]).items())) if isinstance(args[1], Ref) else args[1], st) \
                if not (isinstance(args[1], R) and args[1].kind == "dict") else list(args[1].fields["items"])
            if fs is None:
                return None
            pairs = [tuple(x.v) if isinstance(x, K) else tuple(x) for x in fs]
            return R("td", __module__=K("monkeytype.typing"), __qualname__=args[0], __name__=args[0], __total__=kwargs.get("total", K(True)),
                     __annotations__=R("dict", items=tuple((k_, st.freeze(v_)) for k_, v_ in pairs)))
        callee = self.ri.resolve(call, fval)
        if callee is not None and callee.module.name in (TY, "monkeytype.compat"):
            name = callee.qualname
            a0 = args[0] if args else None
            if name == "is_any":
                return K(a0 == ANY)
            if name == "is_generic":
                return K(self._origin_of(a0) is not None)
            if name == "is_union":
                return K(self._origin_of(a0) == "Union")
            if name == "is_generic_of" and len(args) == 2:
                o1, o2 = self._origin_of(args[0]), self._origin_of(args[1])
                return K(o1 is not None and o1 == o2)
            if name == "is_list":
                return K(self._origin_of(a0) == "List")
            if name == "is_typed_dict":
                return K(is_td(a0))
            if name == "is_anonymous_typed_dict":
                return K(is_td(a0) and a0.fields["__name__"] == K("DUMMY_NAME"))  # type: ignore[union-attr]
            if name == "name_of_generic":
                return K(self._origin_of(a0))
            if name == "types_equal" and len(args) == 2:
                return K(args[0] == args[1])
        return None

    last_state: Optional[State] = None

    def result(self, env: Dict[str, V], carry: Optional[State] = None) -> V:
        e = {"self": S("self")}
        e.update(env)
        outs = self.ri.run(e, carry=carry)
        self.last_state = outs[0] if outs else None
        if len(outs) != 1:
            raise AnalysisError(f"{self.fi.fq}: {len(outs)} outcomes for one scenario")
        o = outs[0]
        if o.term is None:
            return K(None)
        if o.term[0] == "raise":
            return R("raises", what=K(str(o.term[1])))
        return o.freeze(o.term[1])


class DeepScenario(RewriterScenario):
    """The whole object protocol: `rw = <constructor expression>; rw.rewrite(t)` interpreted in the context of typing.py with
    real rewriter objects on the heap (constructors run, instance attributes live on the object, `rewrite` dispatches by
    the source's own rules and recurses into nested types)."""

    def __init__(self, repo: Repo, ctor_src: str) -> None:
        self.repo = repo
        mod = repo.module(TY)
        node = ast.parse(f"def __driver__(t):\n    rw = {ctor_src}\n    return rw.rewrite(t)\n").body[0]
        fi = FunctionInfo(mod, "<driver>", node)
        self.fi = fi
        self.ci = repo.cls(TY, "TypeRewriter")
        self.attrs = {}
        inline = {f.fq for f in mod.functions.values()}
        inline |= {f.fq for f in repo.module("monkeytype.compat").functions.values() if f.cls is None and f.qualname not in CATALOGUED}
        self.ri = RepoInterp(repo, fi, inline=inline, call_hook=self.call_hook, may_fork=(), heap=True, max_depth=48)
        self.ri.construct_instances = True
        self.ri.dispatch_instances = True
        self.ri.on_attr = self.on_attr  # type: ignore[method-assign]
        self.ri.interp.on_attr = self.on_attr
        self.ri.on_subscript = self.on_subscript  # type: ignore[method-assign]
        self.ri.interp.on_subscript = self.on_subscript
        base_name = self.ri.on_name

        def on_name(name: str, st: State) -> Optional[V]:
            v = base_name(name, st)
            if v is not None:
                if isinstance(v, S) and v.name == f"func:{TY}.NoneType" or name == "NoneType":
                    return NONE_T
                return v
            import builtins
            if hasattr(builtins, name):
                return S("builtin:" + name)
            return None
        self.ri.on_name = on_name  # type: ignore[method-assign]
        self.ri.interp.on_name = on_name

    def _class_of_obj(self, obj: Ref, st: State) -> Optional[ClassInfo]:
        cfq = st.deref(obj).get("__class__")
        if isinstance(cfq, K):
            mn, _, cn = cfq.v.rpartition(".")
            return self.repo.cls(mn, cn, required=False)
        return None

    def on_attr(self, obj: V, attr: str, node: ast.AST, st: State) -> Optional[V]:
        if isinstance(obj, Ref) and obj.kind == "obj":
            d = st.deref(obj)
            if attr in d:
                return d[attr]
            ci = self._class_of_obj(obj, st)
            if ci is not None and self.repo.method(ci, attr) is not None:
                return R("boundmethod", name=K(attr), self=obj)
            v = RepoInterp.on_attr(self.ri, obj, attr, node, st)
            if v is not None:
                return v
            st.pending = st.pending or "AttributeError"
            return U(f"no attribute {attr}")
        return RewriterScenario.on_attr(self, obj, attr, node, st)

    def call_hook(self, call: ast.Call, fname: Optional[str], fval: Optional[V], args: List[V], kwargs: Dict[str, V], st: State) -> Optional[V]:
        if isinstance(fval, R) and fval.kind == "boundmethod" and "self" in fval.fields and isinstance(call.func, ast.Name):
            return self._call_bound(fval, call, args, kwargs, st)
        if (fname or "") in ("functools.reduce", "reduce") and len(args) >= 2 and isinstance(args[0], R) and args[0].kind == "boundmethod" and "self" in args[0].fields:
            seq = self.ri.interp.iterate(args[1], st)
            if seq is None:
                return None
            if not seq and len(args) < 3:
                st.pending = st.pending or "TypeError"
                return U("reduce of empty sequence")
            acc = args[2] if len(args) > 2 else seq[0]
            for x in (seq if len(args) > 2 else seq[1:]):
                acc = self._call_bound(args[0], call, [acc, x], {}, st)
            return acc
        return RewriterScenario.call_hook(self, call, fname, fval, args, kwargs, st)

    def _call_bound(self, bm: R, call: ast.Call, args: List[V], kwargs: Dict[str, V], st: State) -> V:
        obj = bm.fields["self"]
        ci = self._class_of_obj(obj, st)
        m = self.repo.method(ci, bm.fields["name"].v) if ci is not None else None
        if m is None:
            raise AnalysisError(f"bound method {bm.fields['name'].v} not found")
        saved = self.ri.self_class
        self.ri.self_class = ci
        try:
            return self.ri.inline_call(m, call, obj, list(args), dict(kwargs), st)
        finally:
            self.ri.self_class = saved

    def result(self, env: Dict[str, V], carry: Optional[State] = None) -> V:
        outs = self.ri.run(dict(env), carry=carry)
        self.last_state = outs[0] if outs else None
        if len(outs) != 1:
            raise AnalysisError(f"{self.fi.fq}: {len(outs)} outcomes for one scenario")
        o = outs[0]
        if o.term is None:
            return K(None)
        if o.term[0] == "raise":
            return R("raises", what=K(str(o.term[1])))
        return o.freeze(o.term[1])


def deep_inputs() -> List[V]:
    """types with unions BELOW the top level (what the symbolic 'members are leaves' scenarios do not reach)"""
    i, s_, f_, b_, n_ = INT, STR, FLT, BYT, NONE_T
    LA, LI, SA, SI = g("List", ANY), g("List", INT), g("Set", ANY), g("Set", INT)
    DSI, DSS, DAA = g("Dict", STR, INT), g("Dict", STR, STR), g("Dict", ANY, ANY)
    out = [
        union(g("Tuple", union(i, LI)), LA),                      # an empty list next to a tuple that holds a non-empty list
        union(LA, g("Tuple", union(i, LI))),
        union(g("Tuple", union(SI, i)), SA, i),
        g("List", union(LA, LI)), g("List", union(LA, i)), g("Dict", STR, union(DAA, DSI)), g("Dict", STR, union(SA, LI)),
        g("Tuple", union(LA, LI), union(SA, i)), union(g("List", union(LA, LI)), LA), union(g("List", union(SA, i)), SA),
        g("List", union(DSI, DSS)), union(g("List", union(DSI, DSS)), DSI), g("Dict", STR, union(DSI, g("Dict", INT, INT))),
        g("List", union(L1, L2)), g("Tuple", union(L1, L2), union(X_, Y_)), union(g("List", union(L1, L2)), BASE), g("Dict", STR, union(L1, OTH, i)),
        g("List", union(i, s_, f_, b_, BOOL, n_)), g("Tuple", union(i, s_, f_, b_, BOOL, n_), i), union(g("List", union(i, s_, f_, b_, BOOL, n_)), i),
        g("List", union(g("Tuple", i), g("Tuple", i, i), g("Tuple", i, i, i), g("Tuple", i, i, i, i), g("Tuple", i, i, i, i, i), g("Tuple", i, i, i, i, i, i))),
        g("List", union(g("Tuple", i), g("Tuple", i, i))), g("List", g("Generator", i, n_, n_)), union(g("List", g("Generator", i, n_, n_)), i),
        g("Dict", STR, g("Generator", union(i, s_), n_, n_)), g("Tuple", g("Generator", i, n_, s_), union(LA, LI)),
        g("List", union(g("Iterator", ANY), i)), g("Tuple"), g("List", g("Tuple")), g("Dict", STR, union(g("Tuple"), g("Tuple", i))),
        g("Type", BASE), g("List", union(g("Type", BASE), g("Type", L1))), S("mod:typing.Callable"), g("List", union(S("mod:typing.Callable"), i)),
        g("DefaultDict", STR, union(LA, LI)), g("DefaultDict", STR, union(g("DefaultDict", ANY, ANY), g("DefaultDict", STR, INT))),
        g("Tuple", union(LA, LI), ELL), g("List", g("Tuple", i, ELL)), union(g("Tuple", union(L1, L2), ELL), i), g("Dict", STR, g("Tuple", g("Generator", i, n_, n_), ELL)),
        # unions whose members become EQUAL once their inner unions are rewritten (typing then collapses the outer union into its one member)
        union(g("Set", BASE), g("Set", union(BASE, L1))), union(g("List", MID), g("List", union(L1, L2))), union(g("Tuple", BASE), g("Tuple", union(L1, OTH))),
        union(g("Dict", STR, LI), g("Dict", STR, union(LA, LI))), union(g("List", g("Iterator", i)), g("List", g("Generator", i, n_, n_))),
        g("List", union(g("Set", BASE), g("Set", union(BASE, L1)))),
        # ... a union of tuples of dicts that differ only in a nested dict union (members equal once that is merged; what is
        # left is ONE tuple whose arguments are all dicts with one key type)
        union(g("Tuple", DSI, union(DSI, DSS)), g("Tuple", DSI, g("Dict", STR, union(i, s_)))),
        union(g("List", union(DSI, DSS)), g("List", g("Dict", STR, union(i, s_)))),
        union(g("Tuple", union(DSI, DSS), union(DSI, DSS)), g("Tuple", g("Dict", STR, union(i, s_)), g("Dict", STR, union(i, s_)))),
        # generated TypedDicts: as members of a raw union (a generator's yields), as containers of unions, inside containers
        g("Iterator", union(DAA, anon_td({"a": i}))), union(anon_td({"a": i}), DAA), union(DAA, anon_td({}, {"b": s_}), i),
        anon_td({"a": union(LA, LI)}), anon_td({"a": union(DSI, DSS)}, {"b": union(SA, SI)}), g("List", anon_td({"a": union(i, s_)}, {"b": LA})),
        g("Tuple", anon_td({"a": i}), anon_td({"a": union(L1, L2)})), union(anon_td({"a": i}), anon_td({"a": i}, {"b": s_}), DSI),
    ]
    return out


def canon_key(t: Any) -> str:
    """Text of an abstract type with the members of every Union (at any depth) sorted: equality up to the
    order of union members."""
    if isinstance(t, R) and t.kind == "generic" and isinstance(t.fields["args"], K) and isinstance(t.fields["args"].v, tuple):
        parts = [canon_key(a) for a in t.fields["args"].v]
        if t.fields["origin"] == K("Union"):
            parts = sorted(parts)
        return f"{t.fields['origin'].v}[{', '.join(parts)}]"
    return show(t)


def show(t: Any) -> str:
    if isinstance(t, S):
        return t.name.split(":")[-1].split(".")[-1]
    if isinstance(t, R) and t.kind == "generic":
        a = t.fields["args"]
        if a == K(None):
            return t.fields["origin"].v
        if isinstance(a, K) and a.v == ():
            return f"{t.fields['origin'].v}[()]"
        return f"{t.fields['origin'].v}[{', '.join(show(x) for x in a.v)}]" if isinstance(a, K) else repr(t)
    if is_td(t):
        if t.fields["__name__"] == K("DUMMY_NAME"):
            rq, op = td_fields(t)
            return "TypedDict{" + ", ".join([f"{k}: {show(v)}" for k, v in rq.items()] + [f"{k}?: {show(v)}" for k, v in op.items()]) + "}"
        return f"TypedDict({t.fields['__name__'].v})"
    if isinstance(t, K) and t.v is Ellipsis:
        return "..."
    return repr(t)


# ---------------------------------------------------------------------------
# The abstract type universe the rules quantify over
# ---------------------------------------------------------------------------
INT, STR, FLT, BYT, BOOL = (cls("builtin:int"), cls("builtin:str"), cls("builtin:float"), cls("builtin:bytes"), cls("builtin:bool"))
Z_ = cls("class:Z")
BASE, MID, L1, L2, OTH, X_, Y_, SOLO = (cls("class:Base"), cls("class:Mid"), cls("class:Leaf1"), cls("class:Leaf2"), cls("class:Other"),
                                        cls("class:X"), cls("class:Y"), cls("class:Solo"))

ALPHABET: List[V] = [
    INT, STR, BOOL, NONE_T, BASE, L1, L2, OTH, X_, Y_,
    g("List", INT), g("List", ANY), g("List", g("List", ANY)), g("Set", ANY), g("Set", INT),
    g("Dict", STR, INT), g("Dict", STR, STR), g("Dict", INT, INT), g("Dict", ANY, ANY), g("DefaultDict", STR, INT),
    g("Tuple"), g("Tuple", INT), g("Tuple", INT, INT), g("Tuple", STR), g("Type", BASE),
    S("mod:typing.Callable"), g("Iterator", ANY), g("Iterator", INT), g("Generator", INT, NONE_T, NONE_T), g("Generator", INT, NONE_T, STR),
    R("generic", origin=K("Tuple"), args=K(None)),  # bare Tuple
    # dicts keyed / tuples filled by a class object that is false as a truth value
    g("Dict", cls("class:Registry"), cls("builtin:int")), g("Dict", cls("class:EmptyEnum"), cls("builtin:str")), cls("class:Registry"),
    # anonymous TypedDicts (a generator's yield types are joined by a raw Union: they meet empty containers and each other un-merged)
    anon_td({"a": cls("builtin:int")}), anon_td({"a": cls("builtin:int")}, {"b": cls("builtin:str")}), anon_td({}, {"b": cls("builtin:str")}),
]
SMALL = [INT, STR, NONE_T, L1, L2, OTH, g("List", INT), g("List", ANY), g("Dict", STR, INT), g("Dict", STR, STR), g("Tuple"), g("Tuple", INT)]

LARGE: List[Tuple[V, ...]] = [
    (INT, STR, FLT, BYT, BOOL, NONE_T),
    (INT, STR, FLT, BYT, BOOL, NONE_T, SOLO),
    (L1, L2, MID, OTH, BASE, X_),
    (L1, L2, MID, OTH, BASE, X_, Y_),
    (X_, Y_, L1, L2, MID, OTH),
    (g("Tuple"), INT, STR, FLT, BYT, BOOL, SOLO),
    (INT, g("Tuple"), STR, FLT, BYT, BOOL),
    (g("Tuple"), g("Tuple", INT), g("Tuple", INT, INT), g("Tuple", INT, INT, INT), g("Tuple", INT, INT, INT, INT), g("Tuple", INT, INT, INT, INT, INT)),
    (g("Tuple", INT), g("Tuple", INT, INT), g("Tuple", INT, INT, INT), g("Tuple", INT, INT, INT, INT), g("Tuple", INT, INT, INT, INT, INT), g("Tuple", INT, INT, INT, INT, INT, INT)),
    (g("Tuple", INT), g("Tuple", STR), g("Tuple", INT, INT), g("Tuple", STR, STR), g("Tuple", INT, INT, INT), g("Tuple", STR, STR, STR)),
    (R("generic", origin=K("Tuple"), args=K(None)), INT, STR, FLT, BYT, BOOL),
    (g("List", INT), INT, STR, FLT, BYT, BOOL),
    (INT, g("List", INT), g("Set", INT), g("Dict", STR, INT), STR, FLT, NONE_T),
    (g("Dict", STR, INT), g("Dict", STR, STR), g("Dict", STR, FLT), g("Dict", STR, BYT), g("Dict", STR, BOOL), g("Dict", STR, NONE_T)),
    (g("List", ANY), g("Set", ANY), g("Dict", ANY, ANY), INT, STR, FLT, NONE_T),
    (g("Type", BASE), g("Type", L1), S("mod:typing.Callable"), g("Iterator", ANY), INT, STR, NONE_T),
    # six plug-in classes that explicitly subclass a Protocol: the only ancestor they share refuses issubclass()
    tuple(cls(f"class:Plug{k}") for k in range(1, 7)),
    tuple(cls(f"class:Plug{k}") for k in range(6, 0, -1)),
    # more tuples than the maximum, the first ones filled by a falsy class object
    (g("Tuple", cls("class:Registry")), g("Tuple", cls("class:Registry"), cls("class:Registry")), g("Tuple", INT), g("Tuple", INT, INT), g("Tuple", INT, INT, INT), g("Tuple", INT, INT, INT, INT)),
    (g("Dict", cls("class:Registry"), INT), g("Dict", cls("class:EmptyEnum"), STR)),
]


def union_inputs(tier: str = "quick") -> List[V]:
    out: List[V] = []
    seen = set()
    def add(ms: Tuple[V, ...]) -> None:
        u = union(*ms)
        k = repr(u)
        if k not in seen and len(members(u)) >= 2:
            seen.add(k)
            out.append(u)
    for a, b in itertools.permutations(ALPHABET, 2):
        add((a, b))
    for tri in itertools.combinations(SMALL if tier != "thorough" else ALPHABET[:20], 3):
        add(tri)
        add(tuple(reversed(tri)))
    if tier == "thorough":
        for quad in itertools.combinations(SMALL, 4):
            add(quad)
    for big in LARGE:
        for r in range(len(big)):
            add(big[r:] + big[:r])  # every member gets to be first
    return out
