#!/venv/bin/python
"""tools/seed_check.py <seed-id> [props...]: apply seeded/<id>/patch.diff to a scratch copy of /repo's package and run checks."""
import os, shutil, subprocess, sys, tempfile
sid = sys.argv[1]
props = sys.argv[2:] or [sid.split('-')[0]]
if props == ['all']:
    props = [f"C{i:02d}" for i in range(1, 19)]
d = tempfile.mkdtemp(prefix="mtsa-seed-")
try:
    shutil.copytree("/repo/monkeytype", d + "/monkeytype")
    r = subprocess.run(["git", "apply", "--include=monkeytype/*", "/verif/seeded/%s/patch.diff" % sid], cwd=d, capture_output=True, text=True)
    if r.returncode:
        r = subprocess.run(["patch", "-p1", "-i", "/verif/seeded/%s/patch.diff" % sid], cwd=d, capture_output=True, text=True)
        if r.returncode:
            print("patch failed", r.stdout, r.stderr); sys.exit(3)
    for p in props:
        r = subprocess.run(["/verif/check", p], env=dict(os.environ, MTSA_REPO=d, MTSA_NO_EVIDENCE="1"), capture_output=True, text=True)
        lines = [l for l in r.stdout.splitlines() if l.startswith(("  R-", "ANALYSIS", "VIOLATION"))]
        print(p, "rc=%d" % r.returncode, *[l[:260] for l in lines[:4]], sep="\n   ")
finally:
    shutil.rmtree(d, ignore_errors=True)
