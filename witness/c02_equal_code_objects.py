"""C02: the tracer remembered the function resolved for a frame under the key (co_filename, code object).  Code objects are
compared by VALUE (name, argument counts, flags, first line, bytecode, constants, names ... - not the file name), so two
DIFFERENT functions whose code is equal and that live in the same (pseudo-)file share one entry: the generated `__init__` of two
dataclasses with the same fields (both `<string>`, line 2), functions exec'd twice from one template.  The second function's
calls are then attributed to the first: `Q(2)` is logged as a call of `P.__init__` with `self: Q`.
(The default code filter rejects `<string>`; a custom filter, or none, admits such code.)

Run by hand:  /venv/bin/python /verif/witness/c02_equal_code_objects.py   (exit 0 = every call attributed to its own function)"""
import os, sys
sys.path.insert(0, os.environ.get("MT_REPO", "/repo"))
from dataclasses import dataclass
from monkeytype.tracing import trace_calls, CallTraceLogger


class L(CallTraceLogger):
    def __init__(self): self.t = []
    def log(self, x): self.t.append(x)


@dataclass
class P:
    x: int


@dataclass
class Q:
    x: int


print("equal code:", P.__init__.__code__ == Q.__init__.__code__, " identical:", P.__init__.__code__ is Q.__init__.__code__)
l = L()
with trace_calls(l, 0):
    P(1)
    Q(2)
for t in l.t:
    print(t.func.__qualname__, t.arg_types)
bad = [t for t in l.t if t.func.__qualname__.split(".")[0] != t.arg_types["self"].__name__]
sys.exit(1 if bad else 0)
