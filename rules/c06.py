"""C06 - the TypedDict size limit is honoured end to end; zero disables TypedDicts (static clauses).

R-C06.1  the shipped default limit is the literal 0
R-C06.2  limit forwarding: at every call site of a function that takes `max_typed_dict_size` the bound
         argument is the caller's own limit (parameter / constructor-initialised attribute / config call)
R-C06.3  creation is gated: get_dict_type creates a TypedDict only for all-str keys, 0 < size <= limit;
         merging re-applies the limit (also for a single TypedDict) and falls back to Dict[str, ...]
R-C06.4  rewriters and stub generation keep the field set of a TypedDict (never grow it)
R-C06.7  tracing blocks (nested, sequential) with real tracer objects: a trace reaches only the logger of the block that
         recorded it, with types inferred under that block's limit
"""
from __future__ import annotations

import ast
import itertools
from typing import Any, Dict, List, Optional, Tuple

from mtsa.absint import K, R, S, U, V
from mtsa.index import FunctionInfo, Repo, calls_in, dotted, norm, walk_no_nested
from mtsa.report import AnalysisError, Ctx

from . import infer_model as IM
from .infer_model import ANY, TY, generic
from .c04 import _short
from .common import attr_is_param, bound_argument, call_sites, cfg_of, is_call_to, returns_of

LEVEL = "other"
EXPLANATION = (
    "Static decision of the structural clauses of C06: Config.max_typed_dict_size returns the literal 0 and no shipped "
    "subclass overrides it; at each of the (>=30) call sites of the functions that carry a max_typed_dict_size parameter the "
    "argument bound to it - positionally or by keyword, computed from the callee's signature - is the caller's own limit "
    "(its parameter, a constructor-initialised attribute, or config.max_typed_dict_size()), never a literal, a default or an "
    "expression; abstract interpretation of get_dict_type over (size 0..3 x key kind x limit 0..3) shows a TypedDict is "
    "created exactly for non-empty all-str dicts with size <= limit and that every recursive inference receives the same "
    "limit; of shrink_types that collections consisting only of TypedDicts (also a single one decoded from the store) go "
    "through shrink_typed_dict_types with the limit; of shrink_typed_dict_types (exhaustive over <=3 TypedDicts x <=2 keys x "
    "limit 0..3) that the merged TypedDict never has more keys than the limit and otherwise becomes Dict[str, ...]; the "
    "generic rewriter and the stub generator emit exactly the input's fields. A TypedDict may be created only where the limit is in scope (call-graph rule). Added: the four inference functions are also interpreted TOGETHER on a grammar of ~90 small concrete values (atoms, class objects, list/tuple/set/dict/defaultdict of depth <= 2, lists of dicts, empty containers, non-string keys) x limits and on ~700 merged pairs, and the result is judged by an oracle written from the property; two-call histories sharing module state (a memo with an unsound key is reported); compat.types_equal decided by interpretation. Not decided: counts on values outside the bounded grammar."
)

PARAM = "max_typed_dict_size"


def rule_default(ctx: Ctx, repo: Repo) -> None:
    ci = repo.cls("monkeytype.config", "Config")
    m = ci.methods.get(PARAM)
    if m is None:
        raise AnalysisError("Config.max_typed_dict_size not found")
    ctx.functions.add(m.fq)
    rets = returns_of(m)
    ctx.check(len(rets) == 1 and isinstance(rets[0][1], ast.Constant) and rets[0][1].value == 0 and type(rets[0][1].value) is int,
              "R-C06.1", m.fq, "the default TypedDict size limit is the literal 0 (TypedDicts disabled)",
              construct="; ".join(norm(n.ast) for n, _ in rets))
    for sub in repo.subclasses(ci):
        ctx.check(PARAM not in sub.methods, "R-C06.1", sub.fq, "shipped configurations do not override the default limit",
                  construct=f"{sub.name}.{PARAM} overrides the default")
    # the CLI and trace() obtain the limit from the config
    # (trace(): decided by interpretation under R-C06.2)
    gs = repo.fn("monkeytype.cli", "get_stub")
    todo, seen, cs = [gs], set(), []
    while todo:
        fi = todo.pop()
        if fi.fq in seen:
            continue
        seen.add(fi.fq)
        ctx.functions.add(fi.fq)
        for c in [c for c in ast.walk(fi.node) if isinstance(c, ast.Call)]:
            if isinstance(c.func, ast.Attribute) and c.func.attr == PARAM:
                cs.append(c)
            callee = repo.resolve_callee(fi, c)
            if callee is not None and callee.module is gs.module:
                todo.append(callee)
    ctx.check(len(cs) >= 1, "R-C06.1", gs.fq, "the limit used by stub generation is config.max_typed_dict_size()", construct=f"{len(cs)} config reads in get_stub and its helpers")


def _ok_root(repo: Repo, caller: FunctionInfo, a: ast.AST, kind: str) -> Tuple[bool, str]:
    if isinstance(a, ast.Name) and a.id == PARAM:
        if kind != "param" or PARAM not in caller.params:
            return False, f"`{PARAM}` is not the caller's parameter here"
        return True, ""
    if isinstance(a, ast.Attribute) and a.attr == PARAM and isinstance(a.value, ast.Name) and a.value.id == "self" and caller.cls is not None:
        return attr_is_param(repo, caller.cls, PARAM, PARAM)
    if isinstance(a, ast.Call) and isinstance(a.func, ast.Attribute) and a.func.attr == PARAM and not a.args and not a.keywords:
        return True, ""
    return False, f"`{norm(a)}` is not the caller's limit"


def _ok_source(repo: Repo, caller: FunctionInfo, a: Optional[ast.AST], call: ast.Call) -> Tuple[bool, str]:
    """the argument denotes the caller's own limit: its parameter, self.<limit> or config.<limit>(), possibly through
    local names"""
    if a is None:
        return False, "argument omitted (falls back to a default or is missing)"
    g = cfg_of(caller)
    n = g.node_of(call)
    if n is None:
        return _ok_root(repo, caller, a, "param" if isinstance(a, ast.Name) and a.id in caller.params else "expr")
    roots = g.origins(a, n.id)
    if not roots:
        return False, "no definition reaches the argument"
    for r, kind, _ in roots:
        ok, why = _ok_root(repo, caller, r, kind)
        if not ok:
            return False, why if why else "the caller's limit is rebound before the call"
    return True, ""


def rule_forwarding(ctx: Ctx, repo: Repo) -> None:
    carriers = [fi for fi in repo.all_functions() if PARAM in fi.params]
    ctx.floor("R-C06.2", f"functions with a {PARAM} parameter", len(carriers), 10)
    sites = call_sites(repo, lambda c: PARAM in c.params)
    # functools.partial(f, ..., max_typed_dict_size=X) binds the limit once for all later calls through the partial object:
    # a call site of f as far as this rule goes
    partial_sites = []
    for caller_p in repo.all_functions():
        for c_p in calls_in(caller_p.node):
            if (dotted(c_p.func) or "") in ("functools.partial", "partial") and c_p.args:
                inner = ast.Call(func=c_p.args[0], args=list(c_p.args[1:]), keywords=list(c_p.keywords))
                ast.copy_location(inner, c_p)
                callee_p = repo.resolve_callee(caller_p, inner)
                if callee_p is not None and PARAM in callee_p.params:
                    partial_sites.append((caller_p, c_p, inner, callee_p))
    ctx.floor("R-C06.2", f"call sites of functions carrying {PARAM} (direct calls and partial bindings)", len(sites) + len(partial_sites), 15)
    for caller_p, c_p, inner, callee_p in partial_sites:
        ctx.functions.add(caller_p.fq)
        a_p = bound_argument(callee_p, inner, PARAM)
        ok_p, why_p = _ok_source(repo, caller_p, a_p, c_p)
        ctx.check(ok_p, "R-C06.2", caller_p.fq, f"functools.partial of {callee_p.qualname} binds the caller's limit", construct=f"{norm(c_p)[:120]}", node=c_p, reason=why_p)
    from . import glue_model as GM
    GM.check_forwarding(ctx, repo, "R-C06.2", PARAM, PARAM, "call of trace_calls forwards the configuration's limit")
    GM.check_tracer_forwarding(ctx, repo, "R-C06.2", PARAM, PARAM, "call of CallTracer.__init__ forwards the caller's limit")
    for caller, call, callee in sites:
        ctx.functions.add(caller.fq)
        if caller.fq in ("monkeytype.trace", "monkeytype.tracing.trace_calls"):
            continue  # decided by interpretation above (any spelling of the call)
        a = bound_argument(callee, call, PARAM)
        ok, why = _ok_source(repo, caller, a, call)
        ctx.check(ok, "R-C06.2", caller.fq, f"call of {callee.qualname} forwards the caller's limit",
                  construct=f"{norm(call)[:120]}", node=call, reason=why)
    # no carrier gives the parameter a default (an omitted argument would silently mean that default)
    for fi in carriers:
        ctx.check(PARAM not in fi.defaults(), "R-C06.2", fi.fq, f"{PARAM} has no default value", construct=f"def {fi.qualname}(... {PARAM}=...)")


def rule_creation(ctx: Ctx, repo: Repo) -> None:
    w = f"{TY}.get_dict_type"
    ctx.functions.add(w)
    for n, kk, m, d, res in IM.dict_type_table(repo):
        lab = f"dict with {n} {kk} key(s), limit {m}"
        is_td = isinstance(res, R) and res.kind == "typeddict"
        want = n > 0 and kk == "str" and n <= m
        if kk in ("nonident", "keyword", "strsub"):
            # string keys that cannot be class fields, or instances of a str subclass: C06 only demands that a TypedDict, if
            # one is built, stays within the limit (whether one may be built is C12's / C03's question)
            ctx.check(not is_td or 0 < n <= m, "R-C06.3", w, "a TypedDict is never larger than the limit", construct=f"{lab}: TypedDict with {n} keys")
            continue
        ctx.check(is_td == want, "R-C06.3", w,
                  "a TypedDict is created exactly for a non-empty dict whose keys are all str and whose size is within the limit",
                  construct=f"{lab}: {'TypedDict' if is_td else _short(res, 60)} (expected {'TypedDict' if want else 'Dict[...]'})")
        if is_td:
            ctx.check(res.fields["optional"] in (K(None), R("dict", items=())), "R-C06.3", w, "a freshly inferred TypedDict has no optional fields",
                      construct=f"{lab}: optional {res.fields['optional']}")
        # the limit reaches every recursive inference
        lim = _limits(res)
        ctx.check(all(x == K(m) for x in lim), "R-C06.2", w, "every nested inference receives the same limit", construct=f"{lab}: limits {lim}")
    # get_type forwards the limit to every recursion level
    for cls, m, o, res in IM.get_type_table(repo):
        lim = _limits(res)
        ctx.check(all(x == K(m) for x in lim), "R-C06.2", f"{TY}.get_type", "every nested inference receives the same limit",
                  construct=f"{cls} limit {m}: limits {lim}")
    # shrink_types: collections of TypedDicts only (also a single one) are merged under the limit
    w = f"{TY}.shrink_types"
    A, B = R("anon_td", id=K("A")), R("anon_td", id=K("B"))
    for types in ((A,), (A, A), (A, B), (B, A, A)):
        for m in (0, 2):
            res = IM.shrink_result(repo, types, m)
            ok = isinstance(res, R) and res.kind == "merged_td" and res.fields["limit"] == K(m) and isinstance(res.fields["of"], K) and \
                sorted(map(repr, res.fields["of"].v)) == sorted(map(repr, types))
            ctx.check(ok, "R-C06.3", w, "a collection of anonymous TypedDicts (even a single one) is re-checked against the limit by shrink_typed_dict_types",
                      construct=f"{len(types)} TypedDict(s), limit {m}: {_short(res, 100)}")
    li = generic("List", A)
    for types in ((li, generic("List", B)),):
        res = IM.shrink_result(repo, types, 2)
        lim = _limits(res)
        ctx.check(bool(lim) and all(x == K(2) for x in lim), "R-C06.2", w, "the recursion into List element types keeps the limit", construct=f"{_short(res, 120)}")


def _limits(v: Any) -> List[V]:
    out: List[V] = []
    if isinstance(v, R):
        if "limit" in v.fields:
            out.append(v.fields["limit"])
        for x in v.fields.values():
            out += _limits(x)
    elif isinstance(v, K) and isinstance(v.v, tuple):
        for x in v.v:
            out += _limits(x)
    elif isinstance(v, tuple):
        for x in v:
            out += _limits(x)
    return out


def rule_merge_gate(ctx: Ctx, repo: Repo) -> None:
    w = f"{TY}.shrink_typed_dict_types"
    ctx.functions.add(w)
    shapes = IM.td_shapes(("a", "b"))
    combos: List[Tuple[Dict[str, str], ...]] = [(s,) for s in shapes]
    combos += list(itertools.product(shapes, repeat=2))
    combos += list(itertools.combinations_with_replacement(shapes, 3))
    n = 0
    for combo in combos:
        tds = tuple(IM.td(i, s) for i, s in enumerate(combo))
        types, req, opt = IM.merge_spec(tds)
        total = len(types)
        for m in (0, 1, 2, 3):
            res = IM.merge_result(repo, tds, m)
            n += 1
            lab = f"{list(combo)} limit {m}"
            if isinstance(res, R) and res.kind == "typeddict":
                nkeys = sum(len(res.fields[p].fields["items"]) for p in ("required", "optional") if isinstance(res.fields[p], R))
                ctx.check(nkeys <= m and total <= m, "R-C06.3", w, "a merged TypedDict never has more keys in total than the limit",
                          construct=f"{lab}: TypedDict with {nkeys} key(s)")
            elif isinstance(res, R) and res.kind == "generic" and res.fields["origin"] == K("Dict"):
                ctx.check(total > m, "R-C06.3", w, "TypedDicts whose merged key set fits the limit stay a TypedDict (no needless fallback)",
                          construct=f"{lab}: Dict fallback although {total} key(s) <= {m}")
            else:
                ctx.violate("R-C06.3", w, f"{lab}: {_short(res, 80)}", "merging yields neither a TypedDict nor the Dict fallback")
            lim = _limits(res)
            ctx.check(all(x == K(m) for x in lim), "R-C06.2", w, "field types are shrunk with the same limit", construct=f"{lab}: limits {lim}")
    ctx.floor("R-C06.3", "shrink_typed_dict_types scenarios", n, 300)


def rule_no_growth(ctx: Ctx, repo: Repo) -> None:
    """R-C06.4: rewrite_anonymous_TypedDict and the class-stub generator emit exactly the input's fields."""
    ci = repo.cls(TY, "GenericTypeRewriter")
    fi = repo.method(ci, "rewrite_anonymous_TypedDict")
    ctx.functions.add(fi.fq)
    ps = fi.positional_params()
    for shape in IM.td_shapes(("a", "b")):
        t = IM.td(1, shape)
        sc = IM.InferScenario(repo, "is_list", heap=True)
        sc.fi = fi
        sc.ri.fi = fi
        sc.ri.cur_fi = fi
        sc.ri.self_class = ci
        sc.ri.inline |= {mm.fq for c in repo.mro(ci) for mm in c.methods.values() if mm.qualname.split(".")[-1] not in ("rewrite", "generic_rewrite", "make_anonymous_typed_dict")}
        made: List[Dict[str, V]] = []
        base = sc.call_hook
        def hook(call, fname, fval, args, kwargs, st, _b=base, _m=made):
            if isinstance(call.func, ast.Attribute) and isinstance(fval, S) and fval.name == "self":
                if call.func.attr == "rewrite":
                    return R("rewritten", by=K("self"), of=args[0])
                if call.func.attr == "make_anonymous_typed_dict":
                    b_ = dict(zip(("required_fields", "optional_fields"), args))
                    b_.update(kwargs)
                    _m.append(b_)
                    return R("typeddict", required=b_.get("required_fields", K(None)), optional=b_.get("optional_fields", K(None)))
            return _b(call, fname, fval, args, kwargs, st)
        sc.ri.call_hook = hook
        res = sc.result({ps[0]: S("self"), ps[1]: t})
        ok = isinstance(res, R) and res.kind == "typeddict"
        if ok:
            for part in ("required", "optional"):
                d = res.fields[part]
                src = t.fields[part].fields["items"]
                got = d.fields["items"] if isinstance(d, R) and d.kind == "dict" else None
                ok = ok and got is not None and [k for k, _ in got] == [k for k, _ in src] and all(
                    v == R("rewritten", by=K("self"), of=sv) for (_, v), (_, sv) in zip(got, src))
        ctx.check(ok, "R-C06.4", fi.fq, "rewriting an anonymous TypedDict keeps exactly its required and optional keys", construct=f"{shape}: {_short(res, 120)}")
    # ReplaceTypedDictsWithStubs._add_typed_dict_class_stub: one AttributeStub per field of the given mapping
    st_ci = repo.cls("monkeytype.stubs", "ReplaceTypedDictsWithStubs")
    m = repo.method(st_ci, "_add_typed_dict_class_stub")
    ctx.functions.add(m.fq)
    fparam = m.positional_params()[1]
    loops = [x for x in walk_no_nested(m.node) if isinstance(x, ast.For)]
    ok = False
    for lp in loops:
        it = lp.iter
        if isinstance(it, ast.Call) and isinstance(it.func, ast.Attribute) and it.func.attr == "items" and dotted(it.func.value) == fparam:
            appends = [c for s in lp.body for c in ast.walk(s) if isinstance(c, ast.Call) and isinstance(c.func, ast.Attribute) and c.func.attr == "append" and c.args and is_call_to(c.args[0], "AttributeStub")]
            conds = [x for s in lp.body for x in ast.walk(s) if isinstance(x, (ast.If, ast.Continue, ast.Break))]
            nm = dotted(lp.target.elts[0]) if isinstance(lp.target, ast.Tuple) else None
            ok = len(appends) == 1 and not conds and nm is not None and dotted(appends[0].args[0].args[0]) == nm
    other_appends = [c for c in ast.walk(m.node) if isinstance(c, ast.Call) and is_call_to(c, "AttributeStub")]
    ctx.check(ok and len(other_appends) == 1, "R-C06.4", m.fq, "a generated TypedDict class has exactly one attribute per field of the TypedDict",
              construct="; ".join(norm(l.iter) for l in loops))


CREATION_EXEMPT = {
    # function -> why building a TypedDict there cannot exceed the limit (confirmed by reading)
    "monkeytype.typing.make_typed_dict": "the constructor itself: wraps the given required/optional mappings",
    "monkeytype.typing.TypeRewriter.make_anonymous_typed_dict": "rebuilds an anonymous TypedDict from the rewritten fields of an existing one (R-C06.4 decides: same keys)",
    "monkeytype.typing.TypeRewriter.make_builtin_typed_dict": "rebuilds a named TypedDict from the rewritten annotations of an existing one",
    "monkeytype.encoding.typed_dict_from_dict": "decodes a stored TypedDict: the keys are those that were encoded",
}


def rule_who_may_create(ctx: Ctx, repo: Repo) -> None:
    """R-C06.5: a TypedDict comes into being only where the size limit is in scope (a function with the limit
    parameter, or a helper reached only from such functions) or in one of the listed key-preserving reconstructions."""
    from .common import call_sites as _cs
    def creates(fi: FunctionInfo) -> List[ast.Call]:
        out = []
        for c in calls_in(fi.node):
            d = dotted(c.func) or ""
            if d.split(".")[-1] == "make_typed_dict":
                out.append(c)
            elif d.split(".")[-1] == "TypedDict" and fi.module.imports.get(d.split(".")[0], "").startswith(("mypy_extensions", "typing")):
                out.append(c)
        return out
    memo: Dict[str, Tuple[bool, str]] = {}

    def in_scope(fi: FunctionInfo, depth: int = 0) -> Tuple[bool, str]:
        if fi.fq in memo:
            return memo[fi.fq]
        if PARAM in fi.params:
            memo[fi.fq] = (True, "has the limit parameter")
            return memo[fi.fq]
        if fi.fq in CREATION_EXEMPT:
            memo[fi.fq] = (True, CREATION_EXEMPT[fi.fq])
            return memo[fi.fq]
        memo[fi.fq] = (False, "recursion")
        callers = [c for c, _, _ in _cs(repo, lambda x: x is fi)]
        if depth > 4 or not callers:
            memo[fi.fq] = (False, f"{fi.qualname} has no `{PARAM}` in scope and is not a listed reconstruction")
            return memo[fi.fq]
        for c in callers:
            ok, why = in_scope(c, depth + 1)
            if not ok:
                memo[fi.fq] = (False, f"reached from {c.qualname}, where no `{PARAM}` is in scope")
                return memo[fi.fq]
        memo[fi.fq] = (True, "helper reached only from functions with the limit in scope")
        return memo[fi.fq]

    n = 0
    for fi in repo.all_functions():
        for c in creates(fi):
            n += 1
            ok, why = in_scope(fi)
            ctx.functions.add(fi.fq)
            ctx.check(ok, "R-C06.5", fi.fq, "a TypedDict is created only where the size limit is in scope, or by a listed key-preserving reconstruction",
                      construct=f"{norm(c)[:70]}: {why}", node=c)
    ctx.floor("R-C06.5", "TypedDict creation sites", n, 6)


def rule_class_stubs_kept_apart(ctx: Ctx, repo: Repo) -> None:
    """R-C06.4: build_module_stubs never merges generated TypedDict classes: every class of the module stub is one
    of the classes the definitions carried (so the per-TypedDict key bound carries over to the rendered stub)."""
    from . import render_model as RM
    from .sig_model import param, sig
    bm = repo.fn("monkeytype.stubs", "build_module_stubs")
    ctx.functions.add(bm.fq)
    INT = S("t:int")
    def cs(name, *fields):
        return RM.class_stub(f"{name}(TypedDict)", [], [RM.attribute_stub(f, INT) for f in fields])
    in1 = [cs("ConfigTypedDict__RENAME_ME__", "host", "port")]
    in2 = [cs("ConfigTypedDict__RENAME_ME__", "path", "mode")]
    in3 = [cs("OtherTypedDict__RENAME_ME__", "x"), cs("OtherTypedDict__RENAME_ME__NonTotal", "y")]
    defs = [RM.definition("pkg.mod", "load", "MODULE", sig([param("config", S("t:'ConfigTypedDict__RENAME_ME__'"))]), False, tuple(in1)),
            RM.definition("pkg.mod", "save", "MODULE", sig([param("config", S("t:'ConfigTypedDict__RENAME_ME__'"))]), False, tuple(in2)),
            RM.definition("pkg.mod", "C.m", "INSTANCE", sig([param("self"), param("other", S("t:'OtherTypedDict__RENAME_ME__NonTotal'"))]), False, tuple(in3))]
    res = RM.build_module_stubs(repo, defs, lambda e: {"mypy_extensions": ("TypedDict",)})
    mods = {k.v: v for k, v in res.fields["items"]}
    ms = mods.get("pkg.mod")
    got = ms.fields["typed_dict_class_stubs"].fields["items"] if ms is not None and isinstance(ms.fields.get("typed_dict_class_stubs"), R) else None
    def shape(c):
        return (c.fields["name"].v, tuple(a.fields["name"].v for a in c.fields["attribute_stubs"].fields["items"]))
    want = sorted(shape(c) for c in in1 + in2 + in3)
    have = sorted(shape(c) for c in got) if got is not None else None
    ctx.check(have == want, "R-C06.4", bm.fq,
              "the module stub carries exactly the generated TypedDict classes of its functions, field set by field set (same-named classes are not merged into a bigger one)",
              construct=f"classes {have}, expected {want}")
    # ... and so does the TEXT: ModuleStub.render is interpreted and the rendered class definitions are read back
    if ms is not None:
        mr = repo.method(repo.cls("monkeytype.stubs", "ModuleStub"), "render")
        ctx.functions.add(mr.fq)
        text = RM.render(repo, ms, anno_text=lambda v: v.name.split(":", 1)[-1] if isinstance(v, S) else "object")
        try:
            tree = ast.parse(text)
        except SyntaxError as e:
            ctx.violate("R-C06.4", mr.fq, f"the rendered module stub does not parse: {e.msg}", "the rendered stub is not valid Python")
            return
        rendered = sorted((ast.unparse(c).split(":")[0].replace("class ", "").strip(), tuple(x.target.id for x in c.body if isinstance(x, ast.AnnAssign) and isinstance(x.target, ast.Name)))
                          for c in tree.body if isinstance(c, ast.ClassDef) and any("TypedDict" in ast.unparse(b) for b in c.bases))
        want_r = sorted((n_.replace(", total=False", ""), tuple(sorted(f_))) for n_, f_ in want)  # the renderer lists fields by name
        rendered = sorted((n_.split("(")[0] + "(" + n_.split("(", 1)[1].split(",")[0].rstrip(")") + ")", tuple(sorted(f_))) for n_, f_ in rendered)
        ctx.check(rendered == want_r, "R-C06.4", mr.fq,
                  "the rendered stub defines exactly the generated TypedDict classes, each with its own fields (none is merged with a same-named class into one that exceeds the limit)",
                  construct=f"rendered classes {rendered}, expected {want_r}")


def run(ctx: Ctx, repo: Repo, tier: str) -> None:
    # concrete small values first: they decide also when a new code path is beyond the abstract scenarios below
    from .concrete_infer import concrete_rules
    concrete_err = None
    try:
        concrete_rules(ctx, repo, tier, limit="R-C06.6")
    except AnalysisError as e:
        concrete_err = e  # the abstract scenarios below still decide their clauses; re-raised at the end if they are silent
    ctx.trust("Python argument binding (positional then keyword) against the callee's signature as written in the source")
    ctx.attempt(rule_default, ctx, repo)
    ctx.attempt(rule_forwarding, ctx, repo)
    ctx.attempt(rule_creation, ctx, repo)
    ctx.attempt(rule_merge_gate, ctx, repo)
    ctx.attempt(rule_no_growth, ctx, repo)
    ctx.attempt(rule_class_stubs_kept_apart, ctx, repo)
    ctx.attempt(rule_who_may_create, ctx, repo)
    from .blocks_model import rule_blocks
    ctx.attempt(rule_blocks, ctx, repo, "R-C06.7")
    if concrete_err is not None:
        raise concrete_err
    ctx.settle()
