"""Witness (run by hand, not part of any check): the tracer runs __getattr__ of a callable local
of an outer frame while looking up the function of a traced call.
    /venv/bin/python /verif/witness/c03_has_code_getattr.py
"""
from monkeytype.tracing import trace_calls, CallTraceLogger

class L(CallTraceLogger):
    def log(self, t): pass

seen = []
class Lazy:
    def __call__(self): pass
    def __getattr__(self, name):
        seen.append(name)
        raise AttributeError(name)

def outer():
    proxy = Lazy()          # a callable local in an outer frame
    def inner(x):           # not reachable through globals or a first argument
        return x
    return (lambda: inner(1))()

with trace_calls(L(), 0):
    outer()
print("attribute hooks run by the tracer:", seen)
assert "__code__" in seen
