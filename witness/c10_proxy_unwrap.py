"""Witness (run by hand): a traced function's name is now bound to an object that answers every attribute (a lazy proxy):
inspect.unwrap() raises ValueError ("wrapper loop"), which is not a MonkeyTypeError - `monkeytype stub` dies instead of skipping the row.
    cd /verif/witness && PYTHONPATH=/repo /venv/bin/python c10_proxy_unwrap.py      (exit 1 while the defect is present)"""
import sys, tempfile
d = tempfile.mkdtemp(); sys.path.insert(0, d)
open(d + "/wpx.py", "w").write("class Proxy:\n    def __getattr__(self, name):\n        return self\n    def __call__(self, *a):\n        return None\nhandler = Proxy()\n")
import wpx
from monkeytype.util import get_func_in_module
from monkeytype.exceptions import MonkeyTypeError
try:
    get_func_in_module("wpx", "handler")
    print("resolved?!"); sys.exit(1)
except MonkeyTypeError as e:
    print("not present:", type(e).__name__, e); sys.exit(0)
except Exception as e:
    print("WITNESSED:", type(e).__name__, e); sys.exit(1)
