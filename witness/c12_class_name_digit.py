"""Witness (run by hand): a parameter called `_1` (or `_2fa`, `__3`) that receives a small dict, with TypedDicts switched on: the
class generated for it is named `1TypedDict__RENAME_ME__`, which is not an identifier - stub generation dies with a SyntaxError.
    cd /verif/witness && PYTHONPATH=/repo /venv/bin/python c12_class_name_digit.py      (exit 1 while the defect is present)"""
import sys, tempfile, textwrap
d = tempfile.mkdtemp(); sys.path.insert(0, d)
open(d + "/wcn.py", "w").write("def handler(_1, _2fa=None):\n    return _1\n")
import wcn
from monkeytype.tracing import CallTrace
from monkeytype.typing import get_type
from monkeytype.stubs import build_module_stubs_from_traces
try:
    stub = build_module_stubs_from_traces([CallTrace(wcn.handler, {"_1": get_type({"k": 1}, 5), "_2fa": get_type({"q": "s"}, 5)}, int)], 5)["wcn"].render()
    print(stub)
    compile(stub, "stub", "exec")
    print("not present")
    sys.exit(0)
except SyntaxError as e:
    print("WITNESSED: SyntaxError:", e)
    sys.exit(1)
