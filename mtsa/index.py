"""Source index of the analysed repository (parsed, never imported)."""
from __future__ import annotations

import ast
import os
from dataclasses import dataclass, field
from pathlib import Path
from typing import Any, Dict, Iterator, List, Optional, Tuple

from .report import AnalysisError


def repo_root() -> Path:
    return Path(os.environ.get("MTSA_REPO", "/repo"))


def norm(node: Optional[ast.AST]) -> str:
    """Normalised text of a node: independent of layout, comments, quoting."""
    if node is None:
        return "<none>"
    try:
        return ast.unparse(node)
    except Exception:  # pragma: no cover
        return ast.dump(node)


def dotted(node: ast.AST) -> Optional[str]:
    """a.b.c for Name/Attribute chains, else None."""
    parts: List[str] = []
    while isinstance(node, ast.Attribute):
        parts.append(node.attr)
        node = node.value
    if isinstance(node, ast.Name):
        parts.append(node.id)
        return ".".join(reversed(parts))
    return None


@dataclass
class FunctionInfo:
    module: "Module"
    qualname: str
    node: ast.AST  # FunctionDef | AsyncFunctionDef
    cls: Optional["ClassInfo"] = None

    @property
    def fq(self) -> str:
        return f"{self.module.name}.{self.qualname}"

    @property
    def params(self) -> List[str]:
        a = self.node.args  # type: ignore[attr-defined]
        return [x.arg for x in a.posonlyargs + a.args] + (
            [a.vararg.arg] if a.vararg else []
        ) + [x.arg for x in a.kwonlyargs] + ([a.kwarg.arg] if a.kwarg else [])

    def positional_params(self) -> List[str]:
        a = self.node.args  # type: ignore[attr-defined]
        return [x.arg for x in a.posonlyargs + a.args]

    def defaults(self) -> Dict[str, ast.AST]:
        a = self.node.args  # type: ignore[attr-defined]
        pos = a.posonlyargs + a.args
        out: Dict[str, ast.AST] = {}
        for p, d in zip(pos[len(pos) - len(a.defaults):], a.defaults):
            out[p.arg] = d
        for p, d in zip(a.kwonlyargs, a.kw_defaults):
            if d is not None:
                out[p.arg] = d
        return out

    def decorators(self) -> List[str]:
        return [norm(d) for d in self.node.decorator_list]  # type: ignore[attr-defined]


@dataclass
class ClassInfo:
    module: "Module"
    name: str
    node: ast.ClassDef
    bases: List[str] = field(default_factory=list)  # as written (dotted)
    methods: Dict[str, FunctionInfo] = field(default_factory=dict)
    attrs: Dict[str, ast.AST] = field(default_factory=dict)  # class-level assignments

    @property
    def fq(self) -> str:
        return f"{self.module.name}.{self.name}"


class Module:
    def __init__(self, name: str, path: Path) -> None:
        self.name = name
        self.path = path
        self.source = path.read_text()
        try:
            self.tree = ast.parse(self.source, filename=str(path))
        except SyntaxError as e:
            raise AnalysisError(f"{path} does not parse: {e}")
        self.imports: Dict[str, str] = {}
        self.functions: Dict[str, FunctionInfo] = {}
        self.classes: Dict[str, ClassInfo] = {}
        self.constants: Dict[str, ast.AST] = {}  # module-level NAME = <expr> (last wins)
        self.assign_nodes: Dict[str, List[ast.stmt]] = {}
        self._index()

    def _index(self) -> None:
        for st in ast.walk(self.tree):
            if isinstance(st, ast.Import):
                for a in st.names:
                    self.imports[a.asname or a.name.split(".")[0]] = (
                        a.name if a.asname else a.name.split(".")[0]
                    )
            elif isinstance(st, ast.ImportFrom):
                mod = st.module or ""
                for a in st.names:
                    self.imports[a.asname or a.name] = f"{mod}.{a.name}" if mod else a.name
        self._index_body(self.tree.body, prefix="", cls=None)
        for st in self.tree.body:
            self._index_const(st)
            # constants assigned under try/if at module level
            if isinstance(st, (ast.Try, ast.If)):
                subs = [sub for sub in ast.walk(st) if isinstance(sub, ast.stmt)]
                if isinstance(st, ast.Try) and any(h.type is not None and ("ImportError" in norm(h.type) or "ModuleNotFoundError" in norm(h.type)) for h in st.handlers) \
                        and _imports_resolve(st.body):
                    in_handlers = {id(x) for h in st.handlers for x in ast.walk(h)}
                    subs = [x for x in subs if id(x) in in_handlers] + [x for x in subs if id(x) not in in_handlers]
                for sub in subs:
                    self._index_const(sub)

    def _index_const(self, st: ast.stmt) -> None:
        if isinstance(st, ast.Assign) and len(st.targets) == 1 and isinstance(st.targets[0], ast.Name):
            self.constants[st.targets[0].id] = st.value
            self.assign_nodes.setdefault(st.targets[0].id, []).append(st)
        elif isinstance(st, ast.AnnAssign) and isinstance(st.target, ast.Name) and st.value is not None:
            self.constants[st.target.id] = st.value
            self.assign_nodes.setdefault(st.target.id, []).append(st)
        elif isinstance(st, ast.Assign) and len(st.targets) == 1 and isinstance(st.targets[0], (ast.Tuple, ast.List)) \
                and all(isinstance(t, ast.Name) for t in st.targets[0].elts):
            # `a, b, c = f()` at module level: each name is the corresponding element of the value
            for i, t in enumerate(st.targets[0].elts):
                sub = ast.Subscript(value=st.value, slice=ast.Constant(value=i), ctx=ast.Load())
                ast.copy_location(sub, st.value)
                ast.fix_missing_locations(sub)
                self.constants[t.id] = sub  # type: ignore[attr-defined]
                self.assign_nodes.setdefault(t.id, []).append(st)  # type: ignore[attr-defined]

    def _index_body(self, body: List[ast.stmt], prefix: str, cls: Optional[ClassInfo]) -> None:
        for st in body:
            if isinstance(st, (ast.FunctionDef, ast.AsyncFunctionDef)):
                qn = prefix + st.name
                fi = FunctionInfo(self, qn, st, cls)
                # last definition wins, like at runtime (e.g. is_generic under try/except)
                self.functions[qn] = fi
                if cls is not None:
                    cls.methods[st.name] = fi
            elif isinstance(st, ast.ClassDef):
                ci = ClassInfo(self, prefix + st.name, st, [dotted(b) or norm(b) for b in st.bases])
                self.classes[prefix + st.name] = ci
                for s2 in st.body:
                    if isinstance(s2, ast.Assign) and len(s2.targets) == 1 and isinstance(s2.targets[0], ast.Name):
                        ci.attrs[s2.targets[0].id] = s2.value
                    elif isinstance(s2, ast.AnnAssign) and isinstance(s2.target, ast.Name) and s2.value is not None:
                        ci.attrs[s2.target.id] = s2.value
                self._index_body(st.body, prefix + st.name + ".", ci)
            elif isinstance(st, (ast.Try,)):
                # `try: import x ... except ImportError: <fallback>`: the branch that runs on the analysing platform
                # is indexed last, so that its definitions win (as at import time)
                import_guard = any(h.type is not None and "ImportError" in norm(h.type) or h.type is not None and "ModuleNotFoundError" in norm(h.type) for h in st.handlers)
                if import_guard and _imports_resolve(st.body):
                    for h in st.handlers:
                        self._index_body(h.body, prefix, cls)
                    self._index_body(st.body, prefix, cls)
                else:
                    self._index_body(st.body, prefix, cls)
                    for h in st.handlers:
                        self._index_body(h.body, prefix, cls)
                self._index_body(st.orelse, prefix, cls)
                self._index_body(st.finalbody, prefix, cls)
            elif isinstance(st, ast.If):
                self._index_body(st.body, prefix, cls)
                self._index_body(st.orelse, prefix, cls)

    def resolve(self, name: str) -> str:
        """Fully qualified name a dotted name in this module refers to (best effort)."""
        head, _, rest = name.partition(".")
        if head in self.imports:
            base = self.imports[head]
        elif head in self.functions or head in self.classes or head in self.constants:
            base = f"{self.name}.{head}"
        else:
            base = head  # builtin or unknown
        return f"{base}.{rest}" if rest else base


class Repo:
    def __init__(self, root: Optional[Path] = None, package: str = "monkeytype") -> None:
        self.root = Path(root) if root else repo_root()
        self.package = package
        self.modules: Dict[str, Module] = {}
        pkg = self.root / package
        if not pkg.is_dir():
            raise AnalysisError(f"package directory {pkg} not found")
        for p in sorted(pkg.rglob("*.py")):
            rel = p.relative_to(self.root).with_suffix("")
            parts = list(rel.parts)
            if parts[-1] == "__init__":
                parts = parts[:-1]
            self.modules[".".join(parts)] = Module(".".join(parts), p)

    # -- lookups -------------------------------------------------------------
    def module(self, name: str) -> Module:
        if name not in self.modules:
            raise AnalysisError(f"anchor module {name} not found under {self.root}")
        return self.modules[name]

    def fn(self, module: str, qualname: str, required: bool = True) -> Optional[FunctionInfo]:
        m = self.modules.get(module)
        if m is not None and qualname in m.functions:
            return m.functions[qualname]
        # the function may have been moved to another module of the package
        hits = [mm.functions[qualname] for mm in self.modules.values() if qualname in mm.functions]
        if len(hits) == 1:
            return hits[0]
        if required:
            raise AnalysisError(f"anchor function {module}.{qualname} not found")
        return None

    def cls(self, module: str, name: str, required: bool = True) -> Optional[ClassInfo]:
        m = self.modules.get(module)
        if m is not None and name in m.classes:
            return m.classes[name]
        hits = [mm.classes[name] for mm in self.modules.values() if name in mm.classes]
        if len(hits) == 1:
            return hits[0]
        if required:
            raise AnalysisError(f"anchor class {module}.{name} not found")
        return None

    def resolve_class(self, mod: Module, name: str) -> Optional[ClassInfo]:
        fq = mod.resolve(name)
        m, _, c = fq.rpartition(".")
        if m in self.modules and c in self.modules[m].classes:
            return self.modules[m].classes[c]
        return None

    def mro(self, ci: ClassInfo) -> List[ClassInfo]:
        """Linearised ancestors inside the package (single inheritance chains here)."""
        out, seen, todo = [], set(), [ci]
        while todo:
            c = todo.pop(0)
            if c.fq in seen:
                continue
            seen.add(c.fq)
            out.append(c)
            for b in c.bases:
                bc = self.resolve_class(c.module, b.split("[")[0])
                if bc is not None:
                    todo.append(bc)
        return out

    def method(self, ci: ClassInfo, name: str) -> Optional[FunctionInfo]:
        for c in self.mro(ci):
            if name in c.methods:
                return c.methods[name]
        return None

    def subclasses(self, ci: ClassInfo) -> List[ClassInfo]:
        out = []
        for m in self.modules.values():
            for c in m.classes.values():
                if c is not ci and ci in self.mro(c):
                    out.append(c)
        return out

    def all_functions(self) -> Iterator[FunctionInfo]:
        for m in self.modules.values():
            yield from m.functions.values()

    def _local_instance_class(self, fi: FunctionInfo, name: str) -> Optional[ClassInfo]:
        """the package class a local of `fi` is an instance of, when every binding of the name in `fi` is
        `name = Class(...)` or `with Class(...) as name` for one and the same class of the package"""
        found: Optional[ClassInfo] = None
        bindings = 0
        a = fi.node.args  # type: ignore[attr-defined]
        if any(x.arg == name for x in a.posonlyargs + a.args + a.kwonlyargs) or (a.vararg and a.vararg.arg == name) or (a.kwarg and a.kwarg.arg == name):
            return None
        for n in walk_no_nested(fi.node):
            srcs: List[Optional[ast.AST]] = []
            if isinstance(n, ast.Assign) and any(isinstance(t, ast.Name) and t.id == name for t in n.targets):
                srcs.append(n.value)
            elif isinstance(n, ast.AnnAssign) and isinstance(n.target, ast.Name) and n.target.id == name:
                srcs.append(n.value)
            elif isinstance(n, (ast.With, ast.AsyncWith)):
                for it in n.items:
                    if isinstance(it.optional_vars, ast.Name) and it.optional_vars.id == name:
                        srcs.append(it.context_expr)
            elif isinstance(n, (ast.For, ast.AugAssign, ast.NamedExpr)) and any(isinstance(t, ast.Name) and t.id == name and isinstance(t.ctx, ast.Store) for t in ast.walk(n.target)):
                return None
            elif isinstance(n, (ast.Tuple, ast.List)) and isinstance(n.ctx, ast.Store) and any(isinstance(t, ast.Name) and t.id == name for t in ast.walk(n)):
                return None
            for src in srcs:
                bindings += 1
                if not isinstance(src, ast.Call):
                    return None
                dn = dotted(src.func)
                if dn is None:
                    return None
                fqc = fi.module.resolve(dn)
                ci = None
                for modname in sorted(self.modules, key=len, reverse=True):
                    if fqc.startswith(modname + "."):
                        ci = self.modules[modname].classes.get(fqc[len(modname) + 1:])
                        break
                if ci is None or (found is not None and found is not ci):
                    return None
                found = ci
        return found if bindings else None

    def resolve_callee(self, fi: FunctionInfo, call: ast.Call) -> Optional[FunctionInfo]:
        """Resolve the callee of `call` occurring in `fi` to a function of the package."""
        f = call.func
        mod = fi.module
        d = dotted(f)
        if d is None:
            return None
        head, _, rest = d.partition(".")
        if head in ("self", "cls") and fi.cls is not None and rest and "." not in rest:
            return self.method(fi.cls, rest)
        if rest and "." not in rest and head not in mod.imports:
            ci = self._local_instance_class(fi, head)
            if ci is not None:
                return self.method(ci, rest)
        fq = mod.resolve(d)
        # module-level function or Class.method or Class (constructor)
        for modname in sorted(self.modules, key=len, reverse=True):
            if fq == modname or fq.startswith(modname + "."):
                tail = fq[len(modname) + 1:]
                m = self.modules[modname]
                if tail in m.functions:
                    return m.functions[tail]
                if tail in m.classes:
                    return self.method(m.classes[tail], "__init__")
                cn, _, meth = tail.rpartition(".")
                if cn in m.classes:
                    return self.method(m.classes[cn], meth)
                # re-exported name (from x import y in that module)
                if tail in m.imports:
                    fq2 = m.imports[tail]
                    m2, _, t2 = fq2.rpartition(".")
                    if m2 in self.modules and t2 in self.modules[m2].functions:
                        return self.modules[m2].functions[t2]
                return None
        return None


def bind_args(callee: FunctionInfo, call: ast.Call, skip_self: bool) -> Dict[str, ast.AST]:
    """Bind the arguments of a call to the callee's parameter names (positional + keyword)."""
    a = callee.node.args  # type: ignore[attr-defined]
    pos = [x.arg for x in a.posonlyargs + a.args]
    if skip_self and pos and pos[0] in ("self", "cls"):
        pos = pos[1:]
    out: Dict[str, ast.AST] = {}
    for i, arg in enumerate(call.args):
        if isinstance(arg, ast.Starred):
            out[f"*{i}"] = arg
            continue
        if i < len(pos):
            out[pos[i]] = arg
        else:
            out[f"*{i}"] = arg
    for kw in call.keywords:
        if kw.arg is None:
            out["**"] = kw.value
        else:
            out[kw.arg] = kw.value
    return out


def _imports_resolve(body: List[ast.stmt]) -> bool:
    """Would the import statements of this block succeed on the analysing platform?  Standard-library modules are
    looked at as data (attribute present); anything else only through importlib's finder (nothing is imported)."""
    import importlib.util
    import sys as _sys
    for st in body:
        mods: List[Tuple[str, List[str]]] = []
        if isinstance(st, ast.Import):
            mods = [(a.name, []) for a in st.names]
        elif isinstance(st, ast.ImportFrom) and st.module and not st.level:
            mods = [(st.module, [a.name for a in st.names])]
        for m, names in mods:
            top = m.split(".")[0]
            try:
                if importlib.util.find_spec(top) is None:
                    return False
            except (ImportError, ValueError):
                return False
            if top in getattr(_sys, "stdlib_module_names", ()) and names:
                try:
                    mod = importlib.import_module(m)
                except ImportError:
                    return False
                if any(n != "*" and not hasattr(mod, n) for n in names):
                    return False
    return True


def walk_no_nested(node: ast.AST) -> Iterator[ast.AST]:
    """ast.walk that does not descend into nested function/class definitions or lambdas."""
    todo = [node]
    first = True
    while todo:
        n = todo.pop()
        if not first and isinstance(n, (ast.FunctionDef, ast.AsyncFunctionDef, ast.ClassDef, ast.Lambda)):
            continue
        first = False
        yield n
        todo.extend(reversed(list(ast.iter_child_nodes(n))))


def calls_in(node: ast.AST) -> List[ast.Call]:
    return [n for n in walk_no_nested(node) if isinstance(n, ast.Call)]


def call_name(call: ast.Call) -> Optional[str]:
    return dotted(call.func)


def names_in(node: ast.AST) -> set:
    return {n.id for n in ast.walk(node) if isinstance(n, ast.Name)}


def fold_str(mod: Module, node: ast.AST, local: Optional[Dict[str, str]] = None) -> Optional[str]:
    """Constant-fold a string expression: literals, +, .format(name=...), module constants, f-strings
    whose holes fold.  Unknown holes become {?name}."""
    local = local or {}
    if isinstance(node, ast.Constant) and isinstance(node.value, str):
        return node.value
    if isinstance(node, ast.Name):
        if node.id in local:
            return local[node.id]
        if node.id in mod.constants:
            return fold_str(mod, mod.constants[node.id], local)
        return None
    if isinstance(node, ast.BinOp) and isinstance(node.op, ast.Add):
        l, r = fold_str(mod, node.left, local), fold_str(mod, node.right, local)
        return l + r if l is not None and r is not None else None
    if isinstance(node, ast.Call) and isinstance(node.func, ast.Attribute) and node.func.attr == "format":
        base = fold_str(mod, node.func.value, local)
        if base is None:
            return None
        out = base
        for kw in node.keywords:
            if kw.arg:
                v = fold_str(mod, kw.value, local)
                out = out.replace("{" + kw.arg + "}", v if v is not None else "{?" + kw.arg + "}")
        for i, a in enumerate(node.args):
            v = fold_str(mod, a, local)
            rep = v if v is not None else "{?%d}" % i
            out = out.replace("{}", rep, 1) if "{}" in out else out.replace("{%d}" % i, rep)
        return out
    if isinstance(node, ast.JoinedStr):
        out = ""
        for v in node.values:
            if isinstance(v, ast.Constant):
                out += str(v.value)
            elif isinstance(v, ast.FormattedValue):
                s = fold_str(mod, v.value, local)
                out += s if s is not None else "{?" + norm(v.value) + "}"
        return out
    return None
