"""Witness for two defects of CallTracer.__call__'s gate (run by hand: PYTHONPATH=/repo /venv/bin/python witness/c17_gate.py).

1. `self.should_trace and not self.should_trace(code)` consults the truth value of the filter OBJECT: a callable
   collection of admitted names that happens to be empty (it rejects everything) is treated as "no filter".
2. `code.co_name == "trace_types"` is a left-over exemption (the context manager used to be called trace_types): a user
   function of that name is never recorded although the filter admits it."""
import sys
from monkeytype.tracing import CallTraceLogger, trace_calls

class L(CallTraceLogger):
    def __init__(self): self.names = []
    def log(self, t): self.names.append(t.func.__qualname__)

class AllowSet(set):
    def __call__(self, code): return code.co_name in self

def f(x): return x
def trace_types(x): return x

bad = 0
l = L()
with trace_calls(l, 0, code_filter=AllowSet()):      # admits nothing
    f(1)
print("empty allow-set filter, logged:", l.names)
if l.names:
    print("WITNESSED: a function the filter rejects reached the logger"); bad = 1
l = L()
with trace_calls(l, 0, code_filter=lambda c: True):  # admits everything
    trace_types(1); f(2)
print("accept-all filter, logged:", l.names)
if "trace_types" not in l.names:
    print("WITNESSED: an admitted function named trace_types never reaches the logger"); bad = 1
print("OK" if not bad else "FAILED")
sys.exit(bad)
