"""Abstract model of inspect.Signature / inspect.Parameter and of the stub-building functions of
monkeytype.stubs, used by C13, C12, C01 and C10.3."""
from __future__ import annotations

import ast
from typing import Any, Callable, Dict, List, Optional, Tuple

from mtsa.absint import K, R, Ref, S, U, V, State
from mtsa.index import FunctionInfo, Repo, dotted, norm
from mtsa.report import AnalysisError
from .common import RepoInterp

ST = "monkeytype.stubs"
EMPTY = S("inspect._empty")
NONE_T = S("builtin:NoneType")
STRAT = "monkeytype.stubs.ExistingAnnotationStrategy."
REPLICATE, IGNORE, OMIT = S(STRAT + "REPLICATE"), S(STRAT + "IGNORE"), S(STRAT + "OMIT")
KINDS = ["POSITIONAL_ONLY", "POSITIONAL_OR_KEYWORD", "VAR_POSITIONAL", "KEYWORD_ONLY", "VAR_KEYWORD"]


def kind(name: str) -> S:
    return S("mod:inspect.Parameter." + name)


def param(name: str, annotation: V = EMPTY, default: V = EMPTY, knd: str = "POSITIONAL_OR_KEYWORD") -> R:
    return R("param", name=K(name), annotation=annotation, default=default, kind=kind(knd))


def sig(params: List[R], ret: V = EMPTY) -> R:
    return R("sig", parameters=R("dict", items=tuple((p.fields["name"], p) for p in params)), return_annotation=ret)


def generic(origin: str, *args: V) -> R:
    return R("generic", origin=K(origin), args=K(tuple(args)))


class StubScenario:
    def __init__(self, repo: Repo, func: str, call_hook: Optional[Callable[..., Optional[V]]] = None, inline: Tuple[str, ...] = (),
                 module: str = ST) -> None:
        self.repo = repo
        self.fi = repo.fn(module, func)
        self.extra_hook = call_hook
        inl = {f"{ST}.{x}" for x in inline} | {"monkeytype.typing.make_iterator", "monkeytype.typing.make_generator"}
        # private module-level helpers of stubs.py (an extracted piece of a public function) are interpreted with it
        inl |= {f.fq for f in repo.module(ST).functions.values() if f.cls is None and f.qualname.startswith("_")}
        # ... and so are private (non-dunder) methods of its classes, called on instance records
        inl |= {f.fq for f in repo.module(ST).functions.values() if f.cls is not None and f.qualname.split(".")[-1].startswith("_")
                and not f.qualname.split(".")[-1].startswith("__")}
        if inline:
            # helpers of the stub module that have been moved to the package's utility modules are interpreted like the ones that stayed
            for um in ("monkeytype.util", "monkeytype.compat"):
                if um in repo.modules:
                    inl |= {f.fq for f in repo.modules[um].functions.values() if f.cls is None and f.qualname not in ("get_name_in_module", "get_func_in_module", "get_func_fqname")}
        self.ri = RepoInterp(repo, self.fi, inline=inl, call_hook=self.call_hook, may_fork=(), heap=True, max_depth=16)
        self.ri.dispatch_instances = True
        self.ri.on_attr = self.on_attr  # type: ignore[method-assign]
        self.ri.interp.on_attr = self.on_attr
        self.ri.on_subscript = self.on_subscript  # type: ignore[method-assign]
        self.ri.interp.on_subscript = self.on_subscript
        base_name = self.ri.on_name
        def on_name(name: str, st: State) -> Optional[V]:
            if name == "NoneType":
                return NONE_T
            v = base_name(name, st)
            if v is not None:
                return v
            import builtins
            if hasattr(builtins, name):
                return S("builtin:" + name)
            return None
        self.ri.on_name = on_name  # type: ignore[method-assign]
        self.ri.interp.on_name = on_name

    def on_attr(self, obj: V, attr: str, node: ast.AST, st: State) -> Optional[V]:
        if isinstance(obj, S) and obj.name in ("mod:inspect.Parameter", "mod:inspect.Signature") and attr == "empty":
            return EMPTY
        if isinstance(obj, R) and obj.kind == "generic" and attr == "__args__":
            return obj.fields["args"]
        return RepoInterp.on_attr(self.ri, obj, attr, node, st)

    def on_subscript(self, obj: V, key: V, node: ast.AST, st: State) -> Optional[V]:
        if isinstance(obj, S) and obj.name.startswith("mod:typing."):
            origin = obj.name[len("mod:typing."):]
            args = key.v if isinstance(key, K) and isinstance(key.v, tuple) else (key,)
            if origin == "Optional":
                return generic("Union", args[0], NONE_T)
            return generic(origin, *args)
        return RepoInterp.on_subscript(self.ri, obj, key, node, st)

    def call_hook(self, call: ast.Call, fname: Optional[str], fval: Optional[V], args: List[V], kwargs: Dict[str, V], st: State) -> Optional[V]:
        if self.extra_hook is not None:
            v = self.extra_hook(call, fname, fval, args, kwargs, st)
            if v is not None:
                return v
        callee = self.ri.resolve(call, fval)
        if callee is not None and callee.module.name == "monkeytype.compat":
            a0 = args[0] if args else None
            if callee.qualname == "is_union":
                return K(isinstance(a0, R) and a0.kind == "generic" and a0.fields["origin"] == K("Union"))
            if callee.qualname == "is_any":
                return K(a0 == S("mod:typing.Any"))
            if callee.qualname == "is_generic":
                return K(isinstance(a0, R) and a0.kind == "generic")
        return None

    def run(self, env: Dict[str, V]) -> State:
        outs = self.ri.run(env)
        if len(outs) != 1:
            raise AnalysisError(f"{self.fi.fq}: {len(outs)} outcomes for one scenario")
        return outs[0]

    def result(self, env: Dict[str, V]) -> V:
        o = self.run(env)
        if o.term is None:
            return K(None)
        if o.term[0] == "raise":
            return R("raises", what=K(str(o.term[1])))
        return o.freeze(o.term[1])
