"""Witness for R-C07.6 / R-C11.4 (run by hand: PYTHONPATH=/repo /venv/bin/python witness/c07_namesake_class.py).
GenericTypeRewriter.rewrite dispatched a plain class by its bare __name__: a user class called Union / Generator /
List ... went to the handler of the typing alias of that name - the shipped rewriters crash on it, the stub renderer
prints `<class 'List'>`."""
import sys
from monkeytype.typing import RemoveEmptyContainers, RewriteGenerator, DEFAULT_REWRITER, get_type
from monkeytype.stubs import RenderAnnotation
class Union: pass
class Generator: pass
class List: pass
bad = 0
for rw, c in ((RemoveEmptyContainers(), Union), (DEFAULT_REWRITER, Union), (RewriteGenerator(), Generator)):
    t = get_type(c(), 0)
    try:
        r = rw.rewrite(t)
        print(type(rw).__name__, "rewrite(class %s) ->" % c.__name__, r)
        if r is not t: bad = 1
    except Exception as e:
        print("WITNESSED:", type(rw).__name__, "rewrite(class %s) raises" % c.__name__, type(e).__name__, e); bad = 1
txt = RenderAnnotation().rewrite(List)
print("rendered annotation of class List:", txt)
if "<class" in txt:
    print("WITNESSED: not an annotation"); bad = 1
print("OK" if not bad else "FAILED"); sys.exit(bad)
