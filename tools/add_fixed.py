#!/usr/bin/env python3
"""tools/add_fixed.py <property> <commit> <what failed>: append a `fixed` entry to known_findings.json (suppresses nothing)."""
import json, sys
p = "/verif/known_findings.json"
k = json.load(open(p))
prop, commit, what = sys.argv[1], sys.argv[2], sys.argv[3]
k["fixed"].append({"entry": f"fixed: property={prop} {commit} {what}", "property": prop, "commit": commit, "what": what})
json.dump(k, open(p, "w"), indent=1)
print(len(k["fixed"]), "fixed entries")
