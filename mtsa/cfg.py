"""Statement-level control-flow graph with condition atoms, guards, dominance,
reaching definitions and bounded path enumeration.

Nodes
  entry / exit (normal return) / rexit (exception leaves the function)
  stmt    one simple statement (Assign, Expr, Return, Raise, Delete, Assert, Pass, ...)
  cond    one atom of a branch condition (`and`/`or`/`not` are split into edges T/F)
  for     loop header (evaluates the iterable / fetches the next item): edges body/done
  with    context entry
  except  an exception handler entry (edge `exc` from every node of the guarded body)

Supported statement kinds are the ones that occur in /repo/monkeytype; anything else
(match, async for/with in anchored functions) raises AnalysisError - never a silent pass.
"""
from __future__ import annotations

import ast
from typing import Any, Callable, Dict, Iterable, Iterator, List, Optional, Set, Tuple

from .index import norm, walk_no_nested
from .report import AnalysisError

Edge = Tuple[int, str]  # (source node, label) - a dangling edge while building

MAX_PATHS = 4096


class Node:
    __slots__ = ("id", "kind", "ast", "negated")

    def __init__(self, id: int, kind: str, a: Optional[ast.AST]) -> None:
        self.id = id
        self.kind = kind
        self.ast = a

    def __repr__(self) -> str:
        return f"<{self.id}:{self.kind}:{norm(self.ast)[:60] if self.ast is not None else ''}>"

    @property
    def lineno(self) -> Optional[int]:
        return getattr(self.ast, "lineno", None)

    def exprs(self) -> List[ast.AST]:
        """The expressions evaluated at this node (not those of nested blocks)."""
        a = self.ast
        if a is None:
            return []
        if self.kind == "cond":
            return [a]
        if self.kind == "for":
            return [a.iter, a.target]  # type: ignore[attr-defined]
        if self.kind == "with":
            out: List[ast.AST] = []
            for it in a.items:  # type: ignore[attr-defined]
                out.append(it.context_expr)
                if it.optional_vars is not None:
                    out.append(it.optional_vars)
            return out
        if self.kind == "except":
            return [a.type] if a.type is not None else []  # type: ignore[attr-defined]
        if isinstance(a, (ast.FunctionDef, ast.AsyncFunctionDef, ast.ClassDef)):
            return list(a.decorator_list)
        return [a]

    def walk(self) -> Iterator[ast.AST]:
        for e in self.exprs():
            yield from walk_no_nested(e)

    def calls(self) -> List[ast.Call]:
        return [n for n in self.walk() if isinstance(n, ast.Call)]


class CFG:
    def __init__(self, func: Optional[ast.AST] = None, body: Optional[List[ast.stmt]] = None, name: str = "?") -> None:
        self.name = name
        self.nodes: List[Node] = []
        self.succ: Dict[int, List[Tuple[int, str]]] = {}
        self.pred: Dict[int, List[Tuple[int, str]]] = {}
        self.func = func
        self.entry = self._new("entry", None).id
        self.exit = self._new("exit", None).id
        self.rexit = self._new("rexit", None).id
        self._loops: List[Tuple[List[Edge], List[Edge]]] = []  # (break edges, continue edges)
        self._tries: List[Dict[str, Any]] = []
        stmts = body if body is not None else func.body  # type: ignore[union-attr]
        out = self._block(stmts, [(self.entry, "next")])
        self._link(out, self.exit)
        self._rd: Optional[Dict[int, Dict[str, Set[int]]]] = None
        self._defs: Dict[int, List[Tuple[str, Optional[ast.AST], str]]] = {}

    # -- construction --------------------------------------------------------
    def _new(self, kind: str, a: Optional[ast.AST]) -> Node:
        n = Node(len(self.nodes), kind, a)
        self.nodes.append(n)
        self.succ[n.id] = []
        self.pred[n.id] = []
        for t in getattr(self, "_tries", []):
            if t["collect"]:
                t["nodes"].append(n.id)
        return n

    def _link(self, edges: List[Edge], target: int) -> None:
        for src, label in edges:
            if (target, label) not in self.succ[src]:
                self.succ[src].append((target, label))
                self.pred[target].append((src, label))

    def _cond(self, expr: ast.AST, preds: List[Edge]) -> Tuple[List[Edge], List[Edge]]:
        if isinstance(expr, ast.BoolOp) and isinstance(expr.op, ast.And):
            t, f_all = preds, []
            for v in expr.values:
                t, f = self._cond(v, t)
                f_all += f
            return t, f_all
        if isinstance(expr, ast.BoolOp) and isinstance(expr.op, ast.Or):
            f, t_all = preds, []
            for v in expr.values:
                t, f = self._cond(v, f)
                t_all += t
            return t_all, f
        if isinstance(expr, ast.UnaryOp) and isinstance(expr.op, ast.Not):
            t, f = self._cond(expr.operand, preds)
            return f, t
        n = self._new("cond", expr)
        self._link(preds, n.id)
        return [(n.id, "T")], [(n.id, "F")]

    def _block(self, stmts: List[ast.stmt], preds: List[Edge]) -> List[Edge]:
        for s in stmts:
            preds = self._stmt(s, preds)
        return preds

    def _abrupt(self, kind: str, preds: List[Edge]) -> None:
        """Route a return/raise through enclosing finally blocks, then to its target."""
        for t in reversed(self._tries):
            if t["finalbody"] and not t["in_finally"]:
                t["in_finally"] = True
                saved = self._tries
                self._tries = self._tries[: self._tries.index(t)]
                preds = self._block(t["finalbody"], preds)
                self._tries = saved
                t["in_finally"] = False
        self._link(preds, self.exit if kind == "return" else self.rexit)

    def _stmt(self, s: ast.stmt, preds: List[Edge]) -> List[Edge]:
        if isinstance(s, ast.If):
            t, f = self._cond(s.test, preds)
            out = self._block(s.body, t)
            out += self._block(s.orelse, f)
            return out
        if isinstance(s, ast.While):
            head_marker = len(self.nodes)
            t, f = self._cond(s.test, preds)
            self._loops.append(([], []))
            body_out = self._block(s.body, t)
            brk, cont = self._loops.pop()
            first = head_marker  # first cond node of the test
            if first < len(self.nodes):
                self._link(body_out + cont, first)
            out = self._block(s.orelse, f)
            return out + brk
        if isinstance(s, (ast.For,)):
            n = self._new("for", s)
            self._link(preds, n.id)
            self._loops.append(([], []))
            body_out = self._block(s.body, [(n.id, "body")])
            brk, cont = self._loops.pop()
            self._link(body_out + cont, n.id)
            out = self._block(s.orelse, [(n.id, "done")])
            return out + brk
        if isinstance(s, ast.With):
            n = self._new("with", s)
            self._link(preds, n.id)
            return self._block(s.body, [(n.id, "next")])
        if isinstance(s, ast.Try):
            t: Dict[str, Any] = {
                "nodes": [],
                "collect": False,
                "finalbody": s.finalbody,
                "in_finally": False,
                "handlers": s.handlers,
                "handler_nodes": [],
            }
            self._tries.append(t)
            # handler entry nodes exist before the body so that raises in the body can target them
            hnodes = [self._new("except", h) for h in s.handlers]
            t["handler_nodes"] = [h.id for h in hnodes]
            t["collect"] = True
            body_out = self._block(s.body, preds)
            t["collect"] = False
            guarded = list(t["nodes"])
            else_out = self._block(s.orelse, body_out)
            # an `exc` edge from node X reads "an exception was raised while X executed"
            sources = list(dict.fromkeys(guarded))
            for h in hnodes:
                for src in sources:
                    self._link([(src, "exc")], h.id)
            catch_all = any(_is_catch_all(h) for h in s.handlers)
            outs = list(else_out)
            for h, hn in zip(s.handlers, hnodes):
                outs += self._block(h.body, [(hn.id, "next")])
            self._tries.pop()
            if s.finalbody:
                outs = self._block(s.finalbody, outs)
                if not catch_all:
                    # the exception continues after the finally block ran
                    fin_out = self._block(s.finalbody, [(src, "exc") for src in sources])
                    self._abrupt("raise", fin_out)
            return outs
        if isinstance(s, ast.Return):
            n = self._new("stmt", s)
            self._link(preds, n.id)
            self._abrupt("return", [(n.id, "return")])
            return []
        if isinstance(s, ast.Raise):
            n = self._new("stmt", s)
            self._link(preds, n.id)
            # an explicit raise inside a guarded body goes to that try's handlers
            for t in reversed(self._tries):
                if t["collect"] and t["handler_nodes"]:
                    for h in t["handler_nodes"]:
                        self._link([(n.id, "exc")], h)
                    if any(_is_catch_all(h) for h in t["handlers"]):
                        return []
            self._abrupt("raise", [(n.id, "raise")])
            return []
        if isinstance(s, ast.Break):
            if not self._loops:
                raise AnalysisError("break outside loop")
            self._loops[-1][0].extend(preds)
            return []
        if isinstance(s, ast.Continue):
            if not self._loops:
                raise AnalysisError("continue outside loop")
            self._loops[-1][1].extend(preds)
            return []
        if isinstance(s, (ast.Match, ast.AsyncFor, ast.AsyncWith)) or (
            hasattr(ast, "TryStar") and isinstance(s, ast.TryStar)
        ):
            raise AnalysisError(f"{self.name}: unsupported statement kind {type(s).__name__} at line {s.lineno}")
        n = self._new("stmt", s)
        self._link(preds, n.id)
        return [(n.id, "next")]

    # -- basic queries -------------------------------------------------------
    def node(self, i: int) -> Node:
        return self.nodes[i]

    def reach(
        self,
        src: int,
        avoid_nodes: Iterable[int] = (),
        avoid_edges: Iterable[Tuple[int, str]] = (),
        labels_excluded: Iterable[str] = (),
    ) -> Set[int]:
        """Nodes reachable from src (src included) without entering avoid_nodes / taking avoid_edges."""
        av_n, av_e, lx = set(avoid_nodes), set(avoid_edges), set(labels_excluded)
        seen = {src}
        todo = [src]
        while todo:
            n = todo.pop()
            for m, lab in self.succ[n]:
                if (n, lab) in av_e or lab in lx or m in av_n or m in seen:
                    continue
                seen.add(m)
                todo.append(m)
        return seen

    def reachable(self, target: int, **kw: Any) -> bool:
        return target in self.reach(self.entry, **kw)

    def dominates(self, a: int, b: int) -> bool:
        """Every path entry -> b passes through node a."""
        if a == b:
            return True
        return b not in self.reach(self.entry, avoid_nodes=[a])

    def guards(self, target: int, include_exc: bool = False) -> List[Tuple[Node, bool]]:
        """Condition atoms that hold on every path to `target`:
        (atom node, polarity) such that every path entry->target takes that edge of the atom."""
        lx = () if include_exc else ("exc",)
        out = []
        if target not in self.reach(self.entry, labels_excluded=lx):
            lx = ()
        for n in self.nodes:
            if n.kind != "cond" or n.id == target:
                continue
            for lab in ("T", "F"):
                if target not in self.reach(self.entry, avoid_edges=[(n.id, lab)], labels_excluded=lx):
                    out.append((n, lab == "T"))
        return out

    def edge_dominates(self, src: int, label: str, target: int) -> bool:
        return target not in self.reach(self.entry, avoid_edges=[(src, label)])

    def must_pass_after(self, a: int, b: int, include_rexit: bool = False) -> bool:
        """After node a, every path to the function's (normal) exit passes through b."""
        r = self.reach(a, avoid_nodes=[b])
        if self.exit in r:
            return False
        if include_rexit and self.rexit in r:
            return False
        return True

    def stmts(self) -> List[Node]:
        return [n for n in self.nodes if n.kind not in ("entry", "exit", "rexit")]

    def find(self, pred: Callable[[Node], bool]) -> List[Node]:
        return [n for n in self.stmts() if pred(n)]

    def find_calls(self, pred: Callable[[ast.Call], bool]) -> List[Tuple[Node, ast.Call]]:
        out = []
        for n in self.stmts():
            for c in n.calls():
                if pred(c):
                    out.append((n, c))
        return out

    def node_of(self, a: ast.AST) -> Optional[Node]:
        """The CFG node whose expressions contain AST node `a`."""
        for n in self.stmts():
            for x in n.walk():
                if x is a:
                    return n
        return None

    def in_loop(self, n: int) -> bool:
        return any(n in self.reach(m) for m, _ in self.succ[n])

    # -- reaching definitions --------------------------------------------------
    def _node_defs(self, n: Node) -> List[Tuple[str, Optional[ast.AST], str]]:
        """(name, value expr or None, kind) defined at node n.  Names only (not attributes)."""
        if n.id in self._defs:
            return self._defs[n.id]
        out: List[Tuple[str, Optional[ast.AST], str]] = []

        def targets(t: ast.AST, value: Optional[ast.AST], kind: str) -> None:
            if isinstance(t, ast.Name):
                out.append((t.id, value, kind))
            elif isinstance(t, (ast.Tuple, ast.List)):
                for i, el in enumerate(t.elts):
                    sub = None
                    if isinstance(value, (ast.Tuple, ast.List)) and len(value.elts) == len(t.elts):
                        sub = value.elts[i]
                        targets(el, sub, kind)
                    else:
                        targets(el, value, "unpack" if kind == "assign" else kind)
            elif isinstance(t, ast.Starred):
                targets(t.value, value, "unpack")

        a = n.ast
        if n.kind == "entry" and self.func is not None:
            ar = self.func.args  # type: ignore[attr-defined]
            for p in ar.posonlyargs + ar.args + ar.kwonlyargs:
                out.append((p.arg, None, "param"))
            if ar.vararg:
                out.append((ar.vararg.arg, None, "param"))
            if ar.kwarg:
                out.append((ar.kwarg.arg, None, "param"))
        elif n.kind == "for":
            targets(a.target, a.iter, "for")  # type: ignore[union-attr]
        elif n.kind == "with":
            for it in a.items:  # type: ignore[union-attr]
                if it.optional_vars is not None:
                    targets(it.optional_vars, it.context_expr, "with")
        elif n.kind == "except":
            if a.name:  # type: ignore[union-attr]
                out.append((a.name, a.type, "except"))  # type: ignore[union-attr]
        elif n.kind == "stmt":
            if isinstance(a, ast.Assign):
                for t in a.targets:
                    targets(t, a.value, "assign")
            elif isinstance(a, ast.AnnAssign) and a.value is not None:
                targets(a.target, a.value, "assign")
            elif isinstance(a, ast.AugAssign):
                if isinstance(a.target, ast.Name):
                    out.append((a.target.id, a, "augassign"))
            elif isinstance(a, (ast.Import, ast.ImportFrom)):
                for al in a.names:
                    out.append(((al.asname or al.name).split(".")[0], None, "import"))
            elif isinstance(a, (ast.FunctionDef, ast.AsyncFunctionDef, ast.ClassDef)):
                out.append((a.name, None, "def"))
        # walrus
        for e in n.exprs() if n.kind != "entry" else []:
            for x in walk_no_nested(e):
                if isinstance(x, ast.NamedExpr) and isinstance(x.target, ast.Name):
                    out.append((x.target.id, x.value, "assign"))
        self._defs[n.id] = out
        return out

    def reaching(self) -> Dict[int, Dict[str, Set[int]]]:
        """IN sets: node -> name -> set of defining node ids (entry = parameter)."""
        if self._rd is not None:
            return self._rd
        IN: Dict[int, Dict[str, Set[int]]] = {n.id: {} for n in self.nodes}
        OUT: Dict[int, Dict[str, Set[int]]] = {n.id: {} for n in self.nodes}
        changed = True
        order = [n.id for n in self.nodes]
        while changed:
            changed = False
            for i in order:
                cur: Dict[str, Set[int]] = {}
                for p, _ in self.pred[i]:
                    for k, v in OUT[p].items():
                        cur.setdefault(k, set()).update(v)
                IN[i] = cur
                out = {k: set(v) for k, v in cur.items()}
                for name, _, kind in self._node_defs(self.nodes[i]):
                    if kind == "augassign":
                        out.setdefault(name, set()).add(i)
                        out[name] = {i}
                    else:
                        out[name] = {i}
                if out != OUT[i]:
                    OUT[i] = out
                    changed = True
        self._rd = IN
        return IN

    def defs_of(self, name: str, at: int) -> List[Tuple[Node, Optional[ast.AST], str]]:
        """Definitions of local `name` reaching node `at`: (def node, value expr, kind)."""
        rd = self.reaching()
        out = []
        for d in sorted(rd.get(at, {}).get(name, ())):
            dn = self.nodes[d]
            for nm, val, kind in self._node_defs(dn):
                if nm == name:
                    out.append((dn, val, kind))
        return out

    def origins(self, expr: ast.AST, at: int, _seen: Optional[Set[Tuple[str, int]]] = None, depth: int = 0) -> List[Tuple[ast.AST, str, int]]:
        """Root value expressions `expr` (evaluated at node `at`) can denote, following local
        single-name assignments: list of (expr, kind, node) with kind in
        expr|param|for|with|except|unpack|augassign|global."""
        _seen = _seen if _seen is not None else set()
        if isinstance(expr, ast.Name):
            ds = self.defs_of(expr.id, at)
            if not ds:
                return [(expr, "global", at)]
            out: List[Tuple[ast.AST, str, int]] = []
            for dn, val, kind in ds:
                key = (expr.id, dn.id)
                if key in _seen:
                    continue
                _seen.add(key)
                if kind == "assign" and val is not None:
                    out += self.origins(val, dn.id, _seen, depth + 1)
                elif kind == "param":
                    out.append((expr, "param", dn.id))
                else:
                    out.append((val if val is not None else expr, kind, dn.id))
            return out
        return [(expr, "expr", at)]

    def same_value(self, name_expr: ast.AST, a: int, b: int) -> bool:
        """The locals mentioned in `name_expr` have the same reaching definitions at a and b
        (so a condition tested at a still describes the value seen at b)."""
        rd = self.reaching()
        for x in ast.walk(name_expr):
            if isinstance(x, ast.Name):
                da = rd.get(a, {}).get(x.id)
                db = rd.get(b, {}).get(x.id)
                if da != db and da is not None and db is not None:
                    return False
        return True

    # -- path enumeration ----------------------------------------------------
    def paths(self, src: Optional[int] = None, stop: Optional[Set[int]] = None, include_exc: bool = False) -> List[List[Tuple[int, str]]]:
        """All paths from src to exit/rexit (or a stop node), each edge taken at most once per path
        (so every loop is iterated 0 and 1 times).  A path is a list of (node, label-taken)."""
        src = self.entry if src is None else src
        stop = stop or {self.exit, self.rexit}
        out: List[List[Tuple[int, str]]] = []
        stack: List[Tuple[int, List[Tuple[int, str]], frozenset]] = [(src, [], frozenset())]
        while stack:
            n, path, used = stack.pop()
            if n in stop and path:
                out.append(path + [(n, "end")])
                if len(out) > MAX_PATHS:
                    raise AnalysisError(f"{self.name}: more than {MAX_PATHS} paths")
                continue
            nxt = [(m, lab) for m, lab in self.succ[n] if include_exc or lab != "exc"]
            if not nxt:
                out.append(path + [(n, "end")])
                continue
            for m, lab in nxt:
                e = (n, lab, m)
                if e in used:
                    continue
                stack.append((m, path + [(n, lab)], used | {e}))
        return out


def _is_catch_all(h: ast.ExceptHandler) -> bool:
    if h.type is None:
        return True
    names = []
    if isinstance(h.type, ast.Tuple):
        names = [norm(e) for e in h.type.elts]
    else:
        names = [norm(h.type)]
    return any(n in ("Exception", "BaseException") for n in names)


def eval_order(node: ast.AST) -> List[ast.AST]:
    """Sub-expressions of `node` in (approximate) evaluation order: operands before the
    operation, arguments before the call."""
    out: List[ast.AST] = []

    def go(n: ast.AST) -> None:
        if isinstance(n, (ast.FunctionDef, ast.AsyncFunctionDef, ast.ClassDef, ast.Lambda)):
            return
        if isinstance(n, ast.Call):
            go(n.func)
            for a in n.args:
                go(a)
            for k in n.keywords:
                go(k.value)
            out.append(n)
            return
        if isinstance(n, ast.Assign):
            go(n.value)
            for t in n.targets:
                go(t)
            out.append(n)
            return
        for c in ast.iter_child_nodes(n):
            go(c)
        out.append(n)

    go(node)
    return out
