"""Witness for R-C08.3 and R-C08.6 (run by hand: PYTHONPATH=/repo:/verif/witness /venv/bin/python witness/c08_codec.py).
1. A read-only property whose getter is a functools.wraps wrapper: the tracer records the innermost function, but
   get_func_in_module returned prop.fget (the wrapper) - the decoded trace names another function.
2. A decoded anonymous TypedDict is stamped with the module of typed_dict_from_dict's TypedDict(...) call, so a type and its
   (structurally equal) decoded copy encode differently."""
import functools, sys
from monkeytype.encoding import CallTraceRow, type_to_json, type_from_json
from monkeytype.tracing import CallTrace
from monkeytype.typing import get_type
def deco(f):
    @functools.wraps(f)
    def wrapper(*a, **k): return f(*a, **k)
    return wrapper
class Box:
    @property
    @deco
    def area(self): return 1
inner = Box.__dict__["area"].fget.__wrapped__
bad = 0
t = CallTrace(inner, {"self": Box}, int)
back = CallTraceRow.from_trace(t).to_trace()
print("decoded function is the traced one:", back.func is inner)
if back.func is not inner:
    print("WITNESSED: the trace decodes to", back.func, "not to the function whose code ran"); bad = 1
ty = get_type({"a": 1}, 10)
e1 = type_to_json(ty); ty2 = type_from_json(e1); e2 = type_to_json(ty2)
print("decoded copy equal:", ty2 == ty, "| same encoding:", e1 == e2)
if ty2 == ty and e1 != e2:
    print("WITNESSED: structurally equal types, different encodings"); bad = 1
print("OK" if not bad else "FAILED"); sys.exit(bad)
