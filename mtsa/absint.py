"""A small abstract interpreter over finite domains.

Used to turn a branch program (a function body or loop body whose behaviour depends on a
handful of boolean/enumerated facts) into its complete decision table *from the source*,
without executing repository code: the analysed statements are walked as syntax, values are
abstract (known constant, symbolic token, record, unknown), unknown branch conditions fork.

Domain
  K(v)      a known Python constant (bool, int, str, None, tuple of K)
  S(name)   a symbolic token; two tokens are equal iff their names are equal
  R(kind, fields)  an immutable record (e.g. an inspect.Parameter with .annotation)
  U(why)    unknown

A client supplies hooks for names, attributes and calls; effects (calls that matter) are
appended to the state's effect list by the hooks.
"""
from __future__ import annotations

import ast
import copy
from typing import Any, Callable, Dict, List, Optional, Tuple

from .index import norm, dotted
from .report import AnalysisError


class V:
    pass


class K(V):
    def __init__(self, v: Any) -> None:
        self.v = v

    def __repr__(self) -> str:
        if isinstance(self.v, frozenset):
            # canonical text: the iteration order of a set is not a property of its value
            return "K(frozenset({" + ", ".join(sorted(repr(x) for x in self.v)) + "}))"
        return f"K({self.v!r})"

    def __eq__(self, o: object) -> bool:
        return isinstance(o, K) and type(o.v) is type(self.v) and o.v == self.v

    def __hash__(self) -> int:
        if isinstance(self.v, tuple):
            return hash(("K", tuple(hash(x) for x in self.v)))  # consistent with element-wise equality
        if isinstance(self.v, frozenset):
            return hash(("K", frozenset(hash(x) for x in self.v)))
        return hash(("K", repr(self.v)))


class S(V):
    def __init__(self, name: str, truth: Optional[bool] = True) -> None:
        self.name = name
        self.truth = truth

    def __repr__(self) -> str:
        return f"S({self.name})"

    def __eq__(self, o: object) -> bool:
        return isinstance(o, S) and o.name == self.name

    def __hash__(self) -> int:
        return hash(("S", self.name))


def _walk_same_scope(fn: ast.AST):
    """the nodes of a function's own body, not those of functions / lambdas / classes nested in it"""
    todo = list(ast.iter_child_nodes(fn))
    while todo:
        x = todo.pop()
        yield x
        if not isinstance(x, (ast.FunctionDef, ast.AsyncFunctionDef, ast.Lambda, ast.ClassDef)):
            todo.extend(ast.iter_child_nodes(x))


class R(V):
    def __init__(_self, _kind: str, **fields: Any) -> None:  # noqa: N805 - `kind`/`self` may be field names
        _self.kind = _kind
        _self.fields = fields

    def replace(self, **kw: Any) -> "R":
        f = dict(self.fields)
        f.update(kw)
        return R(self.kind, **f)

    def __repr__(self) -> str:
        return f"R({self.kind},{self.fields})"

    # CPython: two code objects are equal (and hash alike) when name, flags, first line, bytecode, constants, names ...
    # agree - co_filename is NOT compared (Objects/codeobject.c, code_richcompare).  Records of kind 'code' follow that:
    # the same function body at the same lines of two different files gives *equal, not identical* code objects.
    # `ident` is the object's identity: two code objects with the same name, lines, bytecode and constants in the SAME pseudo-file
    # (the __init__ of two dataclasses with the same fields, both at `<string>` line 2) are equal as dict keys and not identical.
    NOT_COMPARED = {"code": ("co_filename", "ident")}

    def _cmp_fields(self) -> Dict[str, Any]:
        skip = R.NOT_COMPARED.get(self.kind)
        return self.fields if not skip else {k: v for k, v in self.fields.items() if k not in skip}

    def __eq__(self, o: object) -> bool:
        return isinstance(o, R) and o.kind == self.kind and o._cmp_fields() == self._cmp_fields()

    def identical(self, o: object) -> bool:
        return isinstance(o, R) and o.kind == self.kind and o.fields == self.fields

    def __hash__(self) -> int:
        return hash(("R", self.kind, tuple(sorted((k, repr(v)) for k, v in self._cmp_fields().items()))))


class U(V):
    def __init__(self, why: str = "") -> None:
        self.why = why

    def __repr__(self) -> str:
        return f"U({self.why})"

    def __eq__(self, o: object) -> bool:
        return isinstance(o, U)

    def __hash__(self) -> int:
        return hash("U")


class Ref(V):
    """A reference to a mutable object (list / dict / defaultdict) in the state's heap."""

    def __init__(self, id: int, kind: str) -> None:
        self.id = id
        self.kind = kind

    def __repr__(self) -> str:
        return f"Ref({self.kind}#{self.id})"

    def __eq__(self, o: object) -> bool:
        return isinstance(o, Ref) and o.id == self.id

    def __hash__(self) -> int:
        return hash(("Ref", self.id))


class State:
    def __init__(self) -> None:
        self.env: Dict[str, V] = {}
        self.effects: List[Tuple[Any, ...]] = []
        self.assume: Dict[str, bool] = {}
        self.term: Optional[Tuple[Any, ...]] = None  # ('return', V) | ('raise', text) | ('break',) | ('continue',)
        self.heap: Dict[int, Any] = {}  # id -> list | dict | ("dd", factory, dict)
        self._next = [0]
        self.pending: Optional[str] = None  # name of an exception raised while evaluating an expression

    def fork(self) -> "State":
        s = State()
        s.env = dict(self.env)
        s.effects = list(self.effects)
        s.assume = dict(self.assume)
        s.term = self.term
        s.heap = {k: (list(v) if isinstance(v, list) else dict(v) if isinstance(v, dict) else (v[0], v[1], dict(v[2])))
                  for k, v in self.heap.items()}
        s._next = [self._next[0]]
        s.pending = self.pending
        return s

    def alloc(self, kind: str, obj: Any) -> Ref:
        self._next[0] += 1
        self.heap[self._next[0]] = obj
        return Ref(self._next[0], kind)

    def deref(self, r: Ref) -> Any:
        return self.heap[r.id]

    def dict_of(self, r: Ref) -> Dict[Any, Any]:
        o = self.heap[r.id]
        return o[2] if isinstance(o, tuple) else o

    def freeze(self, v: Any) -> Any:
        """Immutable snapshot of a value (references replaced by their current contents)."""
        if isinstance(v, Ref):
            o = self.heap[v.id]
            if isinstance(o, list) and v.kind == "set":
                return K(frozenset(self.freeze(x) for x in o))
            if isinstance(o, list):
                return R("list", items=tuple(self.freeze(x) for x in o))
            d = o[2] if isinstance(o, tuple) else o
            if v.kind == "obj":
                return R("obj", **{str(k): self.freeze(x) for k, x in d.items()})
            return R("dict", items=tuple((self.freeze(k), self.freeze(x)) for k, x in d.items()))
        if isinstance(v, K) and isinstance(v.v, tuple):
            return K(tuple(self.freeze(x) for x in v.v))
        if isinstance(v, R):
            return R(v.kind, **{k: self.freeze(x) for k, x in v.fields.items()})
        if isinstance(v, tuple):
            return tuple(self.freeze(x) for x in v)
        return v


def truth(v: V) -> Optional[bool]:
    if isinstance(v, K):
        return bool(v.v)
    if isinstance(v, S):
        return v.truth
    if isinstance(v, R):
        if v.kind in ("list", "dict") and "items" in v.fields:
            return bool(v.fields["items"])
        if v.fields.get("__falsy__") == K(True):
            return False  # an object whose class (for a class object: metaclass) defines __bool__ / __len__ and says so
        return True
    return None


_LOCAL_FUNCS: Dict[int, ast.AST] = {}
# attributes of the exception most recently raised by a platform hook (`ModuleNotFoundError.name`, ...): exceptions travel
# as class names; a handler that binds the exception (`except E as exc`) gets them back as fields of the bound record
LAST_EXC: Dict[str, Any] = {}


def raise_exc(st: "State", _cls: str, **attrs: Any) -> None:
    if st.pending is None:
        st.pending = _cls
        LAST_EXC.clear()
        LAST_EXC.update({"cls": _cls, "attrs": attrs})


_FRAME_COUNTER = [0]
_FREE_CACHE: Dict[int, Tuple[str, ...]] = {}


def new_frame_id() -> "K":
    _FRAME_COUNTER[0] += 1
    return K(_FRAME_COUNTER[0])


def _free_names(node: ast.AST) -> Tuple[str, ...]:
    """names a def / lambda reads that are neither its parameters nor assigned in its own body"""
    k = id(node)
    if k not in _FREE_CACHE:
        a = node.args  # type: ignore[attr-defined]
        bound = {x.arg for x in a.posonlyargs + a.args + a.kwonlyargs}
        if a.vararg is not None:
            bound.add(a.vararg.arg)
        if a.kwarg is not None:
            bound.add(a.kwarg.arg)
        body = node.body if isinstance(node.body, list) else [node.body]  # type: ignore[attr-defined]
        loads: List[str] = []
        for b in body:
            for x in ast.walk(b):
                if isinstance(x, ast.Name):
                    if isinstance(x.ctx, ast.Load):
                        if x.id not in loads:
                            loads.append(x.id)
                    else:
                        bound.add(x.id)
        _FREE_CACHE[k] = tuple(n for n in loads if n not in bound)
    return _FREE_CACHE[k]


class Interp:
    """Hooks (all optional):
    on_name(name, state) -> V | None        for names not in env
    on_attr(obj V, attr, node, state) -> V | None
    on_call(call node, fname, func V|None, args [V], kwargs {str:V}, state) -> V | None
    on_subscript(obj, key, node, state) -> V | None
    """

    def __init__(
        self,
        on_name: Optional[Callable[..., Optional[V]]] = None,
        on_attr: Optional[Callable[..., Optional[V]]] = None,
        on_call: Optional[Callable[..., Optional[V]]] = None,
        on_subscript: Optional[Callable[..., Optional[V]]] = None,
        strict_stmt: bool = True,
        max_states: int = 512,
        heap: bool = False,
    ) -> None:
        self.on_name = on_name
        self.on_attr = on_attr
        self.on_call = on_call
        self.on_subscript = on_subscript
        self.strict_stmt = strict_stmt
        self.max_states = max_states
        self.heap = heap

    # -- expressions -----------------------------------------------------------
    def eval(self, e: ast.AST, st: State) -> V:
        if isinstance(e, ast.Constant):
            return K(e.value)
        if isinstance(e, ast.Name):
            if e.id in st.env:
                return st.env[e.id]
            if e.id in ("True", "False", "None"):
                return K({"True": True, "False": False, "None": None}[e.id])
            if self.on_name:
                v = self.on_name(e.id, st)
                if v is not None:
                    return v
            return U(f"name {e.id}")
        if isinstance(e, ast.Attribute):
            obj = self.eval(e.value, st)
            if isinstance(obj, R) and e.attr in obj.fields:
                return obj.fields[e.attr]
            if isinstance(obj, Ref) and obj.kind == "obj":
                d = st.deref(obj)
                if e.attr in d:
                    return d[e.attr]
            if self.on_attr:
                v = self.on_attr(obj, e.attr, e, st)
                if v is not None:
                    return v
            return U(f"attr {norm(e)}")
        if isinstance(e, ast.UnaryOp) and isinstance(e.op, ast.Not):
            t = self._truth_of(e.operand, st)
            return U("not") if t is None else K(not t)
        if isinstance(e, ast.UnaryOp) and isinstance(e.op, (ast.USub, ast.UAdd)):
            v = self.eval(e.operand, st)
            if isinstance(v, K) and isinstance(v.v, (int, float)) and not isinstance(v.v, bool):
                return K(-v.v if isinstance(e.op, ast.USub) else v.v)
            return U("unary")
        if isinstance(e, ast.BoolOp):
            is_and = isinstance(e.op, ast.And)
            last: V = K(is_and)
            for v in e.values:
                last = self.eval(v, st)
                t = self._value_truth(v, last, st)
                if t is None:
                    # the value is one of the operands; only its truthiness may still be known
                    tt = self._truth_of(e, st)
                    return U("boolop") if tt is None else K(tt)
                if is_and and not t:
                    return last
                if not is_and and t:
                    return last
            return last
        if isinstance(e, ast.Compare):
            left = self.eval(e.left, st)
            result: Optional[bool] = True
            for op, right_e in zip(e.ops, e.comparators):
                right = self.eval(right_e, st)
                if isinstance(right, Ref) and isinstance(op, (ast.In, ast.NotIn)) and not isinstance(left, U):
                    seq = self.iterate(right, st)
                    hit = seq is not None and any(x == left for x in seq)
                    r: Optional[bool] = (not hit) if isinstance(op, ast.NotIn) else hit
                else:
                    r = self._compare(op, left, right)
                if r is None:
                    key = norm(e)
                    if key in st.assume:
                        return K(st.assume[key])
                    return U(f"compare {key}")
                if not r:
                    return K(False)
                left = right
            return K(bool(result))
        if isinstance(e, ast.NamedExpr):
            v = self.eval(e.value, st)
            if st.pending is None:
                self._assign(e.target, v, st)
            return v
        if isinstance(e, ast.Lambda):
            return self._local_function(e, st)
        if isinstance(e, ast.IfExp):
            t = self._truth_of(e.test, st)
            if t is None:
                a, b = self.eval(e.body, st), self.eval(e.orelse, st)
                return a if a == b else U("ifexp")
            return self.eval(e.body if t else e.orelse, st)
        if isinstance(e, ast.Tuple):
            vals = []
            for x in e.elts:
                if isinstance(x, ast.Starred):
                    seq_t = self.iterate(self.eval(x.value, st), st)
                    if seq_t is None:
                        return U("starred")
                    vals.extend(seq_t)  # (a, *rest): the known sequence is spliced
                else:
                    vals.append(self.eval(x, st))
            return K(tuple(vals))
        if isinstance(e, ast.List):
            vals = []
            for x in e.elts:
                if isinstance(x, ast.Starred):
                    seq = self.iterate(self.eval(x.value, st), st)
                    if seq is None:
                        return U("starred")
                    vals.extend(seq)
                else:
                    vals.append(self.eval(x, st))
            if self.heap:
                return st.alloc("list", list(vals))
            return R("list", items=tuple(vals))
        if isinstance(e, ast.Call):
            fname = dotted(e.func)
            fval: Optional[V] = None
            if not isinstance(e.func, (ast.Name, ast.Attribute)):
                fval = self.eval(e.func, st)  # the callee is computed: TABLE[key](...), factory(x)(y)
            if isinstance(e.func, ast.Attribute):
                fval = self.eval(e.func.value, st)
            elif isinstance(e.func, ast.Name) and e.func.id in st.env:
                # a call through a local variable that holds a function token
                held = st.env[e.func.id]
                if isinstance(held, S) and ":" in held.name:
                    fname = held.name.split(":", 1)[1]
                    if held.name.startswith("mod:"):
                        fname = held.name[4:]
                    elif held.name.startswith("func:"):
                        fname = held.name[5:]
                fval = held
            if fname == "next" and 1 <= len(e.args) <= 2 and not e.keywords and isinstance(e.args[0], ast.GeneratorExp) and len(e.args[0].generators) == 1 \
                    and "next" not in st.env:
                # next((elt for x in seq if cond), default): the generator is consumed lazily - elements after the first
                # match are never looked at (their conditions may raise)
                ge = e.args[0]
                gen0 = ge.generators[0]
                seq_n = self.iterate(self.eval(gen0.iter, st), st)
                if seq_n is not None and st.pending is None:
                    sub_n = st.fork()
                    sub_n.effects, sub_n.heap, sub_n._next = st.effects, st.heap, st._next
                    undecided = False
                    for el in seq_n:
                        self._assign(gen0.target, el, sub_n)
                        keep: Optional[bool] = True
                        for c in gen0.ifs:
                            t_n = self._truth_of(c, sub_n)
                            if sub_n.pending is not None:
                                st.pending = sub_n.pending
                                return U("condition of the generator raised")
                            if t_n is None:
                                undecided = True
                                break
                            if not t_n:
                                keep = False
                                break
                        if undecided:
                            break
                        if keep:
                            v_n = self.eval(ge.elt, sub_n)
                            if sub_n.pending is not None:
                                st.pending = sub_n.pending
                            return v_n
                    if not undecided:
                        if len(e.args) == 2:
                            return self.eval(e.args[1], st)
                        st.pending = st.pending or "StopIteration"
                        return U("StopIteration")
            args = []
            for a in e.args:
                av = self.eval(a, st)
                if isinstance(av, R) and av.kind == "starred":
                    seq = self.iterate(av.fields["of"], st)  # *x with a known sequence is spliced
                    if seq is not None and not (isinstance(av.fields["of"], R) and av.fields["of"].kind in ("dict",)):
                        args.extend(seq)
                        continue
                args.append(av)  # *x of an unknown sequence arrives as R('starred', of=x)
            kwargs = {}
            for k in e.keywords:
                kv = self.eval(k.value, st)
                if k.arg:
                    kwargs[k.arg] = kv
                    continue
                # **mapping: a dict with constant string keys is spread into keywords
                pairs: Optional[List[Tuple[Any, Any]]] = None
                if isinstance(kv, Ref) and kv.kind in ("dict", "defaultdict"):
                    pairs = list(st.dict_of(kv).items())
                elif isinstance(kv, R) and kv.kind == "dict" and "items" in kv.fields:
                    pairs = list(kv.fields["items"])
                if pairs is not None and all(isinstance(a, K) and isinstance(a.v, str) for a, _ in pairs):
                    for a, b in pairs:
                        kwargs[a.v] = b
                else:
                    kwargs["**"] = kv
            if st.pending is not None:
                return U("an operand raised")  # the call itself never happens
            if isinstance(e.func, ast.Name) and isinstance(st.env.get(e.func.id), R) and st.env[e.func.id].kind == "localfunc":
                return self._call_local(st.env[e.func.id], args, kwargs, st)
            if fname == "len" and len(args) == 1 and not kwargs:
                a0 = args[0]
                if isinstance(a0, K) and isinstance(a0.v, (tuple, str, bytes, frozenset)):
                    return K(len(a0.v))
                if isinstance(a0, R) and a0.kind in ("list", "dict") and "items" in a0.fields:
                    return K(len(a0.fields["items"]))
            if fname == "range" and 1 <= len(args) <= 3 and not kwargs and all(isinstance(a, K) and isinstance(a.v, int) and not isinstance(a.v, bool) for a in args):
                try:
                    rng = range(*[a.v for a in args])
                except ValueError:
                    st.pending = st.pending or "ValueError"
                    return U("range() step zero")
                if len(rng) <= 4096:
                    return K(tuple(K(i) for i in rng))
            if fname in ("max", "min") and args and (not kwargs or (set(kwargs) == {"default"} and len(args) == 1)):
                cand = args
                seq1 = None
                if len(args) == 1:
                    seq1 = self.iterate(args[0], st)
                    cand = seq1 if seq1 is not None else []
                if cand and all(isinstance(x, K) and isinstance(x.v, (int, float)) and not isinstance(x.v, bool) for x in cand):
                    return K((max if fname == "max" else min)(x.v for x in cand))
                if len(args) == 1 and seq1 is not None and not seq1 and "default" in kwargs:
                    return kwargs["default"]  # max(<empty>, default=d)
            if fname == "next" and 1 <= len(args) <= 2 and isinstance(e.args[0], ast.Call) and dotted(e.args[0].func) == "iter" and len(e.args[0].args) == 1:
                seq = self.iterate(self.eval(e.args[0].args[0], st), st)
                if seq is not None:
                    if seq:
                        return seq[0]
                    if len(args) == 2:
                        return args[1]
                    st.pending = st.pending or "StopIteration"
                    return U("StopIteration")
            # a local set held by value (a set display / set comprehension): add / update / discard rebind the name
            if isinstance(fval, K) and isinstance(fval.v, frozenset) and isinstance(e.func, ast.Attribute) and isinstance(e.func.value, ast.Name) \
                    and e.func.attr in ("add", "update", "discard") and len(args) == 1 and not kwargs and e.func.value.id in st.env:
                if e.func.attr == "update":
                    seq_u = self.iterate(args[0], st)
                    if seq_u is None:
                        return U("update with an unknown iterable")
                    new_set = frozenset(fval.v | frozenset(st.freeze(x) for x in seq_u))
                elif e.func.attr == "add":
                    new_set = frozenset(fval.v | {st.freeze(args[0])})
                else:
                    new_set = frozenset(x for x in fval.v if x != st.freeze(args[0]))
                st.env[e.func.value.id] = K(new_set)
                return K(None)
            # built-in record operation: x.replace(field=value)
            if isinstance(fval, R) and isinstance(e.func, ast.Attribute) and e.func.attr == "replace" and not args:
                return fval.replace(**kwargs)
            if self.heap:
                v = self.heap_call(e, fname, fval, args, kwargs, st)
                if v is not None:
                    return v
            if self.on_call:
                v = self.on_call(e, fname, fval, args, kwargs, st)
                if v is not None:
                    return v
            if fname is not None and isinstance(e.func, (ast.Name, ast.Attribute)):
                last = fname.split(".")[-1]
                if last in _EXC_PARENTS or last in (getattr(self, "exc_parents", None) or {}) or last in ("Exception", "BaseException"):
                    # an exception object built to be raised later (`return InvalidTypeError(...)`; `raise helper(...)`)
                    return R("exc", cls=K(last), **({"message": args[0]} if args else {}))
            return U(f"call {norm(e)[:60]}")
        if isinstance(e, ast.Subscript):
            obj = self.eval(e.value, st)
            key = self.eval(e.slice, st)
            if isinstance(obj, R) and obj.kind == "nt" and isinstance(key, K) and isinstance(key.v, int):
                names_ = obj.fields["__fields__"].v
                if -len(names_) <= key.v < len(names_):
                    return obj.fields[names_[key.v]]
            if isinstance(obj, K) and isinstance(obj.v, (tuple, bytes, str)) and isinstance(key, K) and isinstance(key.v, int):
                try:
                    x = obj.v[key.v]
                    return x if isinstance(x, V) else K(x)
                except IndexError:
                    st.effects.append(("IndexError", norm(e)))
                    st.pending = st.pending or "IndexError"
                    return U("index")
            if isinstance(obj, K) and isinstance(obj.v, (tuple, bytes, str)) and isinstance(key, R) and key.kind == "slice":
                f = key.fields
                if all(isinstance(f[x], K) for x in ("lower", "upper", "step")):
                    try:
                        return K(obj.v[slice(f["lower"].v, f["upper"].v, f["step"].v)])
                    except Exception:
                        return U("slice")
            if isinstance(obj, Ref) and not isinstance(key, U):
                o = st.deref(obj)
                if isinstance(o, list):
                    if isinstance(key, K) and isinstance(key.v, int):
                        try:
                            return o[key.v]
                        except IndexError:
                            st.effects.append(("IndexError", norm(e)))
                            st.pending = st.pending or "IndexError"
                            return U("IndexError")
                    if isinstance(key, R) and key.kind == "slice" and all(isinstance(key.fields[x], K) for x in ("lower", "upper", "step")):
                        f = key.fields
                        return st.alloc("list", o[slice(f["lower"].v, f["upper"].v, f["step"].v)])
                    return U("list index")
                d = st.dict_of(obj)
                if key in d:
                    return d[key]
                if isinstance(o, tuple):  # defaultdict: create the missing entry
                    nv = self.make_default(o[1], st)
                    d[key] = nv
                    return nv
                st.effects.append(("KeyError", norm(e)))
                st.pending = st.pending or "KeyError"
                return U("KeyError")
            if isinstance(obj, R) and obj.kind == "dict" and not isinstance(key, U):
                for k, v in obj.fields["items"]:
                    if k == key:
                        return v
                st.effects.append(("KeyError", norm(e)))
                st.pending = st.pending or "KeyError"
                return U("KeyError")
            if self.on_subscript:
                v = self.on_subscript(obj, key, e, st)
                if v is not None:
                    return v
            if isinstance(obj, R) and obj.kind in ("elem", "proj") and isinstance(key, K):
                return R("proj", of=obj, index=key)
            return U(f"subscript {norm(e)}")
        if isinstance(e, ast.JoinedStr):
            for part in e.values:  # every replacement field is evaluated (it may raise); the text itself is not modelled here
                if isinstance(part, ast.FormattedValue):
                    self.eval(part.value, st)
                    if st.pending is not None:
                        return U("f-string field raised")
            return U("fstring")
        if isinstance(e, (ast.GeneratorExp, ast.ListComp, ast.SetComp, ast.DictComp)):
            return self.comprehension(e, st)
        if isinstance(e, ast.Starred):
            return R("starred", of=self.eval(e.value, st))
        if isinstance(e, ast.Yield):
            v = self.eval(e.value, st) if e.value is not None else K(None)
            if st.pending is None and getattr(self, "yield_handler", None) is not None:
                # a @contextmanager generator being interpreted for a `with` statement: the body of the with runs here
                self.yield_handler(v, st)
                return K(None)
            if st.pending is None:
                st.effects.append(("yield", st.freeze(v), v))  # [2]: the value itself (an object of the heap keeps its identity)
            return U("sent value")
        if isinstance(e, ast.YieldFrom):
            src = self.eval(e.value, st)
            seq_y = self.iterate(src, st) if st.pending is None else None
            if seq_y is not None and getattr(self, "yield_handler", None) is None:
                # delegation to a sequence whose elements are known: one yield per element, in order
                for el in seq_y:
                    st.effects.append(("yield", st.freeze(el), el))
                return K(None)
            st.effects.append(("yield-from", st.freeze(src)))
            return U("yield from")
        if isinstance(e, ast.Dict):
            pairs: List[Tuple[V, V]] = []
            for k, v in zip(e.keys, e.values):
                if k is not None:
                    kv, vv = self.eval(k, st), self.eval(v, st)
                    pairs = [(a, b) for a, b in pairs if a != kv] + [(kv, vv)]
                    continue
                src = self.eval(v, st)  # {**mapping}
                if isinstance(src, Ref) and src.kind in ("dict", "defaultdict"):
                    more = list(st.dict_of(src).items())
                elif isinstance(src, R) and src.kind == "dict" and "items" in src.fields:
                    more = list(src.fields["items"])
                else:
                    return U("dict unpack")
                for a, b in more:
                    pairs = [(x, y) for x, y in pairs if x != a] + [(a, b)]
            if self.heap:
                return st.alloc("dict", dict(pairs))
            return R("dict", items=tuple(pairs))
        if isinstance(e, ast.Slice):
            return R(
                "slice",
                lower=self.eval(e.lower, st) if e.lower is not None else K(None),
                upper=self.eval(e.upper, st) if e.upper is not None else K(None),
                step=self.eval(e.step, st) if e.step is not None else K(None),
            )
        if isinstance(e, ast.BinOp):
            l, r = self.eval(e.left, st), self.eval(e.right, st)
            if isinstance(l, K) and isinstance(r, K):
                num = lambda x: isinstance(x, (int, float)) and not isinstance(x, bool)  # noqa: E731
                try:
                    if isinstance(e.op, ast.Add):
                        return K(l.v + r.v)
                    if isinstance(e.op, ast.Sub):
                        return K(l.v - r.v)
                    if num(l.v) and num(r.v):
                        if isinstance(e.op, ast.Mult):
                            return K(l.v * r.v)
                        if isinstance(e.op, ast.FloorDiv):
                            return K(l.v // r.v)
                        if isinstance(e.op, ast.Mod):
                            return K(l.v % r.v)
                        if isinstance(e.op, ast.BitOr) and isinstance(l.v, int) and isinstance(r.v, int):
                            return K(l.v | r.v)
                        if isinstance(e.op, ast.BitAnd) and isinstance(l.v, int) and isinstance(r.v, int):
                            return K(l.v & r.v)
                    if isinstance(e.op, ast.Mult) and isinstance(l.v, str) and isinstance(r.v, int) and not isinstance(r.v, bool):
                        return K(l.v * r.v)
                except Exception:
                    pass
            def _as_set(x: V) -> Optional[List[V]]:
                if isinstance(x, Ref) and x.kind == "set" and isinstance(st.deref(x), list):
                    return list(st.deref(x))
                if isinstance(x, K) and isinstance(x.v, frozenset):
                    return list(x.v)
                return None
            if isinstance(e.op, (ast.Sub, ast.BitOr, ast.BitAnd, ast.BitXor)) and (isinstance(l, Ref) or isinstance(r, Ref)):
                # set algebra on sets of the scenario's heap: a new set (members in the order of the operands)
                a_s, b_s = _as_set(l), _as_set(r)
                if a_s is not None and b_s is not None:
                    if isinstance(e.op, ast.Sub):
                        res_m = [x for x in a_s if x not in b_s]
                    elif isinstance(e.op, ast.BitAnd):
                        res_m = [x for x in a_s if x in b_s]
                    elif isinstance(e.op, ast.BitOr):
                        res_m = a_s + [x for x in b_s if x not in a_s]
                    else:
                        res_m = [x for x in a_s if x not in b_s] + [x for x in b_s if x not in a_s]
                    return st.alloc("set", res_m)
            if isinstance(e.op, ast.Add):
                # list + list -> a new list
                sl, sr = (self.iterate(x, st) if isinstance(x, (Ref,)) or (isinstance(x, R) and x.kind == "list") else None for x in (l, r))
                if sl is not None and sr is not None and not (isinstance(l, Ref) and l.kind != "list") and not (isinstance(r, Ref) and r.kind != "list"):
                    return st.alloc("list", list(sl) + list(sr)) if self.heap else R("list", items=tuple(sl) + tuple(sr))
            return U("binop")
        return U(type(e).__name__)

    # ---- functions defined inside the interpreted function (def / lambda) ----------------------------
    def _local_function(self, node: ast.AST, st: State) -> V:
        _LOCAL_FUNCS[id(node)] = node  # process-wide: a lambda stored in a module constant is evaluated by another interpreter
        # a closure: the bindings of its free variables at definition time travel with it; they are used when the function is
        # called from another activation than the one that defined it (returned from a decorator, stored in a table)
        cap = tuple((n, st.env[n]) for n in _free_names(node) if n in st.env)
        return R("localfunc", node=K(id(node)), frame=st.env.get("__frame__", K(0)), cap=K(cap))

    def _call_local(self, f: R, args: List[V], kwargs: Dict[str, V], st: State) -> V:
        memo = f.fields.get("memo")
        if isinstance(memo, Ref):
            # functools.lru_cache on a local function: keyed by the arguments (hash/== of the platform: records of kind
            # 'code' compare without co_filename), filled only by calls that returned
            table = st.dict_of(memo)
            mk = K((K(tuple(st.freeze(a) for a in args)), K(tuple(sorted((n, repr(st.freeze(v))) for n, v in kwargs.items())))))
            if mk in table:
                st.effects.append(("lru-hit", "local"))
                return table[mk]
            before = st.pending
            v_m = self._call_local(f.replace(memo=K(None)), args, kwargs, st)
            if st.pending is None and before is None and not isinstance(v_m, U):
                table[mk] = v_m
            return v_m
        node = _LOCAL_FUNCS.get(f.fields["node"].v)
        if node is None:
            return U("unknown local function")
        a = node.args
        params = [x.arg for x in a.posonlyargs + a.args]
        sub = State()
        if "frame" in f.fields and f.fields["frame"] != st.env.get("__frame__", K(0)) and isinstance(f.fields.get("cap"), K):
            # called outside its defining activation: globals of the process + the captured free variables
            sub.env = {k: v for k, v in st.env.items() if k.startswith("__global__:")}
            for n_c, v_c in f.fields["cap"].v:
                sub.env[n_c] = v_c
        else:
            sub.env = dict(st.env)  # the enclosing scope as it is at call time
        _FRAME_COUNTER[0] += 1
        sub.env["__frame__"] = K(_FRAME_COUNTER[0])
        sub.effects, sub.assume, sub.heap, sub._next = st.effects, st.assume, st.heap, st._next
        for p_, v in zip(params, args):
            sub.env[p_] = v
        if a.vararg is not None:
            sub.env[a.vararg.arg] = K(tuple(args[len(params):]))
        for k, v in kwargs.items():
            sub.env[k] = v
        pos = a.posonlyargs + a.args
        for p_, d in zip(pos[len(pos) - len(a.defaults):], a.defaults):
            if p_.arg not in kwargs and params.index(p_.arg) >= len(args):
                sub.env[p_.arg] = self.eval(d, sub)
        for p_, d in zip(a.kwonlyargs, a.kw_defaults):
            if d is not None and p_.arg not in kwargs:
                sub.env[p_.arg] = self.eval(d, sub)
        if isinstance(node, ast.Lambda):
            v = self.eval(node.body, sub)
            if sub.pending is not None:
                st.pending = st.pending or sub.pending
            for gk, gv in sub.env.items():
                if gk.startswith("__global__:") and gk not in st.env:
                    st.env[gk] = gv
            return v
        is_gen = any(isinstance(x, (ast.Yield, ast.YieldFrom)) for x in _walk_same_scope(node))
        mark = len(sub.effects)
        outs = self.run(node.body, sub)
        for o_ in outs:
            for gk, gv in o_.env.items():
                if gk.startswith("__global__:") and gk not in st.env:
                    st.env[gk] = gv
        if is_gen:
            # a local GENERATOR function: interpreted eagerly, what it yields is the sequence its caller walks
            if len(outs) != 1 or any(e_[0] == "yield-from" for e_ in sub.effects[mark:]):
                return U("local generator forked")
            o_g = outs[0]
            if o_g.term is not None and o_g.term[0] == "raise":
                st.pending = st.pending or str(o_g.term[1])
                return U("raises")
            ys = [(e_[2] if len(e_) > 2 and isinstance(e_[2], Ref) and e_[2].kind == "obj" else e_[1]) for e_ in sub.effects[mark:] if e_[0] == "yield"]
            sub.effects[mark:] = [e_ for e_ in sub.effects[mark:] if e_[0] != "yield"]
            return K(tuple(ys))
        if len(outs) != 1:
            vals = [o.term[1] if o.term and o.term[0] == "return" else K(None) for o in outs]
            return vals[0] if vals and all(v == vals[0] for v in vals) else U("local function forked")
        o = outs[0]
        if o.term is not None and o.term[0] == "raise":
            st.pending = st.pending or str(o.term[1])
            return U("raises")
        return o.term[1] if o.term is not None and o.term[0] == "return" else K(None)

    def iterate(self, it: V, st: State) -> Optional[List[V]]:
        """The concrete element sequence of an iterable, if it is known."""
        if isinstance(it, K) and isinstance(it.v, tuple):
            return [x if isinstance(x, V) else K(x) for x in it.v]
        if isinstance(it, K) and isinstance(it.v, frozenset):
            return sorted(it.v, key=repr)
        if isinstance(it, R) and it.kind == "list":
            return list(it.fields["items"])
        if isinstance(it, R) and it.kind == "nt":
            return [it.fields[n] for n in it.fields["__fields__"].v]
        if isinstance(it, R) and it.kind == "dict":
            return [k for k, _ in it.fields["items"]]
        if isinstance(it, R) and it.kind == "dict_items":
            return [K((k, v)) for k, v in it.fields["items"]]
        if isinstance(it, Ref):
            o = st.deref(it)
            if isinstance(o, list):
                return list(o)
            return list(st.dict_of(it).keys())
        if isinstance(it, R) and "elems" in it.fields and isinstance(it.fields["elems"], K) and isinstance(it.fields["elems"].v, tuple):
            return list(it.fields["elems"].v)  # an abstract container whose elements the scenario spells out
        return None

    def make_default(self, factory: str, st: State) -> V:
        if factory == "list":
            return st.alloc("list", [])
        if factory == "dict":
            return st.alloc("dict", {})
        if factory == "set":
            return st.alloc("set", [])
        if factory == "int":
            return K(0)
        hook = getattr(self, "on_default_factory", None)
        if hook is not None:
            v_h = hook(factory, st)
            if v_h is not None:
                return v_h
        return U("default factory " + factory)

    def heap_call(self, e: ast.Call, fname: Optional[str], fval: Optional[V], args: List[V], kwargs: Dict[str, V], st: State) -> Optional[V]:
        meth = e.func.attr if isinstance(e.func, ast.Attribute) else None
        tail = (fname or "").split(".")[-1]
        if isinstance(fval, Ref) and meth is not None:
            o = st.deref(fval)
            if isinstance(o, list) and fval.kind == "set":
                if meth == "add" and len(args) == 1:
                    if args[0] not in o:
                        o.append(args[0])
                    return K(None)
                if meth == "update" and len(args) == 1:
                    seq = self.iterate(args[0], st)
                    if seq is None:
                        return U("update with unknown iterable")
                    for x in seq:
                        if x not in o:
                            o.append(x)
                    return K(None)
                if meth in ("difference", "intersection", "union", "symmetric_difference") and len(args) == 1:
                    other = self.iterate(args[0], st)
                    if other is None:
                        return U(meth + " with unknown iterable")
                    if meth == "difference":
                        res_s = [x for x in o if x not in other]
                    elif meth == "intersection":
                        res_s = [x for x in o if x in other]
                    elif meth == "union":
                        res_s = list(o) + [x for x in other if x not in o]
                    else:
                        res_s = [x for x in o if x not in other] + [x for x in other if x not in o]
                    return st.alloc("set", res_s)
                if meth == "discard" and len(args) == 1:
                    if args[0] in o:
                        o.remove(args[0])
                    return K(None)
                if meth == "copy":
                    return st.alloc("set", list(o))
                return None
            if isinstance(o, list):
                if meth == "pop" and len(args) <= 1:
                    idx = args[0].v if args and isinstance(args[0], K) else -1
                    try:
                        return o.pop(idx)
                    except IndexError:
                        st.pending = st.pending or "IndexError"
                        return U("pop from empty list")
                if meth == "append" and len(args) == 1:
                    o.append(args[0])
                    return K(None)
                if meth == "extend" and len(args) == 1:
                    seq = self.iterate(args[0], st)
                    if seq is None:
                        return U("extend with unknown iterable")
                    o.extend(seq)
                    return K(None)
                if meth == "copy":
                    return st.alloc("list", list(o))
                return None
            d = st.dict_of(fval)
            if meth == "items" and not args:
                return K(tuple(K((k, v)) for k, v in d.items()))
            if meth == "keys" and not args:
                return K(tuple(d.keys()))
            if meth == "values" and not args:
                return K(tuple(d.values()))
            if meth == "get" and args:
                return d.get(args[0], args[1] if len(args) > 1 else K(None))
            if meth == "setdefault" and len(args) == 2:
                return d.setdefault(args[0], args[1])
            if meth == "pop" and args:
                if args[0] in d:
                    return d.pop(args[0])
                if len(args) > 1:
                    return args[1]
                st.pending = st.pending or "KeyError"
                return U("KeyError")
            if meth == "move_to_end" and args:
                if args[0] in d:
                    last = not ("last" in kwargs and kwargs["last"] == K(False)) and not (len(args) > 1 and args[1] == K(False))
                    v0 = d.pop(args[0])
                    if last:
                        d[args[0]] = v0
                    else:
                        rest = list(d.items())
                        d.clear()
                        d[args[0]] = v0
                        d.update(rest)
                    return K(None)
                st.pending = st.pending or "KeyError"
                return U("KeyError")
            if meth == "popitem":
                if not d:
                    st.pending = st.pending or "KeyError"
                    return U("KeyError")
                first = ("last" in kwargs and kwargs["last"] == K(False)) or (args and args[0] == K(False))
                k0 = next(iter(d)) if first else list(d)[-1]
                return K((k0, d.pop(k0)))
            if meth == "clear" and not args:
                d.clear()
                return K(None)
            if meth == "copy" and not args:
                return st.alloc("dict", dict(d))
            if meth == "update" and len(args) <= 1:
                # d.update(other) / d.update(k=v, ...) / both: the positional mapping first, then the keywords (as CPython does)
                if args:
                    a0 = args[0]
                    if isinstance(a0, Ref) and a0.kind in ("dict", "defaultdict"):
                        d.update(st.dict_of(a0))
                    elif isinstance(a0, R) and a0.kind == "dict" and "items" in a0.fields:
                        d.update(dict(a0.fields["items"]))
                    else:
                        return None
                for k_u, v_u in kwargs.items():
                    d[K(k_u)] = v_u
                return K(None)
            if meth == "isdisjoint":
                return None
            return None
        if isinstance(fval, R) and fval.kind == "dict" and meth == "get" and args:
            for k, v in fval.fields["items"]:
                if k == args[0]:
                    return v
            return args[1] if len(args) > 1 else K(None)
        if isinstance(fval, R) and fval.kind == "dict" and meth in ("items", "keys", "values") and not args:
            it = fval.fields["items"]
            if meth == "items":
                return K(tuple(K((k, v)) for k, v in it))
            return K(tuple(k for k, _ in it)) if meth == "keys" else K(tuple(v for _, v in it))
        if fname is None:
            return None
        if tail in ("OrderedDict", "WeakKeyDictionary", "WeakValueDictionary", "Counter") and not args and not kwargs:
            return st.alloc("dict", {})
        if tail == "defaultdict" and len(args) <= 2:
            fac = args[0].name.split(":")[-1] if args and isinstance(args[0], S) else "none"
            init: Dict[Any, Any] = {}
            if len(args) == 2:
                a1 = args[1]
                if isinstance(a1, Ref) and a1.kind in ("dict", "defaultdict"):
                    init = dict(st.dict_of(a1))
                elif isinstance(a1, R) and a1.kind == "dict" and "items" in a1.fields:
                    init = dict(a1.fields["items"])
                else:
                    return None
            return st.alloc("defaultdict", ("dd", fac, init))
        if fname == "len" and len(args) == 1 and isinstance(args[0], Ref):
            o = st.deref(args[0])
            return K(len(o) if isinstance(o, list) else len(st.dict_of(args[0])))
        if fname in ("list", "tuple") and len(args) == 1:
            seq = self.iterate(args[0], st)
            if seq is not None:
                return st.alloc("list", list(seq)) if fname == "list" else K(tuple(seq))
            return None
        if fname == "dict" and not args and not kwargs:
            return st.alloc("dict", {})
        if fname == "dict" and len(args) == 1 and not kwargs:
            a0 = args[0]
            if isinstance(a0, Ref) and a0.kind in ("dict", "defaultdict"):
                return st.alloc("dict", dict(st.dict_of(a0)))  # a copy
            if isinstance(a0, R) and a0.kind == "dict" and "items" in a0.fields:
                return st.alloc("dict", dict(a0.fields["items"]))
            seq = self.iterate(a0, st)
            if seq is not None and all(isinstance(x, K) and isinstance(x.v, tuple) and len(x.v) == 2 for x in seq):
                return st.alloc("dict", {x.v[0]: x.v[1] for x in seq})
            return None
        if fname == "set" and len(args) <= 1:
            seq = self.iterate(args[0], st) if args else []
            if seq is not None:
                out_s: List[V] = []
                for x in seq:
                    if x not in out_s:
                        out_s.append(x)
                return st.alloc("set", out_s)
            return None
        if fname == "enumerate" and 1 <= len(args) <= 2:
            seq = self.iterate(args[0], st)
            sv = args[1] if len(args) == 2 else kwargs.get("start", K(0))
            if not (isinstance(sv, K) and isinstance(sv.v, int)):
                return None
            start = sv.v
            if seq is not None:
                return K(tuple(K((K(i + start), x)) for i, x in enumerate(seq)))
            return None
        if fname in ("chain", "itertools.chain"):
            out: List[V] = []
            for a in args:
                seq = self.iterate(a, st)
                if seq is None:
                    return U("chain of unknown iterable")
                out.extend(seq)
            return K(tuple(out))
        if fname in ("chain.from_iterable", "itertools.chain.from_iterable") and len(args) == 1:
            outer = self.iterate(args[0], st)
            if outer is None:
                return U("chain.from_iterable of unknown iterable")
            out2: List[V] = []
            for a in outer:
                seq = self.iterate(a, st)
                if seq is None:
                    return U("chain.from_iterable of unknown iterable")
                out2.extend(seq)
            return K(tuple(out2))
        return None

    def comprehension(self, e: ast.AST, st: State) -> V:
        sub_states: List[State] = []
        v = self._comprehension(e, st, sub_states)
        for sub in sub_states:
            if sub.pending is not None and st.pending is None:
                st.pending = sub.pending
        return v

    def _comprehension(self, e: ast.AST, st: State, sub_states: List[State]) -> V:
        """A comprehension over a concrete tuple/list/dict record is unrolled; over anything else it
        becomes one symbolic value R('comp', ...) whose element expression was evaluated once with the
        target bound to R('elem', of=<iterable>) - "for every element"."""
        kind = {ast.GeneratorExp: "gen", ast.ListComp: "list", ast.SetComp: "set", ast.DictComp: "dict"}[type(e)]
        gens = e.generators  # type: ignore[attr-defined]
        if len(gens) != 1:
            # several generators: unrolled when every iterable is a concrete sequence
            sub = st.fork()
            sub.effects = st.effects
            sub.heap = st.heap
            sub._next = st._next
            sub_states.append(sub)
            out_n: List[Any] = []

            def rec(i: int) -> bool:
                if i == len(gens):
                    if kind == "dict":
                        out_n.append((self.eval(e.key, sub), self.eval(e.value, sub)))  # type: ignore[attr-defined]
                    else:
                        out_n.append(self.eval(e.elt, sub))  # type: ignore[attr-defined]
                    return True
                seq = self.iterate(self.eval(gens[i].iter, sub), sub)
                if seq is None:
                    return False
                for el in seq:
                    self._assign(gens[i].target, el, sub)
                    keep = True
                    for c in gens[i].ifs:
                        t = self._truth_of(c, sub)
                        if t is None:
                            return False
                        keep = keep and t
                    if keep and not rec(i + 1):
                        return False
                return True

            if not rec(0):
                return U("nested comprehension over an unknown iterable")
            if kind == "dict":
                return st.alloc("dict", dict(out_n)) if self.heap else R("dict", items=tuple(out_n))
            if kind == "set":
                return K(frozenset(out_n))
            if kind == "gen":
                return K(tuple(out_n))
            return st.alloc("list", list(out_n)) if self.heap else R("list", items=tuple(out_n))
        gen = gens[0]
        it = self.eval(gen.iter, st)
        sub = st.fork()
        sub.effects = st.effects
        sub.heap = st.heap
        sub._next = st._next
        sub_states.append(sub)
        concrete: Optional[List[V]] = self.iterate(it, st)
        if concrete is not None:
            out: List[Any] = []
            for el in concrete:
                self._assign(gen.target, el, sub)
                keep = True
                for c in gen.ifs:
                    t = self._truth_of(c, sub)
                    if t is None:
                        return U("comprehension filter undecided")
                    keep = keep and t
                if not keep:
                    continue
                if kind == "dict":
                    out.append((self.eval(e.key, sub), self.eval(e.value, sub)))  # type: ignore[attr-defined]
                else:
                    out.append(self.eval(e.elt, sub))  # type: ignore[attr-defined]
            if kind == "dict":
                return st.alloc("dict", dict(out)) if self.heap else R("dict", items=tuple(out))
            if kind == "set":
                return K(frozenset(out))
            if kind == "gen":
                return K(tuple(out))
            return st.alloc("list", list(out)) if self.heap else R("list", items=tuple(out))
        elem = R("elem", of=it)
        st.effects.append(("foreach", norm(gen.iter), it))
        self._assign(gen.target, elem, sub)
        ifs = tuple(self.eval(c, sub) for c in gen.ifs)
        if kind == "dict":
            return R("comp", ckind=K(kind), key=self.eval(e.key, sub), elt=self.eval(e.value, sub), over=it, ifs=ifs)  # type: ignore[attr-defined]
        return R("comp", ckind=K(kind), elt=self.eval(e.elt, sub), over=it, ifs=ifs)  # type: ignore[attr-defined]

    def _compare(self, op: ast.cmpop, a: V, b: V) -> Optional[bool]:
        if isinstance(op, (ast.Is, ast.Eq, ast.IsNot, ast.NotEq)):
            neg = isinstance(op, (ast.IsNot, ast.NotEq))
            if isinstance(a, U) or isinstance(b, U):
                return None
            if isinstance(a, S) and isinstance(b, S):
                r = a.name == b.name
            elif isinstance(a, K) and isinstance(b, K):
                r = a == b
            elif isinstance(a, R) and isinstance(b, R):
                if isinstance(op, (ast.Is, ast.IsNot)) and a.kind in R.NOT_COMPARED:
                    r = a.identical(b)
                elif a == b:
                    r = True
                elif isinstance(op, (ast.Eq, ast.NotEq)) and (a.kind != b.kind or a.kind in ("val",)):
                    return None  # == may be user-defined
                else:
                    r = False  # structurally different records denote different objects
            else:
                r = False  # values of different sorts are distinct
            return (not r) if neg else r
        if isinstance(op, (ast.In, ast.NotIn)):
            neg = isinstance(op, ast.NotIn)
            if isinstance(b, R) and b.kind == "dict" and not isinstance(a, U):
                r = any(k == a for k, _ in b.fields["items"])
                return (not r) if neg else r
            if isinstance(a, K) and isinstance(b, K) and isinstance(a.v, str) and isinstance(b.v, str):
                return (a.v not in b.v) if neg else (a.v in b.v)
            if isinstance(b, R) and b.kind == "list" and not isinstance(a, U):
                r = any(x == a for x in b.fields["items"])
                return (not r) if neg else r
            if isinstance(b, K) and isinstance(b.v, (tuple, frozenset)) and not isinstance(a, U):
                if any(isinstance(x, U) for x in b.v):
                    return None
                r = any(self._compare(ast.Eq(), a, x if isinstance(x, V) else K(x)) for x in b.v)
                return (not r) if neg else r
            return None
        if isinstance(a, K) and isinstance(b, K):
            try:
                if isinstance(op, ast.Lt):
                    return a.v < b.v
                if isinstance(op, ast.LtE):
                    return a.v <= b.v
                if isinstance(op, ast.Gt):
                    return a.v > b.v
                if isinstance(op, ast.GtE):
                    return a.v >= b.v
            except Exception:
                return None
        return None

    def _value_truth(self, e: ast.AST, v: V, st: State) -> Optional[bool]:
        if isinstance(v, Ref):
            o = st.deref(v)
            return bool(o) if isinstance(o, list) else bool(st.dict_of(v))
        t = truth(v)
        if t is None:
            key = norm(e)
            if key in st.assume:
                return st.assume[key]
        return t

    def _truth_of(self, e: ast.AST, st: State) -> Optional[bool]:
        if isinstance(e, ast.UnaryOp) and isinstance(e.op, ast.Not):
            t = self._truth_of(e.operand, st)
            return None if t is None else not t
        if isinstance(e, ast.BoolOp):
            ts = [self._truth_of(v, st) for v in e.values]
            if isinstance(e.op, ast.And):
                if any(t is False for t in ts):
                    return False
                return True if all(t is True for t in ts) else None
            if any(t is True for t in ts):
                return True
            return False if all(t is False for t in ts) else None
        return self._value_truth(e, self.eval(e, st), st)

    # -- branching -------------------------------------------------------------
    def branch(self, e: ast.AST, st: State) -> List[Tuple[State, bool]]:
        """Evaluate a condition with short-circuit semantics, forking on unknown atoms."""
        if isinstance(e, ast.UnaryOp) and isinstance(e.op, ast.Not):
            return [(s, not b) for s, b in self.branch(e.operand, st)]
        if isinstance(e, ast.BoolOp):
            is_and = isinstance(e.op, ast.And)
            cur: List[Tuple[State, bool]] = [(st, is_and)]
            for v in e.values:
                nxt: List[Tuple[State, bool]] = []
                for s, b in cur:
                    if b != is_and:  # already decided
                        nxt.append((s, b))
                    else:
                        nxt.extend(self.branch(v, s))
                cur = nxt
            return cur
        val = self.eval(e, st)  # evaluates the atom (and records its effects) exactly once
        if st.pending is not None:
            return [(st, False)]  # the atom raised: the caller turns the pending exception into the outcome
        t = self._value_truth(e, val, st)
        if t is not None:
            return [(st, t)]
        key = norm(e)
        a, b = st, st.fork()
        a.assume[key] = True
        b.assume[key] = False
        return [(a, True), (b, False)]

    # -- statements ------------------------------------------------------------
    def run(self, stmts: List[ast.stmt], st: State) -> List[State]:
        states = [st]
        for s in stmts:
            nxt: List[State] = []
            for x in states:
                if x.term is not None:
                    nxt.append(x)
                else:
                    for y in self.stmt(s, x):
                        if y.pending is not None:
                            y.term = ("raise", y.pending)
                            y.pending = None
                        nxt.append(y)
            states = nxt
            if len(states) > self.max_states:
                raise AnalysisError(f"abstract interpretation: more than {self.max_states} states")
        return states

    def _assign(self, target: ast.AST, v: V, st: State) -> None:
        if isinstance(target, ast.Name):
            st.env[target.id] = v
            for k in [k for k in st.assume if _mentions(k, target.id)]:
                del st.assume[k]
        elif isinstance(target, (ast.Tuple, ast.List)) and any(isinstance(t, ast.Starred) for t in target.elts):
            items: Optional[List[Any]] = None
            if isinstance(v, K) and isinstance(v.v, tuple):
                items = [x if isinstance(x, V) else K(x) for x in v.v]
            elif isinstance(v, Ref) and isinstance(st.deref(v), list) and v.kind != "set":
                items = list(st.deref(v))
            elif isinstance(v, R) and v.kind == "list" and "items" in v.fields:
                items = list(v.fields["items"])
            si = next(i for i, t in enumerate(target.elts) if isinstance(t, ast.Starred))
            after = len(target.elts) - si - 1
            if items is None or len(items) < si + after:
                if items is not None:
                    st.pending = st.pending or "ValueError"
                for t in target.elts:
                    self._assign(t.value if isinstance(t, ast.Starred) else t, U("unpack"), st)
            else:
                for t, x in zip(target.elts[:si], items[:si]):
                    self._assign(t, x, st)
                mid = items[si:len(items) - after]
                self._assign(target.elts[si].value, st.alloc("list", list(mid)) if self.heap else R("list", items=tuple(mid)), st)
                for t, x in zip(target.elts[si + 1:], items[len(items) - after:]):
                    self._assign(t, x, st)
        elif isinstance(target, (ast.Tuple, ast.List)):
            if isinstance(v, R) and v.kind == "nt" and len(v.fields["__fields__"].v) == len(target.elts):
                for t, n in zip(target.elts, v.fields["__fields__"].v):
                    self._assign(t, v.fields[n], st)
            elif isinstance(v, K) and isinstance(v.v, tuple) and len(v.v) == len(target.elts):
                for t, x in zip(target.elts, v.v):
                    self._assign(t, x if isinstance(x, V) else K(x), st)
            elif isinstance(v, R) and v.kind == "elem":
                for i, t in enumerate(target.elts):
                    self._assign(t, R("proj", of=v, index=K(i)), st)
            elif isinstance(v, Ref) and v.kind != "set" and isinstance(st.deref(v), list) and len(st.deref(v)) == len(target.elts):
                for t, x in zip(target.elts, list(st.deref(v))):  # a, b = <a list built by the code>
                    self._assign(t, x, st)
            elif isinstance(v, R) and v.kind == "list" and "items" in v.fields and len(v.fields["items"]) == len(target.elts):
                for t, x in zip(target.elts, v.fields["items"]):
                    self._assign(t, x, st)
            else:
                for t in target.elts:
                    self._assign(t, U("unpack"), st)
        elif isinstance(target, ast.Attribute):
            obj = self.eval(target.value, st)
            if isinstance(obj, Ref) and obj.kind == "obj":
                st.deref(obj)[target.attr] = v
                return
            st.effects.append(("setattr", norm(target.value), target.attr, v, obj))
            if isinstance(obj, R) and isinstance(target.value, ast.Name):
                st.env[target.value.id] = obj.replace(**{target.attr: v})
        elif isinstance(target, ast.Subscript):
            obj = self.eval(target.value, st)
            key = self.eval(target.slice, st)
            if isinstance(obj, Ref):
                o = st.deref(obj)
                if isinstance(o, list):
                    if isinstance(key, K) and isinstance(key.v, int) and -len(o) <= key.v < len(o):
                        o[key.v] = v
                    else:
                        st.effects.append(("IndexError", norm(target)))
                else:
                    st.dict_of(obj)[key] = v
                return
            st.effects.append(("setitem", norm(target.value), key, v))
            if isinstance(obj, R) and obj.kind == "dict" and isinstance(target.value, ast.Name):
                items = tuple((k, x) for k, x in obj.fields["items"] if k != key) + ((key, v),)
                st.env[target.value.id] = R("dict", items=items)
        else:
            raise AnalysisError(f"unsupported assignment target {norm(target)}")

    exc_parents: Dict[str, str] = {}

    def _handler_for(self, t: ast.Try, name: str) -> Optional[ast.ExceptHandler]:
        for h in t.handlers:
            if any(exc_is(name, hn, self.exc_parents) for hn in _handler_names(h)):
                return h
        return None

    def stmt(self, s: ast.stmt, st: State) -> List[State]:
        if isinstance(s, ast.Assign):
            v = self.eval(s.value, st)
            if st.pending is not None:
                return [st]  # the right-hand side raised: nothing is bound
            for t in s.targets:
                self._assign(t, v, st)
            return [st]
        if isinstance(s, ast.AnnAssign):
            if s.value is not None:
                v = self.eval(s.value, st)
                if st.pending is not None:
                    return [st]
                self._assign(s.target, v, st)
            return [st]
        if isinstance(s, ast.AugAssign):
            heap_target = False
            if isinstance(s.target, (ast.Attribute, ast.Subscript)) and self.heap:
                # obj.attr += v / table[k] += v on an object of the scenario's heap: read, combine, write back
                holder = self.eval(s.target.value, st)
                heap_target = isinstance(holder, Ref) and (holder.kind == "obj" or isinstance(s.target, ast.Subscript))
            if isinstance(s.target, ast.Name) or heap_target:
                load = copy.copy(s.target)
                load.ctx = ast.Load()
                cur = self.eval(load, st)
            else:
                cur = U("aug")
            rhs = self.eval(s.value, st)
            new: V = U("augassign")
            if isinstance(cur, K) and isinstance(rhs, K) and isinstance(s.op, ast.Add):
                try:
                    new = K(cur.v + rhs.v)
                except Exception:
                    new = U("augassign")
            if isinstance(cur, Ref) and isinstance(s.op, ast.Add) and isinstance(st.deref(cur), list) and cur.kind == "list":
                seq = self.iterate(rhs, st)
                if seq is not None:
                    st.deref(cur).extend(seq)  # list += iterable mutates in place
                    st.effects.append(("augassign", norm(s.target), "Add", rhs))
                    return [st]
            if isinstance(cur, K) and isinstance(rhs, K) and not isinstance(s.op, ast.Add):
                fake = ast.BinOp(left=ast.Constant(cur.v), op=s.op, right=ast.Constant(rhs.v))
                new = self.eval(fake, st)
                if isinstance(new, U):
                    new = U("augassign")
            st.effects.append(("augassign", norm(s.target), type(s.op).__name__, rhs))
            if isinstance(s.target, ast.Name) or (heap_target and st.pending is None):
                self._assign(s.target, new, st)
            return [st]
        if isinstance(s, ast.Expr):
            self.eval(s.value, st)
            return [st]
        if isinstance(s, ast.If):
            out: List[State] = []
            for bs, b in self.branch(s.test, st):
                if bs.pending is not None:
                    out.append(bs)
                    continue
                out.extend(self.run(s.body if b else s.orelse, bs))
            return out
        if isinstance(s, ast.Return):
            st.term = ("return", self.eval(s.value, st) if s.value is not None else K(None))
            return [st]
        if isinstance(s, ast.Raise):
            if s.exc is None:
                hd = st.env.get("__handling__")
                name = hd.v if isinstance(hd, K) and isinstance(hd.v, str) else "reraise"
            else:
                tgt = s.exc.func if isinstance(s.exc, ast.Call) else s.exc
                name = (dotted(tgt) or norm(tgt)).split(".")[-1]
                if not isinstance(s.exc, ast.Call):
                    # `raise exc` where exc holds an exception caught (or stored) earlier: its class is what propagates
                    held = self.eval(s.exc, st)
                    if isinstance(held, S) and held.name.startswith("exc:"):
                        name = held.name[4:]
                    elif isinstance(held, R) and held.kind == "exc" and isinstance(held.fields.get("cls"), K):
                        name = str(held.fields["cls"].v)
            if isinstance(s.exc, ast.Call) and name not in _EXC_PARENTS and name not in (getattr(self, "exc_parents", None) or {}) and name not in ("Exception", "BaseException"):
                # `raise where.not_a_function(found)`: the call is not an exception class - what it RETURNS is what is raised
                built = self.eval(s.exc, st)
                if st.pending is not None:
                    return [st]
                if isinstance(built, R) and built.kind == "exc" and isinstance(built.fields.get("cls"), K):
                    st.term = ("raise", str(built.fields["cls"].v), norm(s.exc))
                    return [st]
                if isinstance(built, S) and built.name.startswith("exc:"):
                    st.term = ("raise", built.name[4:], norm(s.exc))
                    return [st]
            elif isinstance(s.exc, ast.Call):
                # the exception object is built first: what its arguments evaluate (a message put together from helper calls
                # and attribute reads) can itself raise, and then THAT exception is what leaves the statement
                for a_r in list(s.exc.args) + [k_r.value for k_r in s.exc.keywords]:
                    self.eval(a_r, st)
                    if st.pending is not None:
                        return [st]
            st.term = ("raise", name, norm(s.exc) if s.exc is not None else "")
            return [st]
        if isinstance(s, ast.Pass):
            return [st]
        if isinstance(s, ast.Break):
            st.term = ("break",)
            return [st]
        if isinstance(s, ast.Continue):
            st.term = ("continue",)
            return [st]
        if isinstance(s, (ast.FunctionDef,)) and all(_local_deco_kind(d) is not None for d in s.decorator_list):
            # functools.wraps(f) copies metadata (__name__, __doc__, __wrapped__) onto the new function: same behaviour;
            # functools.lru_cache / cache give the closure a table of its own that lives as long as the closure does
            lf = self._local_function(s, st)
            if any(_local_deco_kind(d) == "memo" for d in s.decorator_list):
                if not self.heap:
                    raise AnalysisError(f"abstract interpretation: memoised local function {s.name} needs the heap model")
                lf = lf.replace(memo=st.alloc("dict", {}))  # type: ignore[union-attr]
            st.env[s.name] = lf
            return [st]
        if isinstance(s, ast.Import):
            for al in s.names:
                st.env[al.asname or al.name.split(".")[0]] = S("mod:" + (al.name if al.asname else al.name.split(".")[0]))
            return [st]
        if isinstance(s, ast.ImportFrom) and s.module and not s.level:
            for al in s.names:
                st.env[al.asname or al.name] = S(f"mod:{s.module}.{al.name}")
            return [st]
        if isinstance(s, ast.Delete):
            for t in s.targets:
                if isinstance(t, ast.Subscript):
                    obj = self.eval(t.value, st)
                    key = self.eval(t.slice, st)
                    if isinstance(obj, Ref) and not isinstance(st.deref(obj), list):
                        d = st.dict_of(obj)
                        if key in d:
                            del d[key]
                        else:
                            st.pending = st.pending or "KeyError"
                    st.effects.append(("delitem", norm(t.value), key))
                else:
                    st.effects.append(("del", norm(t)))
            return [st]
        if isinstance(s, ast.Assert):
            return [st]
        if isinstance(s, ast.For):
            it = self.eval(s.iter, st)
            seq0 = self.iterate(it, st)
            if seq0 is not None:
                elems = seq0
            else:
                # one symbolic iteration stands for every element
                # (inside a generator helper that is interpreted eagerly: TWO rounds with the same representative, so that a
                # filter with a memory - `if type(e) in seen: continue` - shows as a round that yields nothing)
                elems = [R("elem", of=it)] * max(1, getattr(self, "symbolic_rounds", 1))
                st.effects.append(("foreach", norm(s.iter), it))
            live, done, finished = [st], [], []
            for el in elems:
                nxt: List[State] = []
                for x in live:
                    self._assign(s.target, el, x)
                    for y in self.run(s.body, x):
                        if y.term is None:
                            nxt.append(y)
                        elif y.term[0] == "continue":
                            y.term = None
                            nxt.append(y)
                        elif y.term[0] == "break":
                            y.term = None
                            done.append(y)
                        else:
                            finished.append(y)
                live = nxt
            out2: List[State] = []
            for x in live:
                out2.extend(self.run(s.orelse, x))
            return out2 + done + finished
        if isinstance(s, ast.Try):
            # the guarded body is walked as straight-line code; handlers are analysed by CFG rules
            outs = self.run(s.body, st)
            res: List[State] = []
            for o in outs:
                if o.term is None:
                    res.extend(self.run(s.orelse, o))
                elif o.term[0] == "raise":
                    h = self._handler_for(s, o.term[1])
                    if h is None:
                        res.append(o)
                    else:
                        if h.name:
                            if LAST_EXC.get("cls") == str(o.term[1]) and LAST_EXC.get("attrs"):
                                o.env[h.name] = R("exc", cls=K(str(o.term[1])), **LAST_EXC["attrs"])
                            else:
                                o.env[h.name] = S("exc:" + str(o.term[1]))
                        o.env["__handling__"] = K(str(o.term[1]))  # what a bare `raise` in the handler re-raises
                        o.term = None
                        res.extend(self.run(h.body, o))
                else:
                    res.append(o)
            if s.finalbody:
                fin: List[State] = []
                for o in res:
                    t = o.term
                    o.term = None
                    for f in self.run(s.finalbody, o):
                        if f.term is None:
                            f.term = t
                        fin.append(f)
                res = fin
            return res
        if isinstance(s, ast.With):
            cm0_known: Optional[V] = None
            is_suppress = isinstance(s.items[0].context_expr, ast.Call) and (dotted(s.items[0].context_expr.func) or "") in ("suppress", "contextlib.suppress")
            if len(s.items) >= 1 and getattr(self, "on_with", None) is not None and not is_suppress:
                cm0 = self.eval(s.items[0].context_expr, st)
                cm0_known = cm0
                inner = s if len(s.items) == 1 else ast.With(items=s.items[1:], body=s.body)
                body = s.body if len(s.items) == 1 else [ast.copy_location(inner, s)]
                if isinstance(cm0, R) and cm0.kind == "ctxmgr":
                    return self.on_with(cm0, s.items[0].optional_vars, body, st)
                if isinstance(cm0, Ref) and cm0.kind == "obj" and getattr(self, "on_with_object", None) is not None:
                    res_o = self.on_with_object(cm0, s.items[0].optional_vars, body, st)
                    if res_o is not None:
                        return res_o
            if len(s.items) == 1 and isinstance(s.items[0].context_expr, ast.Call) and (dotted(s.items[0].context_expr.func) or "").split(".")[-1] == "suppress" \
                    and (dotted(s.items[0].context_expr.func) or "") in ("suppress", "contextlib.suppress"):
                # contextlib.suppress(E, ...): an exception of one of these classes raised by the body ends the block quietly
                names = [(dotted(a) or norm(a)).split(".")[-1] for a in s.items[0].context_expr.args]
                outs_s = self.run(s.body, st)
                for o in outs_s:
                    if o.term is not None and o.term[0] == "raise" and any(exc_is(str(o.term[1]), n, self.exc_parents) for n in names):
                        o.term = None
                return outs_s
            if len(s.items) > 1 and cm0_known is not None and getattr(self, "on_with_object", None) is not None:
                # `with a, b: body` is `with a: with b: body`: a later item may be a context manager the scenario interprets
                it0 = s.items[0]
                st.effects.append(("with-enter", norm(it0.context_expr), cm0_known))
                if it0.optional_vars is not None:
                    self._assign(it0.optional_vars, R("entered", cm=cm0_known), st)
                nested = ast.copy_location(ast.With(items=s.items[1:], body=s.body), s)
                outs_n = self.run([nested], st)
                for o in outs_n:
                    o.effects.append(("with-exit", norm(it0.context_expr), "raise" if o.term is not None and o.term[0] == "raise" else "normal"))
                return outs_n
            for idx_w, it in enumerate(s.items):
                cm = cm0_known if (idx_w == 0 and cm0_known is not None) else self.eval(it.context_expr, st)  # evaluated once
                st.effects.append(("with-enter", norm(it.context_expr), cm))
                if it.optional_vars is not None:
                    self._assign(it.optional_vars, R("entered", cm=cm), st)
            outs_c = self.run(s.body, st)
            for o in outs_c:
                o.effects.append(("with-exit", norm(s.items[0].context_expr), "raise" if o.term is not None and o.term[0] == "raise" else "normal"))
            return outs_c
        if isinstance(s, ast.While):
            live, outs_w = [st], []
            for _ in range(64):
                nxt_w: List[State] = []
                for x in live:
                    for bs, b in self.branch(s.test, x):
                        if bs.pending is not None:
                            outs_w.append(bs)
                        elif not b:
                            outs_w.extend(self.run(s.orelse, bs))
                        else:
                            for y in self.run(s.body, bs):
                                if y.term is None:
                                    nxt_w.append(y)
                                elif y.term[0] == "continue":
                                    y.term = None
                                    nxt_w.append(y)
                                elif y.term[0] == "break":
                                    y.term = None
                                    outs_w.append(y)
                                else:
                                    outs_w.append(y)
                live = nxt_w
                if not live:
                    return outs_w
            raise AnalysisError("abstract interpretation: while loop does not terminate within 64 iterations")
        if self.strict_stmt:
            raise AnalysisError(f"abstract interpretation: unsupported statement {type(s).__name__}: {norm(s)[:80]}")
        return [st]


def _local_deco_kind(d: ast.AST) -> Optional[str]:
    """'meta' for functools.wraps(...), 'memo' for functools.lru_cache / cache (bare or called), None for anything else"""
    if isinstance(d, ast.Call) and (dotted(d.func) or "") in ("functools.wraps", "wraps"):
        return "meta"
    tgt = d.func if isinstance(d, ast.Call) else d
    if (dotted(tgt) or "") in ("functools.lru_cache", "lru_cache", "functools.cache", "cache"):
        return "memo"
    return None


def _handler_names(h: ast.ExceptHandler) -> List[str]:
    if h.type is None:
        return ["BaseException"]
    elts = h.type.elts if isinstance(h.type, ast.Tuple) else [h.type]
    return [(dotted(e) or norm(e)).split(".")[-1] for e in elts]


_EXC_PARENTS = {"KeyError": "LookupError", "IndexError": "LookupError", "LookupError": "Exception", "TypeError": "Exception",
                "AttributeError": "Exception", "ValueError": "Exception", "ModuleNotFoundError": "ImportError",
                "ImportError": "Exception", "Exception": "BaseException", "StopIteration": "Exception",
                "RuntimeError": "Exception", "NotImplementedError": "RuntimeError", "UnicodeError": "ValueError",
                "JSONDecodeError": "ValueError", "AssertionError": "Exception", "OSError": "Exception", "RecursionError": "RuntimeError"}


def _builtin_exc_parents() -> Dict[str, str]:
    """the hierarchy of the built-in exception classes of the analysing interpreter, read as data"""
    import builtins as _b
    out: Dict[str, str] = {}
    for nm in dir(_b):
        c = getattr(_b, nm)
        if isinstance(c, type) and issubclass(c, BaseException) and c is not BaseException and c.__name__ == nm:
            out[nm] = c.__mro__[1].__name__
    return out


_EXC_PARENTS = {**_builtin_exc_parents(), **_EXC_PARENTS}


def exc_is(name: str, handler_name: str, extra: Optional[Dict[str, str]] = None) -> bool:
    parents = dict(_EXC_PARENTS)
    if extra:
        parents.update(extra)
    cur: Optional[str] = name
    seen = set()
    while cur is not None and cur not in seen:
        if cur == handler_name:
            return True
        seen.add(cur)
        cur = parents.get(cur)
    return False


def _mentions(key: str, name: str) -> bool:
    try:
        return any(isinstance(n, ast.Name) and n.id == name for n in ast.walk(ast.parse(key, mode="eval")))
    except SyntaxError:
        return name in key
