"""C11: a source annotation written as a PEP 585 generic (`list[X]`, `dict[K, V]`, `tuple[X, ...]`, `collections.abc.Sequence[X]`:
instances of types.GenericAlias) reaches the renderer under the default REPLICATE strategy.  It is not an instance of `type`
(3.11+) and not a typing generic, so get_imports_for_annotation returned no imports for it, while RenderAnnotation renders it with
repr(): the stub used `pk.other.Bar`, `pk.mod.User` (own-module prefixes are stripped only for modules in the import map) and
`collections.abc.Sequence` without providing `pk` or `collections`.

Run by hand:  /venv/bin/python /verif/witness/c11_pep585_generic.py   (exit 0 = every name the stub uses is provided)"""
import ast, builtins, importlib, os, sys, tempfile, textwrap

sys.path.insert(0, os.environ.get("MT_REPO", "/repo"))
d = tempfile.mkdtemp()
os.makedirs(os.path.join(d, "pk5"))
open(os.path.join(d, "pk5", "__init__.py"), "w").close()
open(os.path.join(d, "pk5", "other.py"), "w").write("class Bar: pass\n")
cases = {
    "m1": "import pk5.other\ndef f(x: list[pk5.other.Bar]): ...\n",
    "m2": "class User: pass\ndef f(y: dict[str, User]) -> tuple[User, ...]: ...\n",
    "m3": "import collections.abc\nimport pk5.other\ndef f(z: collections.abc.Sequence[pk5.other.Bar]): ...\n",
    "m4": "import pk5.other\ndef f(w: list[pk5.other.Bar] = None): ...\n",
}
for n, src in cases.items():
    open(os.path.join(d, "pk5", n + ".py"), "w").write(src)
sys.path.insert(0, d)
from monkeytype.stubs import build_module_stubs_from_traces
from monkeytype.tracing import CallTrace

bad = 0
for n in cases:
    mod = importlib.import_module("pk5." + n)
    stub = build_module_stubs_from_traces([CallTrace(mod.f, {}, None)], 0)["pk5." + n].render()
    tree = ast.parse(stub)
    provided = set(dir(builtins)) | {x.name for x in ast.walk(ast.parse(cases[n])) if isinstance(x, ast.ClassDef)}
    for x in ast.walk(tree):
        if isinstance(x, ast.ImportFrom):
            provided |= {a.asname or a.name for a in x.names}
        elif isinstance(x, ast.Import):
            provided |= {(a.asname or a.name).split(".")[0] for a in x.names}
    used = set()
    for fn in ast.walk(tree):
        if isinstance(fn, ast.FunctionDef):
            for a in fn.args.args + [fn]:
                ann = a.annotation if isinstance(a, ast.arg) else a.returns
                if ann is not None:
                    used |= {y.id for y in ast.walk(ann) if isinstance(y, ast.Name)}
    missing = used - provided
    print(f"--- pk5.{n}\n{textwrap.indent(stub, '    ')}\n    names used but not provided: {sorted(missing) or 'none'}")
    bad += bool(missing)
sys.exit(1 if bad else 0)
