"""C05 - inferred types are tight (static clauses).

R-C05.1  the fall-through of get_type is exactly type(obj) (no base class, no lookup table)
R-C05.2  who may introduce a constant type: Any / Callable / Type / Iterator / str appear only in the
         enumerated cells of the inference tables, under their guard
R-C05.3  every leaf of a merged type is witnessed by an input (no invented alternative)
R-C05.4  required/optional classification of merged TypedDict keys (exhaustive over small shapes)
R-C05.6  the tracer infers each recorded type from the event's own value (a remembered type is not witnessed by it)
"""
from __future__ import annotations

import itertools
from typing import Any, Dict, List, Tuple

from mtsa.absint import K, R, S, U, V
from mtsa.index import Repo
from mtsa.report import AnalysisError, Ctx

from . import infer_model as IM
from .infer_model import ANY, TY, generic, tight
from .c04 import _short, _types

LEVEL = "other"
EXPLANATION = (
    "Static decision of the structural clauses of C05 from the same abstract inference tables as C04 (nothing is executed): "
    "for every class outside the exact builtin containers get_type returns exactly type(obj) (subclasses of list/dict/"
    "tuple/set/str and user classes included); the constants Any, Callable, Type[...], Iterator[...] and the key type str "
    "appear only in their enumerated cells (Any: empty dict, empty collection of types, field-less TypedDict; Callable: "
    "function/method/builtin values; Type[obj]: class objects; str: key type of a Dict built from str-keyed TypedDicts); "
    "every leaf of a shrink_types result derives from an input; in merged TypedDicts a key is required exactly when every "
    "input has it as required and optional otherwise, for every combination of <=3 TypedDicts over <=2 keys and limits 0..3. "
    "Known finding: generator objects are typed Iterator[Any] (an Any without an empty container). "
    "Added: the four inference functions are also interpreted TOGETHER on a grammar of ~90 small concrete values (atoms, class objects, list/tuple/set/dict/defaultdict of depth <= 2, lists of dicts, empty containers, non-string keys) x limits and on ~700 merged pairs, and the result is judged by an oracle written from the property; two-call histories sharing module state (a memo with an unsound key is reported); compat.types_equal decided by interpretation. "
    "Not decided: inhabitation of alternatives for values outside the bounded grammar."
)

CONTAINERS = {"builtin:list", "builtin:set", "builtin:dict", "mod:collections.defaultdict", "builtin:tuple"}


def contains(v: Any, tok: V) -> bool:
    if v == tok:
        return True
    if isinstance(v, R):
        return any(contains(x, tok) for x in v.fields.values())
    if isinstance(v, K) and isinstance(v.v, tuple):
        return any(contains(x, tok) for x in v.v)
    if isinstance(v, tuple):
        return any(contains(x, tok) for x in v)
    return False


def rule_get_type(ctx: Ctx, repo: Repo) -> None:
    w = f"{TY}.get_type"
    ctx.functions.add(w)
    n = 0
    for cls, m, o, res in IM.get_type_table(repo):
        lab = f"value of class {cls.split(':')[-1]} (limit {m})"
        if cls in ("builtin:type", "class:Meta"):
            ctx.check(res == generic("Type", o), "R-C05.2", w, "a class object is typed Type[<that class>]", construct=f"{lab}: {_short(res)}")
        elif cls in ("mod:types.FunctionType", "mod:types.MethodType", "mod:types.BuiltinFunctionType"):
            ctx.check(res == S("mod:typing.Callable"), "R-C05.2", w, "function / method / builtin values are typed Callable", construct=f"{lab}: {_short(res)}")
        elif cls == "mod:types.GeneratorType":
            if res == generic("Iterator", ANY):
                ctx.violate("R-C05.2", w, "Iterator[Any] for generator objects",
                            "a generator value is typed Iterator[Any]: an Any that no empty container justifies")
            else:
                ctx.check(not contains(res, ANY), "R-C05.2", w, "generator values do not introduce Any", construct=f"{lab}: {_short(res)}")
        elif cls in CONTAINERS:
            ctx.check(not contains(res, ANY), "R-C05.2", w, "no Any is introduced while typing a container whose elements are inspected",
                      construct=f"{lab}: {_short(res)}")
        else:
            n += 1
            ctx.check(res == o.fields["cls"], "R-C05.1", w,
                      "a value that is not an exact builtin container is typed by its exact runtime class",
                      construct=f"{lab}: {_short(res)}")
    ctx.floor("R-C05.1", "non-container classes in the get_type table", n, 16)


def rule_dict_type(ctx: Ctx, repo: Repo) -> None:
    w = f"{TY}.get_dict_type"
    ctx.functions.add(w)
    for n, kk, m, d, res in IM.dict_type_table(repo):
        lab = f"dict with {n} {kk} key(s), limit {m}"
        if n == 0:
            ctx.check(res == generic("Dict", ANY, ANY), "R-C05.2", w, "an empty dict is Dict[Any, Any]", construct=f"{lab}: {_short(res)}")
        else:
            ctx.check(not contains(res, ANY), "R-C05.2", w, "Any appears only for an empty dict", construct=f"{lab}: {_short(res)}")
            ctx.check(not contains(res, S("builtin:str")) and not contains(res, S("builtin:object")), "R-C05.2", w,
                      "key and value types are derived from the keys and values, not constants", construct=f"{lab}: {_short(res)}")


def rule_shrink(ctx: Ctx, repo: Repo) -> None:
    w = f"{TY}.shrink_types"
    ctx.functions.add(w)
    n = 0
    for types in IM.shrink_inputs():
        for perm in sorted(set(itertools.permutations(types)), key=repr):
            res = IM.shrink_result(repo, perm, 2)
            n += 1
            if isinstance(res, U) or (isinstance(res, R) and res.kind == "raises"):
                continue  # C04 reports it
            if isinstance(res, R) and res.kind == "merged_td":
                of = res.fields["of"]
                ctx.check(isinstance(of, K) and sorted(map(repr, of.v)) == sorted(map(repr, perm)), "R-C05.4", w,
                          "when dicts are merged into one TypedDict every observed dict takes part in the required/optional count (also an empty one)",
                          construct=f"{_types(types)}: merged over {len(of.v) if isinstance(of, K) else '?'} of {len(perm)} observed dict types")
            ok, why = tight(res, perm)
            ctx.check(ok, "R-C05.3", w, "every alternative of the merged type is one of the observed types (or built from them)",
                      construct=f"{_types(types)} -> {_short(res)}: {why}")
            if not types:
                ctx.check(res == ANY, "R-C05.2", w, "an empty collection of types is Any", construct=f"{_short(res)}")
    ctx.floor("R-C05.3", "shrink_types scenarios", n, 300)


def rule_merge(ctx: Ctx, repo: Repo) -> None:
    w = f"{TY}.shrink_typed_dict_types"
    ctx.functions.add(w)
    shapes = IM.td_shapes(("a", "b"))
    combos: List[Tuple[Dict[str, str], ...]] = [(s,) for s in shapes]
    combos += list(itertools.product(shapes, repeat=2))
    combos += list(itertools.combinations_with_replacement(shapes, 3))
    n = 0
    for combo in combos:
        tds = tuple(IM.td(i, s) for i, s in enumerate(combo))
        types, req, opt = IM.merge_spec(tds)
        for m in (0, 1, 2, 3):
            res = IM.merge_result(repo, tds, m)
            n += 1
            lab = f"{list(combo)} limit {m}"
            if isinstance(res, R) and res.kind == "typeddict":
                got_req = {k.v for k, _ in res.fields["required"].fields["items"]} if isinstance(res.fields["required"], R) else set()
                got_opt = {k.v for k, _ in res.fields["optional"].fields["items"]} if isinstance(res.fields["optional"], R) else set()
                ctx.check(got_req == req and got_opt == opt, "R-C05.4", w,
                          "a key is required iff every merged TypedDict has it as required, optional otherwise",
                          construct=f"{lab}: required {sorted(got_req)} optional {sorted(got_opt)}; expected {sorted(req)} / {sorted(opt)}")
                # no field type beyond the observed ones
                extra = []
                for part in ("required", "optional"):
                    d = res.fields[part]
                    for k, v in (d.fields["items"] if isinstance(d, R) else ()):
                        have = list(v.fields["of"].fields["items"]) if isinstance(v, R) and v.kind == "shrunk" and isinstance(v.fields["of"], R) else None
                        if have is None or sorted(map(repr, have)) != sorted(map(repr, types.get(k.v, []))):
                            extra.append(f"{k.v}: {_short(v, 80)}")
                ctx.check(not extra, "R-C05.3", w, "a merged field's type is built from exactly the value types observed for that key",
                          construct=f"{lab}: {extra}")
            elif isinstance(res, R) and res.kind == "generic" and res.fields["origin"] == K("Dict"):
                args = res.fields["args"].v
                ctx.check(len(args) == 2 and args[0] == S("builtin:str") and not contains(args[1], ANY), "R-C05.2", w,
                          "the Dict fallback of str-keyed TypedDicts has key type str and a value type built from the fields",
                          construct=f"{lab}: {_short(res)}")
    ctx.floor("R-C05.4", "shrink_typed_dict_types scenarios", n, 300)


def rule_aliasing(ctx: Ctx, repo: Repo) -> None:
    """R-C05.5: the type of a value does not depend on whether the same object occurs elsewhere in the value
    (one object referenced twice is typed twice the same way; no Any / widening for the second occurrence)."""
    w = f"{TY}.get_type"
    fi = repo.fn(TY, "get_type")
    ps = fi.positional_params()
    i1 = R("val", cls=S("builtin:int"), label=K("i"), n=K(None), keykind=K(None))
    s1 = R("val", cls=S("builtin:str"), label=K("s"), n=K(None), keykind=K(None))
    t = R("val", cls=S("builtin:tuple"), label=K("t"), n=K(2), keykind=K(None), elems=K((i1, s1)))
    inner = R("val", cls=S("builtin:list"), label=K("row"), n=K(1), keykind=K(None), elems=K((i1,)))
    for outer_cls, origin in (("builtin:list", "List"), ("builtin:tuple", "Tuple"), ("builtin:set", "Set")):
        for shared in (t, inner):
            once = R("val", cls=S(outer_cls), label=K("once"), n=K(1), keykind=K(None), elems=K((shared,)))
            twice = R("val", cls=S(outer_cls), label=K("twice"), n=K(2), keykind=K(None), elems=K((shared, shared)))
            res = []
            for o in (once, twice):
                sc = IM.InferScenario(repo, "get_type", self_recursion=True)
                res.append(sc.result({ps[0]: o, ps[1]: K(2)}))
            r1, r2 = res
            def elem_types(r):
                if isinstance(r, R) and r.kind == "generic":
                    a = r.fields["args"]
                    if isinstance(a, K) and a.v and isinstance(a.v[0], R) and a.v[0].kind == "shrunk":
                        of = a.v[0].fields["of"]
                        return list(of.v) if isinstance(of, K) else None
                    if isinstance(a, R) and a.kind == "tuple_of":
                        return None
                    if isinstance(a, K):
                        return list(a.v)
                return None
            e1, e2 = elem_types(r1), elem_types(r2)
            lab = f"{origin} holding the same {shared.fields['cls'].name.split(':')[1]} object twice"
            ok = e1 is not None and e2 is not None and len(e1) == 1 and len(e2) == 2 and e2[0] == e1[0] and e2[1] == e1[0]
            ctx.check(ok, "R-C05.5", w, "an object that occurs twice in a value is typed the same way both times (no Any or widening for the second occurrence)",
                      construct=f"{lab}: element types {[_short(x, 60) for x in (e2 or [])]} vs once {[_short(x, 60) for x in (e1 or [])]}")
            ctx.check(not contains(r2, ANY), "R-C05.2", w, "no Any is introduced for a repeated object", construct=f"{lab}: {_short(r2, 120)}")


def run(ctx: Ctx, repo: Repo, tier: str) -> None:
    # concrete small values first: they decide also when a new code path is beyond the abstract scenarios below
    from .concrete_infer import concrete_rules
    concrete_err = None
    try:
        concrete_rules(ctx, repo, tier, tightness="R-C05.9")
    except AnalysisError as e:
        concrete_err = e  # the abstract scenarios below still decide their clauses; re-raised at the end if they are silent
    ctx.trust("typing.Any admits everything; Callable, Type[C], Iterator[T] are the documented hints for callables, class objects and generators")
    ctx.attempt(rule_get_type, ctx, repo)
    ctx.attempt(rule_aliasing, ctx, repo)
    ctx.attempt(rule_dict_type, ctx, repo)
    ctx.attempt(rule_shrink, ctx, repo)
    ctx.attempt(rule_merge, ctx, repo)
    from .memo_rules import tracer_no_memory
    ctx.attempt(tracer_no_memory, ctx, repo, "R-C05.6")
    from .memo_rules import infer_no_memory
    ctx.attempt(infer_no_memory, ctx, repo, "R-C05.7")
    from .compat_rules import compat_predicates
    ctx.attempt(compat_predicates, ctx, repo, "R-C05.8", ("types_equal",))
    # class names are the exact runtime classes: a stored class that cannot be found again must not come back as another class
    from . import c08 as _c08
    ctx.attempt(_c08.rule_no_impostor, ctx, repo)
    # ... and the required / optional halves of a generated TypedDict are the same after the type went through the store
    ctx.attempt(_c08.rule_type_round_trip, ctx, repo)
    if concrete_err is not None:
        raise concrete_err
    ctx.settle()
