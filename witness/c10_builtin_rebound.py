"""Witness for R-C10.2 (run by hand: PYTHONPATH=/repo /venv/bin/python witness/c10_builtin_rebound.py).
A stored trace names fx_core.was_func; the module now says `was_func = max`.  get_func_in_module accepted builtin functions,
the row decoded, and stub generation died in inspect.signature(max): ValueError, exit status 1 - one stale row is fatal."""
import io, os, sqlite3, sys, tempfile, types
d = tempfile.mkdtemp(); sys.path.insert(0, d)
open(os.path.join(d, "fx_core.py"), "w").write("def keep(a, b):\n    return a\nwas_func = max\n")
os.environ["MT_DB_PATH"] = os.path.join(d, "db.sqlite3")
from monkeytype import cli
from monkeytype.config import DefaultConfig
from monkeytype.tracing import CallTrace
import fx_core
store = DefaultConfig().trace_store()
store.add([CallTrace(fx_core.keep, {"a": int, "b": str}, int)])
conn = sqlite3.connect(os.environ["MT_DB_PATH"])
i = '{"module": "builtins", "qualname": "int"}'
conn.execute("INSERT INTO monkeytype_call_traces (module, qualname, arg_types, return_type, yield_type) VALUES (?,?,?,?,?)",
             ("fx_core", "was_func", '{"a": %s}' % i, i, None)); conn.commit()
out, err = io.StringIO(), io.StringIO()
try:
    rc = cli.main(["stub", "fx_core"], out, err)
except Exception as e:
    print("WITNESSED: stub generation raises", type(e).__name__, e); print("FAILED"); sys.exit(1)
print("exit status", rc, "| stderr:", err.getvalue().strip()); print(out.getvalue())
ok = rc == 0 and "def keep" in out.getvalue() and "1 traces failed to decode" in err.getvalue()
print("OK" if ok else "FAILED"); sys.exit(0 if ok else 1)
