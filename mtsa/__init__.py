"""mtsa - MonkeyType static analysis engine (stdlib only).

index   : source index of /repo/monkeytype (modules, imports, classes, functions, constants)
cfg     : statement-level control-flow graph, edge guards, dominance, reaching definitions
absint  : small abstract interpreter over finite domains (decision tables, typestate)
report  : findings, known findings, evidence and exit codes
"""
