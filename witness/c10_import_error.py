"""Witness (run by hand): a stored trace names a class of a module that still exists but no longer imports (it does `from helpers import
removed_name`): importlib raises ImportError, not ModuleNotFoundError - not tolerated, `monkeytype stub` dies with a traceback.
    cd /verif/witness && PYTHONPATH=/repo /venv/bin/python c10_import_error.py      (exit 1 while the defect is present)"""
import sys, tempfile
d = tempfile.mkdtemp(); sys.path.insert(0, d)
open(d + "/whelpers.py", "w").write("kept = 1\n")
open(d + "/wmodels.py", "w").write("from whelpers import removed_name\nclass Foo: pass\n")
from monkeytype.util import get_name_in_module
from monkeytype.exceptions import MonkeyTypeError
try:
    get_name_in_module("wmodels", "Foo")
    print("resolved?!"); sys.exit(1)
except MonkeyTypeError as e:
    print("not present:", type(e).__name__, e); sys.exit(0)
except Exception as e:
    print("WITNESSED:", type(e).__name__, e); sys.exit(1)
