"""C14 - stub content depends only on the set of traces, not their order or process (static clauses).

R-C14.1a  traces -> per-position type sets: independent of trace order and duplication (abstract interpretation of
          build_module_stubs_from_traces / get_updated_definition / shrink_traced_types on every permutation)
R-C14.1b  definitions -> rendered module stub: identical text for every order of the definitions (and of the
          TypedDict class stubs / imports they carry)
R-C14.1c  every shipped rewriter gives the same result (as a multiset of members) for every order of a union's members
R-C14.2   CallTrace equality and hash are defined over the same fields (so the per-function set absorbs duplicates)
R-C14.3   nothing process-dependent (id, hash, time, random, pid) flows into rendered text
(merging of types itself is decided order-independent under C04, R-C04.4)
"""
from __future__ import annotations

import ast
import itertools
from typing import Any, Dict, List, Optional, Tuple

from mtsa.absint import K, R, Ref, S, U, V, State
from mtsa.index import Repo, calls_in, dotted, norm, walk_no_nested
from mtsa.report import AnalysisError, Ctx

from . import render_model as RM
from . import rw_model as RW
from . import sig_model as SM
from .sig_model import EMPTY, ST, StubScenario, param, sig
from .c07 import REWRITERS

LEVEL = "other"
EXPLANATION = (
    "Static decision of the structural clauses of C14 by abstract interpretation over permutations (nothing is executed): "
    "(a) build_module_stubs_from_traces -> get_updated_definition -> shrink_traced_types are interpreted on every permutation "
    "(and duplication) of a small multiset of abstract traces of two functions; the per-function sets of argument / return / "
    "yield types handed to shrink_types, the functions visited and the strategy / rewriter / limit they are processed with "
    "must not depend on the order; (b) build_module_stubs and the renderers are interpreted on every permutation of a list of "
    "definitions (two classes, module functions, TypedDict class stubs, imports): the rendered text must be identical; "
    "(c) every shipped rewriter is interpreted on every rotation and reversal of each abstract union: the result must be the "
    "same multiset of members; (d) CallTrace.__eq__/__hash__ cover the same fields; (e) no id/hash/time/random/pid call "
    "occurs in the rendering code. Together with R-C04.4 (merging is symmetric) this decides the repository-side shape of "
    "the property. Not decided: equality of output across real interpreter processes."
)


# ---------------------------------------------------------------------------
def rule_traces_to_sets(ctx: Ctx, repo: Repo) -> None:
    bm = repo.fn(ST, "build_module_stubs_from_traces")
    gud = repo.fn(ST, "get_updated_definition")
    stt = repo.fn(ST, "shrink_traced_types")
    ctx.functions.update({bm.fq, gud.fq, stt.fq})
    f1, f2 = S("func:f1"), S("func:f2")
    INT, STR, NONE = S("t:int"), S("t:str"), S("t:None")

    def tr(func: S, a: V, ret: V, yld: V = K(None), i: int = 0) -> R:
        return R("inst", __cls__=K("monkeytype.tracing.CallTrace"), func=func, arg_types=R("dict", items=((K("a"), a),) if a is not None else ()),
                 return_type=ret, yield_type=yld)

    from .sig_model import NONE_T
    f3 = S("func:f3")
    # f3: a generator of which one call returned a value and another ran off its end (its return type is the real NoneType)
    base = [tr(f1, INT, STR), tr(f1, STR, K(None)), tr(f1, INT, STR), tr(f2, NONE, INT, STR), tr(f2, INT, STR, INT)]
    # FALSY: a class object that is false as a truth value (its metaclass defines __len__ / __bool__: a registry of plugins,
    # an enum-like class with no members yet) - a type all the same, observed at every position of f3's first call
    FALSY = S("t:Registry", truth=False)
    gen = [tr(f3, FALSY, NONE_T, FALSY), tr(f3, INT, FALSY, INT)]
    seen: Dict[str, Any] = {}
    n = 0
    for perm in sorted(set(itertools.permutations(range(len(base))))):
        # the two generator traces go to the front in the order of the first two of the permuted five, or to the back
        traces = [base[i] for i in perm]
        g2 = gen if perm[0] < perm[1] else gen[::-1]
        traces = (g2 + traces) if perm[2] < perm[3] else (traces[:2] + g2[:1] + traces[2:] + g2[1:])
        sc = StubScenario(repo, "build_module_stubs_from_traces", inline=("get_updated_definition", "shrink_traced_types"))
        sc.ri.heap = True
        record: List[Tuple[Any, ...]] = []

        def hook(call, fname, fval, args, kwargs, st, _r=record):
            if fname == "shrink_types":
                ts = st.freeze(args[0])
                return R("shrunk", of=ts, limit=args[1] if len(args) > 1 else kwargs.get("max_typed_dict_size", K("?")))
            if isinstance(call.func, ast.Attribute) and call.func.attr == "rewrite" and isinstance(fval, S) and fval.name == "rewriter":
                return R("rewritten", of=args[0])
            if fname and fname.endswith("from_callable_and_traced_types"):
                _r.append(tuple(st.freeze(a) for a in args) + tuple(sorted((k, repr(st.freeze(v))) for k, v in kwargs.items())))
                return R("definition", of=args[0])
            if fname == "build_module_stubs":
                ds = st.freeze(args[0])
                return R("stubs", of=K(frozenset(ds.fields["items"])) if isinstance(ds, R) and ds.kind == "list" else ds)
            if fname == "NoOpRewriter":
                return S("rewriter")
            if fname == "collections.defaultdict" and args and args[0] == S("builtin:set"):
                return st.alloc("defaultdict", ("dd", "set", {}))
            return None
        sc.extra_hook = hook
        ps = bm.positional_params()
        o = sc.run({ps[0]: K(tuple(traces)), ps[1]: K(2), ps[2]: S("strategy"), ps[3]: S("rewriter")})
        n += 1
        if o.term is None or o.term[0] != "return":
            raise AnalysisError(f"build_module_stubs_from_traces: {o.term}")
        key = repr(sorted(repr(r) for r in record)) + "|" + repr(o.freeze(o.term[1]))
        seen.setdefault(key, perm)
        if n == 1:
            # the per-function calls must carry all observed types, the caller's strategy, rewriter and limit
            by_func = {r[0]: r for r in record}
            ok = set(by_func) == {f1, f2, f3}
            if ok:
                r3 = by_func[f3]
                ok = r3[2] == R("rewritten", of=R("shrunk", of=K(frozenset({NONE_T, FALSY})), limit=K(2))) and r3[3] == R("rewritten", of=R("shrunk", of=K(frozenset({INT, FALSY})), limit=K(2))) \
                    and r3[1] == R("dict", items=((K("a"), R("rewritten", of=R("shrunk", of=K(frozenset({INT, FALSY})), limit=K(2)))),))
            if ok:
                r1 = by_func[f1]
                a1 = r1[1]
                ok = isinstance(a1, R) and a1.kind == "dict" and len(a1.fields["items"]) == 1
                if ok:
                    v = a1.fields["items"][0][1]
                    ok = v == R("rewritten", of=R("shrunk", of=K(frozenset({INT, STR})), limit=K(2)))
                ok = ok and r1[2] == R("rewritten", of=R("shrunk", of=K(frozenset({STR})), limit=K(2))) and r1[3] == K(None)
                r2 = by_func[f2]
                ok = ok and r2[2] == R("rewritten", of=R("shrunk", of=K(frozenset({INT, STR})), limit=K(2))) and \
                    r2[3] == R("rewritten", of=R("shrunk", of=K(frozenset({INT, STR})), limit=K(2)))
                ok = ok and all(S("strategy") in r or any("strategy" in str(x) for x in r) for r in record)
            ctx.check(ok, "R-C14.1a", bm.fq,
                      "each function is processed once with the set of all its observed argument / return / yield types (absent ones skipped), the caller's limit, rewriter and strategy",
                      construct=f"{record}"[:300])
    ctx.check(len(seen) == 1, "R-C14.1a", bm.fq, "the per-function type sets and the set of definitions do not depend on the order or duplication of traces",
              construct=f"{len(seen)} different outcomes over {n} orders, e.g. orders {list(seen.values())[:2]}")
    ctx.floor("R-C14.1a", "trace orders interpreted", n, 50)


# ---------------------------------------------------------------------------
def rule_render_order(ctx: Ctx, repo: Repo) -> None:
    bm = repo.fn(ST, "build_module_stubs")
    ctx.functions.update({bm.fq, f"{ST}.ModuleStub.render", f"{ST}.ClassStub.render", f"{ST}.ImportBlockStub.render"})
    INT, STR = S("t:int"), S("t:str")
    td_a = RM.class_stub("FooTypedDict__RENAME_ME__(TypedDict)", [], [RM.attribute_stub("b", STR), RM.attribute_stub("a", INT)])
    td_b = RM.class_stub("BarTypedDict__RENAME_ME__(TypedDict)", [], [RM.attribute_stub("x", INT)])
    td_a2 = RM.class_stub("FooTypedDict__RENAME_ME__(TypedDict)", [], [RM.attribute_stub("other", INT)])
    defs = [
        ("pkg.mod", "zeta", "MODULE", sig([param("foo", S("t:'FooTypedDict__RENAME_ME__'"))], STR), False, (td_a,)),
        ("pkg.mod", "alpha", "MODULE", sig([param("bar", S("t:'BarTypedDict__RENAME_ME__'"))]), False, (td_b,)),
        ("pkg.mod", "C.m", "INSTANCE", sig([param("self"), param("y", INT)]), False, ()),
        ("pkg.mod", "C.a", "CLASS", sig([param("cls")]), False, ()),
        ("pkg.mod", "B.m", "INSTANCE", sig([param("self")]), True, ()),
    ]
    imps = {"zeta": {"typing": ("List", "Any"), "mypy_extensions": ("TypedDict",)}, "alpha": {"typing": ("Dict",), "other.mod": ("Thing", "Another")},
            "C.m": {"typing": ("Any",)}, "C.a": {}, "B.m": {"aaa.mod": ("Z",)}, "omega": {"typing": ("Any",), "mypy_extensions": ("TypedDict",)}}

    def run_perms(defs_: List[Any], label: str, rule_id: str, what: str) -> Dict[str, Any]:
        texts: Dict[str, Any] = {}
        for perm in itertools.permutations(range(len(defs_))):
            entries = [RM.definition(*defs_[i]) for i in perm]
            res = RM.build_module_stubs(repo, entries, lambda ent: imps.get(ent.fields["qualname"].v, {}))
            mods = {k.v: v for k, v in res.fields["items"]}
            txt = "\n=====\n".join(f"{m}\n{RM.render(repo, mods[m])}" for m in sorted(mods))
            texts.setdefault(txt, perm)
        ctx.check(len(texts) == 1, rule_id, bm.fq, what, construct=f"{label}: {len(texts)} different stub texts over the orders of {len(defs_)} definitions"
                  + ("" if len(texts) == 1 else "; first difference: " + _first_diff(list(texts))))
        return texts

    run_perms(defs, "distinct names", "R-C14.1b",
              "the rendered module stub is the same text for every order in which the functions' definitions arrive (functions, classes, methods, imports, TypedDict classes sorted)")
    # two functions whose generated TypedDict classes get the same name (same parameter name `foo`)
    defs2 = [defs[0], ("pkg.mod", "omega", "MODULE", sig([param("foo", S("t:'FooTypedDict__RENAME_ME__'"))]), False, (td_a2,)), defs[2]]
    t2 = run_perms(defs2, "two generated TypedDict classes with the same name", "R-C14.1b",
                   "same-named generated TypedDict classes are rendered in an order that does not depend on the order of the definitions")


def cls_copy(name: str) -> S:
    """A further class deriving from (Mixin, Other), registered in the model hierarchy."""
    RW.BASES.setdefault(name, ("class:Mixin", "class:Other"))
    return S(name)


def _first_diff(texts: List[str]) -> str:
    a, b = texts[0].splitlines(), texts[1].splitlines()
    for i, (x, y) in enumerate(zip(a, b)):
        if x != y:
            return f"line {i + 1}: `{x.strip()[:50]}` vs `{y.strip()[:50]}`"
    return "different lengths"


# ---------------------------------------------------------------------------
def rule_rewriters(ctx: Ctx, repo: Repo) -> None:
    n = 0
    for cname, meth, attrs, _, _ in REWRITERS:
        fi = repo.method(repo.cls(RW.TY, cname), meth)
        ctx.functions.add(fi.fq)
        p = fi.positional_params()[1]
        cfg = f" ({', '.join(f'{k}={v.v}' for k, v in attrs.items())})" if attrs else ""
        groups: List[Tuple[V, ...]] = list(RW.LARGE)
        groups += [(RW.L1, RW.L2, RW.OTH), (RW.X_, RW.Y_, RW.L1), (RW.X_, RW.Y_), (RW.g("Dict", RW.STR, RW.INT), RW.g("Dict", RW.STR, RW.STR), RW.g("Dict", RW.STR, RW.BOOL)),
                   (RW.g("List", RW.ANY), RW.g("List", RW.INT), RW.NONE_T), (RW.g("Set", RW.ANY), RW.g("List", RW.ANY), RW.g("Set", RW.INT)),
                   (RW.X_, RW.Y_, RW.INT, RW.STR, RW.FLT, RW.BYT), (RW.X_, RW.Y_, RW.L1, RW.L2, RW.MID, RW.OTH), (RW.X_, RW.Y_, RW.Z_),
                   (RW.Z_, RW.Y_, RW.X_, cls_copy("class:Z2"), cls_copy("class:Z3"), cls_copy("class:Z4"))]
        for grp in groups:
            orders = [grp[r:] + grp[:r] for r in range(len(grp))] + [tuple(reversed(grp))]
            results: Dict[str, Tuple[V, ...]] = {}
            for order in orders:
                u = RW.union(*order)
                res = RW.RewriterScenario(repo, cname, meth, attrs).result({p: u})
                n += 1
                if isinstance(res, R) and res.kind == "raises":
                    continue  # C07 reports it
                key = RW.canon_key(res)
                results.setdefault(key, order)
            if len(results) > 1:
                ks = list(results)
                ctx.violate("R-C14.1c", fi.fq, f"{cname}{cfg}: the result depends on which member comes first",
                            f"{cname}{cfg} gives different results for different orders of the same union members (member order is a set-iteration order, i.e. process dependent)",
                            example=f"{[RW.show(m) for m in results[ks[0]]]} -> {ks[0]} but {[RW.show(m) for m in results[ks[1]]]} -> {ks[1]}")
            else:
                ctx.ok("R-C14.1c", fi.fq, f"{cname}{cfg} is insensitive to the order of union members", members=str([RW.show(m) for m in grp]))
    ctx.floor("R-C14.1c", "rewriter runs over member orders", n, 500)


# ---------------------------------------------------------------------------
def rule_eq_hash(ctx: Ctx, repo: Repo) -> None:
    ci = repo.cls("monkeytype.tracing", "CallTrace")
    init, eq, hs = ci.methods.get("__init__"), ci.methods.get("__eq__"), ci.methods.get("__hash__")
    if not (init and eq and hs):
        raise AnalysisError("CallTrace lacks __init__/__eq__/__hash__")
    ctx.functions.update({init.fq, eq.fq, hs.fq})
    # semantic form: two traces are equal iff all four fields are equal, and equal traces hash alike
    from .common import RepoInterp
    f1, f2 = S("func:f1"), S("func:f2")
    def tr(func, a, r, y):
        return R("inst", __cls__=K("monkeytype.tracing.CallTrace"), func=func, arg_types=R("dict", items=((K("a"), a),)), return_type=r, yield_type=y)
    base = tr(f1, S("t:int"), S("t:str"), S("t:int"))
    variants = {"func": tr(f2, S("t:int"), S("t:str"), S("t:int")), "arg_types": tr(f1, S("t:str"), S("t:str"), S("t:int")),
                "return_type": tr(f1, S("t:int"), K(None), S("t:int")), "yield_type": tr(f1, S("t:int"), S("t:str"), K(None)),
                "yield_type (other type)": tr(f1, S("t:int"), S("t:str"), S("t:str"))}
    def run_method(m, env):
        ri = RepoInterp(repo, m, may_fork=(), heap=True, inline={f.fq for f in ci.methods.values()})
        ri.dispatch_instances = True
        ri.self_class = ci
        def hook(call, fname, fval, a, kw, st):
            if fname == "isinstance" and len(a) == 2:
                return K(isinstance(a[0], R) and a[0].kind == "inst")
            if fname == "hash" and len(a) == 1:
                return R("hash", of=st.freeze(a[0]))
            if fname == "frozenset" and len(a) == 1:
                seq = ri.interp.iterate(a[0], st)
                return K(frozenset(seq)) if seq is not None else None
            return None
        ri.call_hook = hook
        base_attr = ri.on_attr
        def on_attr(obj, attr, node, st):
            if isinstance(obj, R) and obj.kind == "inst" and attr == "__dict__":
                return R("dict", items=tuple((K(k), v) for k, v in obj.fields.items() if k != "__cls__"))
            if isinstance(obj, R) and obj.kind == "inst" and attr == "__class__":
                return obj.fields["__cls__"]
            return base_attr(obj, attr, node, st)
        ri.on_attr = ri.interp.on_attr = on_attr
        outs = ri.run(env)
        if len(outs) != 1 or outs[0].term is None:
            raise AnalysisError(f"{m.fq}: no single outcome")
        return outs[0].freeze(outs[0].term[1])
    pe = eq.positional_params()
    ph = hs.positional_params()
    same = run_method(eq, {pe[0]: base, pe[1]: tr(f1, S("t:int"), S("t:str"), S("t:int"))})
    ctx.check(same == K(True), "R-C14.2", eq.fq, "two traces with the same four fields are equal", construct=f"{same}")
    ctx.check(run_method(hs, {ph[0]: base}) == run_method(hs, {ph[0]: tr(f1, S("t:int"), S("t:str"), S("t:int"))}), "R-C14.2", hs.fq, "equal traces hash alike", construct="hash differs")
    for fld, other in variants.items():
        r = run_method(eq, {pe[0]: base, pe[1]: other})
        ctx.check(r == K(False), "R-C14.2", eq.fq, "traces that differ in any of function / argument types / return type / yield type are different traces (none is absorbed by the per-function set)",
                  construct=f"traces differing only in {fld} compare {r}")
    # (grouping of traces per function: decided over all orders, interleavings and duplications by R-C14.1a)


def rule_no_process_text(ctx: Ctx, repo: Repo) -> None:
    mod = repo.module(ST)
    bad = {"id", "hash", "time.time", "datetime.datetime.now", "datetime.now", "random.random", "random.choice", "os.getpid", "uuid.uuid4", "object.__repr__"}
    n = 0
    for fi in mod.functions.values():
        for c in calls_in(fi.node):
            n += 1
            d = dotted(c.func) or ""
            if d in bad or d.split(".")[0] in ("random", "uuid", "time"):
                ctx.violate("R-C14.3", fi.fq, norm(c), "a process-dependent value is computed in the stub generation code", node=c)
    ctx.floor("R-C14.3", "calls scanned in stubs.py", n, 100)
    ctx.ok("R-C14.3", ST, "no id()/hash()/time/random/uuid/pid call in monkeytype/stubs.py")


def rule_member_order_in_text(ctx: Ctx, repo: Repo) -> None:
    """R-C14.1d: the order of a union's members is arbitrary (it comes from iterating a set of class objects, i.e. from
    memory addresses / hash seeds).  The whole stub text - import block, generated classes, every annotation - is rendered by
    interpretation for the same union in each member order; the two texts must be equal once the members of every
    Union[...] / Optional[...] in them are sorted (names stripped in an order-dependent way, an import that appears only
    for one order, a differently named generated class would all show)."""
    from . import anno_model as AM, sig_model as SM, c11 as C11
    from .codec_model import gen, anon_td, INT, STR, NONE_T
    from .render_model import fkind
    import itertools

    def canon(text: str) -> str:
        tree = ast.parse(text)

        class Sorter(ast.NodeTransformer):
            def visit_Subscript(self, node: ast.Subscript) -> ast.AST:
                self.generic_visit(node)
                if isinstance(node.value, ast.Name) and node.value.id == "Union" and isinstance(node.slice, ast.Tuple):
                    node.slice.elts = sorted(node.slice.elts, key=ast.unparse)
                return node
        return ast.unparse(Sorter().visit(tree))

    C = C11.C
    groups = [
        ("classes of a package and of its sub-package", [C("pkg", "mod"), C("pkg.other", "Thing")]),
        ("classes of utils and my.utils", [C("utils", "A"), C("my.utils", "B")]),
        ("classes of foo and barfoo and None", [C("foo", "Baz"), C("barfoo", "Qux"), NONE_T]),
        ("own class, other class, int", [C(C11.MOD, "User"), C("pkg.other", "Thing"), INT]),
        # (a Union never holds anonymous TypedDicts next to other members: shrink_types turns them into Dict[...] first)
        ("containers of classes of two modules", [gen("List", C("utils", "A")), gen("Dict", STR, C("my.utils", "B")), C("pkg.other", "Outer.Deep")]),
    ]
    n = 0
    for label, members in groups:
        texts = {}
        for perm in itertools.permutations(members):
            typ = gen("Union", *perm)
            k, res = AM.replace_typed_dicts(repo, typ, "foo")
            if k != "return":
                raise AnalysisError(f"ReplaceTypedDictsWithStubs raises on {label}")
            rt, stubs = res.v
            sig = SM.sig([SM.param("self"), SM.param("foo", rt)], rt)
            status, txt, _ = AM.render_module(repo, C11.MOD, "C.meth", fkind("INSTANCE"), sig, stubs, None)
            if status != "return":
                raise AnalysisError(f"rendering {label} fails: {str(txt)[:120]}")
            try:
                texts[tuple(CM_show(x) for x in perm)] = canon(txt)
            except SyntaxError:
                texts[tuple(CM_show(x) for x in perm)] = txt  # reported by C11/C12; compared verbatim here
            n += 1
        distinct = sorted(set(texts.values()))
        ctx.check(len(distinct) == 1, "R-C14.1d", "monkeytype.stubs.ModuleStub.render",
                  "the stub text is the same for every order of a union's members, up to the order of the members themselves",
                  construct=f"{label}: {len(distinct)} different stubs over {len(texts)} member orders" + ("" if len(distinct) == 1 else
                            "; e.g. " + " <> ".join(next(l for l in d.splitlines() if "def meth" in l or "foo:" in l)[:110] for d in distinct[:2])))
    ctx.floor("R-C14.1d", "stubs rendered for permuted union members", n, 20)


def CM_show(x: Any) -> str:
    from .codec_model import show
    return show(x)[:40]


def run(ctx: Ctx, repo: Repo, tier: str) -> None:
    ctx.trust("iteration order of a set is arbitrary: any permutation of insertion orders may occur", "sorted() is deterministic for distinct keys; equal keys keep input order (stable)")
    ctx.assume("merging of a set of types is order-independent (decided under C04, R-C04.4)")
    ctx.attempt(rule_no_process_text, ctx, repo)
    ctx.attempt(rule_eq_hash, ctx, repo)
    ctx.attempt(rule_traces_to_sets, ctx, repo)
    ctx.attempt(rule_render_order, ctx, repo)
    ctx.attempt(rule_rewriters, ctx, repo)
    ctx.attempt(rule_member_order_in_text, ctx, repo)
    # stage conditions of C14 decided in full elsewhere: the query returns each distinct row once, whatever the row order
    # (C09); generated TypedDict classes of different functions are never merged or dropped by name (C06)
    from . import c06 as _c06, c09 as _c09
    ctx.note("R-C09.1-3 and R-C06.4 below are the stage rules of C09 and C06, run here as necessary conditions of C14")
    ctx.attempt(_c09.rule_query, ctx, repo)
    ctx.attempt(_c06.rule_class_stubs_kept_apart, ctx, repo)
    # sets of traced types (and typing.Union) de-duplicate by the hashing and equality of type objects: those are the
    # platform's, except for the ONE catalogued patch (TypedDict equality); any further patch of a foreign class - a
    # __hash__ for TypedDict classes, say - changes which traces survive de-duplication, row order dependent (R-C03.6)
    from . import c03 as _c03
    ctx.attempt(_c03.rule_process_wide_setters, ctx, repo)
    # every type goes through the same chain of rewriters, whatever was rewritten before it in the process (the chain object
    # keeps the rewriters it was given and has no memory) - R-C07.4 and the rewriter histories of C07
    from . import c07 as _c07
    ctx.attempt(_c07.rule_chain, ctx, repo)
    ctx.attempt(_c07.rule_no_memory, ctx, repo)
    ctx.attempt(_c07.rule_nested, ctx, repo)  # incl. "the same type whatever order the members of a (nested) union are in"
    # the merge of generated TypedDicts does not depend on the order in which the traces arrive (R-C04.3 / R-C04.4: every
    # permutation of <= 3 TypedDicts, with distinct value types and with one value type per key - the stage rule of seed C14-P)
    from . import c04 as _c04
    ctx.attempt(_c04.rule_merge, ctx, repo, "quick")
    ctx.settle()
