#!/venv/bin/python
"""tools/seed_reconfirm.py <worktree at /repo HEAD> <seed id>...: after a fix commit in /repo moved HEAD, confirm again that a
(rebased) seeded change still breaks its property there: demo passes on the clean worktree, fails with the patch, and
the failing set of the test suite is the baseline's.  Updates meta.json (field `rebased`)."""
import json, os, subprocess, sys
BASE_FAIL = {"tests/test_config.py::TestDefaultCodeFilter::test_excludes_site_packages"}
def sh(cmd, cwd, env=None, timeout=1200):
    return subprocess.run(cmd, shell=True, cwd=cwd, env=env, capture_output=True, text=True, timeout=timeout)
wt = sys.argv[1]
head = sh("git rev-parse --short HEAD", wt).stdout.strip()
for sid in sys.argv[2:]:
    src = f"/verif/seeded/{sid}"
    sd = os.path.join(wt, "SEED_RE_" + sid.replace("-", "_"))
    import shutil
    shutil.rmtree(sd, ignore_errors=True)
    shutil.copytree(src, sd)  # demos may insist on living inside the worktree they test
    env = dict(os.environ, PYTHONPATH=wt)
    sh("git reset -q --hard HEAD && git clean -fdq -e 'SEED_*'", wt)
    r0 = sh(f"/venv/bin/python {sd}/demo.py", wt, env, 600)
    ra = sh(f"git apply {sd}/patch.diff", wt)
    if ra.returncode:
        print(sid, "PATCH DOES NOT APPLY"); continue
    rt = sh("/venv/bin/python -m pytest -q -p no:cacheprovider --timeout=900 2>&1 | tail -15", wt, env)
    failed = {l.split(" ")[1].split(" - ")[0] for l in rt.stdout.splitlines() if l.startswith("FAILED ")}
    r1 = sh(f"/venv/bin/python {sd}/demo.py", wt, env, 600)
    sh("git reset -q --hard HEAD && git clean -fdq -e 'SEED_*'", wt)
    ok = r0.returncode == 0 and r1.returncode != 0 and failed == BASE_FAIL
    print(sid, "CONFIRMED" if ok else f"NOT CONFIRMED (demo clean={r0.returncode} with={r1.returncode} tests={sorted(failed)})")
    if ok:
        m = json.load(open(f"{src}/meta.json"))
        m["rebased"] = f"patch rebased onto /repo {head} (3-way) after a fix commit touched the same lines; demonstration and test suite re-run there: demo clean exit 0, with the change exit {r1.returncode}, failing set unchanged"
        json.dump(m, open(f"{src}/meta.json", "w"), indent=1)
    shutil.rmtree(sd, ignore_errors=True)
