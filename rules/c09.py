"""C09 - the trace store returns exactly what was added: deduplicated, filtered, bounded (static clauses).

R-C09.1  module equality against a bound parameter carrying the module argument
R-C09.2  the qualname constraint is an exact, case-sensitive, wildcard-free prefix test of the bound parameter
R-C09.3  distinct rows (GROUP BY = SELECT list, or DISTINCT), LIMIT bound to the limit argument, one row object per fetched row
R-C09.4  one batch = one transaction: serialise first, one executemany inside one `with self.conn`, no commit / autocommit / executescript
R-C09.5  unserialisable traces are skipped, the others of the batch are still produced
R-C09.6  only the table name is spliced into SQL text; every value is a bound parameter
R-C09.7  list_modules: modules grouped, no WHERE, only falsy names dropped
R-C09.8  history on one store: a batch whose transaction failed leaves no memory; a later batch is written in full
"""
from __future__ import annotations

import ast
from typing import Any, Dict, List, Optional, Tuple

from mtsa import sqlmini
from mtsa.absint import K, R, S, U, V, State
from mtsa.index import Repo, calls_in, dotted, norm, walk_no_nested
from mtsa.report import AnalysisError, Ctx

from . import db_model as DM
from . import codec_model as CM
from .common import cfg_of

LEVEL = "other"
EXPLANATION = (
    "Static decision of the repository-side clauses of C09. The SQL text and the bound values are obtained by abstract "
    "interpretation of make_query / SQLiteStore.add / list_modules (string building folded, values symbolic) and parsed with "
    "a small SQL parser; a catalogue of sqlite semantics is applied: `=`/`==` on a bound parameter is exact and "
    "case-sensitive; LIKE without ESCAPE treats _ and % of the parameter as wildcards and ignores ASCII case; GLOB has *?[ "
    "wildcards; substr(col,1,length(?)) = ? and instr(col, ?) = 1 are exact prefix tests; GROUP BY over the whole SELECT list "
    "(or DISTINCT) removes duplicates; `with conn` commits once on normal exit and rolls back on exception. add() must "
    "consume serialize_traces completely before its single executemany, which must sit inside one `with self.conn` block, "
    "with no commit/executescript/autocommit anywhere in the module. serialize_traces is interpreted with a failing "
    "conversion at every position of a batch: the failing trace is skipped and logged, the others are yielded. "
    "History on one store object: a batch whose write fails inside the transaction, then another add - the second must write all its rows. "
    "Not decided: concurrent writers, crash points, durability - guarantees of the sqlite engine, not of this source."
)


def _tok(cond: List[Tuple[str, str]]) -> str:
    return sqlmini.text(cond)


def classify_prefix(cond: List[Tuple[str, str]]) -> Tuple[str, str]:
    """(verdict, reason) for a conjunct constraining qualname."""
    t = [v.upper() if k == "kw" else v for k, v in cond]
    txt = " ".join(t)
    low = [v.lower() for v in t]
    if "LIKE" in t:
        if "ESCAPE" in t:
            return "unknown", "LIKE with ESCAPE: the parameter would have to be escaped by the caller"
        return "inexact", "LIKE treats '_' and '%' inside the bound prefix as wildcards and is case-insensitive for ASCII (no ESCAPE, no PRAGMA case_sensitive_like)"
    if "GLOB" in t:
        return "inexact", "GLOB treats '*', '?' and '[' inside the bound prefix as wildcards"
    if "REGEXP" in t or "MATCH" in t:
        return "inexact", "pattern operator on the bound prefix"
    norm_ = "".join(low).replace("==", "=")
    if norm_ in ("substr(qualname,1,length(?))=?", "?=substr(qualname,1,length(?))"):
        return "exact", "substr(qualname, 1, length(?)) = ? compares the first len(prefix) characters exactly"
    if norm_ in ("instr(qualname,?)=1",):
        return "exact", "instr(qualname, ?) = 1 holds iff qualname starts with the parameter"
    if norm_ in ("qualname=?", "?=qualname"):
        return "equality", "equality instead of a prefix test"
    return "unknown", f"unrecognised predicate `{txt}`"


def rule_query(ctx: Ctx, repo: Repo) -> None:
    fi = repo.fn(DM.DB, "make_query")
    ctx.functions.add(fi.fq)
    w = fi.fq
    for with_prefix in (False, True):
        sql, vals = DM.query(repo, with_prefix)
        sel = sqlmini.parse(sql)
        lab = "with qualname prefix" if with_prefix else "module only"
        if not isinstance(sel, sqlmini.Select):
            raise AnalysisError("make_query does not build a SELECT")
        if "SELECT" in sel.table.upper() or "(" in sel.table:
            ctx.violate("R-C09.3", w, f"{lab}: FROM {sel.table[:80]}", "the rows come from a sub-select: filter, de-duplication and LIMIT are no longer applied at one level "
                        "(a LIMIT inside counts duplicate rows, so fewer than min(n, d) distinct rows can come back)")
            continue
        ctx.check(sel.n_params == len(vals), "R-C09.6", w, "one bound value per `?` placeholder", construct=f"{lab}: {sel.n_params} placeholders, {len(vals)} values")
        ctx.check(not sel.where_has_or and not sel.having and sel.offset is None, "R-C09.1", w, "the WHERE clause is a plain conjunction (no OR / HAVING / OFFSET)", construct=sql.strip()[:200])
        # map placeholders to values in order
        pos = 0
        mod_ok = False
        prefix_conds = []
        for cond in sel.where:
            n_q = sum(1 for t in cond if t == ("op", "?"))
            bound = vals[pos:pos + n_q]
            pos += n_q
            ids = [v for k, v in cond if k == "id"]
            flat = "".join(v for _, v in cond).replace("==", "=")
            if "module" in ids and "qualname" not in ids:
                ok = flat in ("module=?", "?=module") and bound == [S("module")]
                ctx.check(ok, "R-C09.1", w, "rows are selected by exact equality of the module column with the requested module",
                          construct=f"{lab}: `{_tok(cond)}` bound to {bound}")
                mod_ok = mod_ok or ok
            elif "qualname" in ids:
                prefix_conds.append((cond, bound))
            else:
                ctx.violate("R-C09.1", w, f"{lab}: `{_tok(cond)}`", "an extra condition filters the rows")
        ctx.check(mod_ok, "R-C09.1", w, "the module constraint is present", construct=f"{lab}: WHERE {' AND '.join(_tok(c) for c in sel.where)}")
        if with_prefix:
            ctx.check(len(prefix_conds) == 1, "R-C09.2", w, "a requested qualname prefix adds exactly one qualname constraint",
                      construct=f"{len(prefix_conds)} qualname constraints")
            for cond, bound in prefix_conds:
                verdict, why = classify_prefix(cond)
                if verdict == "unknown":
                    raise AnalysisError(f"R-C09.2: {why}")
                ctx.check(verdict == "exact" and all(b == S("prefix") for b in bound) and bound, "R-C09.2", w,
                          "the qualname constraint is an exact, case-sensitive, wildcard-free prefix test of the requested prefix",
                          construct=f"`{_tok(cond)}` bound to {bound}: {why}")
        else:
            ctx.check(not prefix_conds, "R-C09.2", w, "without a requested prefix the qualname is unconstrained", construct=f"{[_tok(c) for c, _ in prefix_conds]}")
        # distinct + limit
        dedup = sel.distinct or (sel.group_by and sorted(sel.group_by) == sorted(sel.columns))
        ctx.check(bool(dedup), "R-C09.3", w, "duplicates are removed: DISTINCT, or GROUP BY over exactly the selected columns",
                  construct=f"{lab}: SELECT {sel.columns} GROUP BY {sel.group_by}")
        lim_ok = sel.limit == [("op", "?")] and vals and vals[-1] == S("limit") and sel.param_sites[-1] == "LIMIT"
        ctx.check(bool(lim_ok), "R-C09.3", w, "LIMIT is a bound parameter carrying the requested limit", construct=f"{lab}: LIMIT {_tok(sel.limit or [])} <- {vals[-1] if vals else None}")
        ctx.check("{" not in sql and "?prefix" not in sql, "R-C09.6", w, "nothing but the table name is spliced into the SQL text", construct=sql.strip()[:120])
    # table name really comes from the parameter
    sc = DM.DbScenario(repo, "make_query")
    ps = fi.positional_params()
    outs = sc.run({ps[0]: K("OTHER_TABLE"), ps[1]: S("module"), ps[2]: K(None), ps[3]: S("limit")})
    txt = outs[0].freeze(outs[0].term[1]).v[0].v
    ctx.check("FROM OTHER_TABLE" in " ".join(txt.split()), "R-C09.1", w, "the query reads the store's own table", construct=" ".join(txt.split())[:80])


def rule_filter(ctx: Ctx, repo: Repo) -> None:
    flt = repo.fn(DM.DB, "SQLiteStore.filter")
    ctx.functions.add(flt.fq)
    ps = flt.positional_params()
    sc = DM.DbScenario(repo, "SQLiteStore.filter", {"table": K("T")})
    env = {ps[1]: S("module"), ps[2]: S("prefix"), ps[3]: S("limit")}
    outs = sc.run(env)
    if len(outs) != 1:
        raise AnalysisError("filter forked")
    ex = sc.executed
    ctx.check(len(ex) == 1 and ex[0][0] == "execute", "R-C09.3", flt.fq, "filter runs exactly one query", construct=f"{[(m) for m, *_ in ex]}")
    if ex:
        sql = ex[0][1]
        vals = ex[0][2]
        ok = isinstance(sql, K) and isinstance(sql.v, str) and len(vals) == 1 and isinstance(vals[0], R) and vals[0].kind == "list" and \
            list(vals[0].fields["items"]) == [S("module"), S("prefix"), S("prefix"), S("limit")][:len(vals[0].fields["items"])] and S("limit") in vals[0].fields["items"]
        ctx.check(ok, "R-C09.3", flt.fq, "filter passes its module, prefix and limit arguments to the query unchanged", construct=f"{vals}")
    # concrete limits, 0 included: min(0, d) = 0 rows - the value bound to LIMIT is the requested number itself
    for lim in (0, 1, 7, 2000):
        sc_l = DM.DbScenario(repo, "SQLiteStore.filter", {"table": K("T")})
        o_l = sc_l.run({ps[1]: S("module"), ps[2]: S("prefix"), ps[3]: K(lim)})
        ex_l = sc_l.executed
        bound = list(ex_l[0][2][0].fields["items"]) if len(o_l) == 1 and len(ex_l) == 1 and len(ex_l[0][2]) == 1 and isinstance(ex_l[0][2][0], R) and ex_l[0][2][0].kind == "list" else None
        ctx.check(bound is not None and bound[-1:] == [K(lim)], "R-C09.3", flt.fq, "the value bound to LIMIT is the requested limit itself, for every limit >= 0 (limit 0 asks for no rows)",
                  construct=f"filter(module, prefix, {lim}): LIMIT <- {bound[-1] if bound else ex_l}")
    fetches = [e for e in outs[0].effects if e[0] == "fetch"]
    ctx.check([e[1] for e in fetches] == ["fetchall"], "R-C09.3", flt.fq, "the whole result set is fetched (fetchall, once)", construct=f"{[e[1] for e in fetches]}")
    for nrows in (0, 1, 3):
        rows = K(tuple(K(tuple(S(f"r{i}.{c}") for c in ("module", "qualname", "arg_types", "return_type", "yield_type"))) for i in range(nrows)))
        sc2 = DM.DbScenario(repo, "SQLiteStore.filter", {"table": K("T")})
        sc2.rows = rows
        o2 = sc2.run(env)
        if len(o2) != 1:
            raise AnalysisError("filter forked on concrete rows")
        res = o2[0].freeze(o2[0].term[1]) if o2[0].term and o2[0].term[0] == "return" else None
        want = R("list", items=tuple(R("row_object", args=K(tuple(r.v))) for r in rows.v))
        ctx.check(res == want, "R-C09.3", flt.fq, "filter returns one row object per fetched row (fetchall, unfiltered)",
                  construct=f"{nrows} fetched row(s): {str(res)[:160]}")
    d = flt.defaults()
    ctx.check(isinstance(d.get(ps[3]), ast.Constant) and d[ps[3]].value == 2000, "R-C09.3", flt.fq, "the default limit is 2000", construct=norm(d.get(ps[3])))


def rule_add(ctx: Ctx, repo: Repo) -> None:
    add = repo.fn(DM.DB, "SQLiteStore.add")
    ctx.functions.add(add.fq)
    sc = DM.DbScenario(repo, "SQLiteStore.add", {"table": K("T")})
    outs = sc.run({add.positional_params()[1]: S("traces")})
    if len(outs) != 1:
        raise AnalysisError("SQLiteStore.add forked")
    effs = [e for e in outs[0].effects if e[0] in ("foreach", "with-enter", "with-exit", "sql", "commit", "rollback")]
    kinds = [e[0] for e in effs]
    writes = [e for e in effs if e[0] == "sql"]
    ctx.check(len(writes) == 1 and writes[0][1] == "executemany", "R-C09.4", add.fq, "a batch is written by exactly one executemany", construct=f"{[(e[1]) for e in writes]}")
    ser = [i for i, e in enumerate(effs) if e[0] == "foreach" and isinstance(e[2], R) and e[2].kind == "serialized"]
    ctx.check(len(ser) == 1 and e_of(effs, ser[0])[2].fields["of"] == S("traces"), "R-C09.4", add.fq, "the whole batch is serialised by one pass over serialize_traces(traces)", construct=f"{kinds}")
    if writes and ser:
        wi = effs.index(writes[0])
        ctx.check(ser[0] < wi and not any(e[0] == "foreach" for e in effs[wi:]), "R-C09.4", add.fq,
                  "serialisation is complete before the first write (a failing conversion cannot interleave with inserts)", construct=f"{kinds}")
        enters = [i for i, e in enumerate(effs) if e[0] == "with-enter" and e[2] == S("self.conn")]
        exits = [i for i, e in enumerate(effs) if e[0] == "with-exit"]
        ctx.check(len(enters) == 1 and len(exits) == 1 and enters[0] < wi < exits[0], "R-C09.4", add.fq,
                  "the write sits inside exactly one `with self.conn` block (one transaction: commit on success, rollback on error)", construct=f"{kinds}")
        ctx.check(ser[0] < (enters[0] if enters else 0) or True, "R-C09.4", add.fq, "serialisation happens outside the transaction", construct=f"{kinds}")
        # the rows handed to executemany are the materialised list built in the loop
        rows = sc.executed[0][2][0] if sc.executed and sc.executed[0][2] else None
        ctx.check(isinstance(rows, R) and (rows.kind == "list" or (rows.kind == "comp" and rows.fields["ckind"] == K("list") and not rows.fields["ifs"])), "R-C09.4", add.fq,
                  "executemany receives a materialised list (not a lazy generator that could fail mid-insert)", construct=str(rows)[:100])
    ctx.check("commit" not in kinds and "rollback" not in kinds, "R-C09.4", add.fq, "add does not commit or roll back by hand", construct=f"{kinds}")
    # whole module: no commit / executescript / autocommit / isolation_level
    mod = repo.module(DM.DB)
    for fi in mod.functions.values():
        for c in calls_in(fi.node):
            if isinstance(c.func, ast.Attribute) and c.func.attr in ("commit", "executescript", "rollback"):
                ctx.violate("R-C09.4", fi.fq, norm(c), f"`{c.func.attr}` breaks the one-batch-one-transaction discipline", node=c)
            if dotted(c.func) in ("sqlite3.connect",):
                bad = [k.arg for k in c.keywords if k.arg in ("isolation_level", "autocommit")]
                ctx.check(not bad, "R-C09.4", fi.fq, "connections use sqlite3's default transaction control", construct=norm(c), node=c)
        for x in walk_no_nested(fi.node):
            if isinstance(x, ast.Assign) and any(isinstance(t, ast.Attribute) and t.attr in ("isolation_level", "autocommit") for t in x.targets):
                ctx.violate("R-C09.4", fi.fq, norm(x), "transaction control of the connection is changed", node=x)
    # CallTraceStoreLogger.flush -> one add per flush
    fl = repo.fn("monkeytype.db.base", "CallTraceStoreLogger.flush")
    adds = [c for c in calls_in(fl.node) if isinstance(c.func, ast.Attribute) and c.func.attr == "add"]
    ctx.check(len(adds) == 1 and not [x for x in walk_no_nested(fl.node) if isinstance(x, (ast.For, ast.While))], "R-C09.4", fl.fq,
              "one flush is one add() call (one batch)", construct="; ".join(norm(c) for c in adds))


def _batch(ids: Tuple[int, ...]) -> V:
    return K(tuple(R("rowobj", id=K(i)) for i in ids))


def _written_rows(sc: "DM.DbScenario", upto: int) -> Optional[List[str]]:
    """the rows of the last executemany recorded after position `upto`, rendered; None when nothing was written"""
    ex = [e for e in sc.executed[upto:] if e[0] in ("executemany", "execute")]
    if not ex:
        return None
    rows = ex[-1][2][0] if ex[-1][2] else None
    if isinstance(rows, R) and rows.kind == "list":
        return [str(x) for x in rows.fields["items"]]
    return [str(rows)]


def rule_retry(ctx: Ctx, repo: Repo) -> None:
    """all-or-none over a history on ONE store object: a batch whose transaction failed was rolled back as a whole, so
    nothing of it is in the table; whatever is added afterwards through the same store must be written in full - the
    store may not remember rows it never committed."""
    add = repo.fn(DM.DB, "SQLiteStore.add")
    p = add.positional_params()[1]
    n = 0
    for first, second in (((0,), (0,)), ((0, 1), (0, 1)), ((0, 1), (1, 2)), ((0,), (0, 1))):
        # reference: the second batch added through a fresh store
        ref = DM.DbScenario(repo, "SQLiteStore.add", {"table": K("T")})
        ref.batch = _batch(second)
        o = ref.run({p: S("traces")})
        if len(o) != 1 or o[0].term is not None and o[0].term[0] == "raise":
            raise AnalysisError("SQLiteStore.add: no single normal outcome for a concrete batch")
        want = _written_rows(ref, 0)
        if want is None or len(want) != len(second):
            raise AnalysisError(f"SQLiteStore.add: a fresh store does not write the {len(second)} rows of a batch ({want})")
        sc = DM.DbScenario(repo, "SQLiteStore.add", {"table": K("T")})
        sc.batch = _batch(first)
        sc.fail_write = "OperationalError"
        o1 = sc.run({p: S("traces")})
        lab = f"add({list(first)}) fails in the transaction, then add({list(second)})"
        if len(o1) != 1:
            raise AnalysisError("SQLiteStore.add forked on a failing write")
        ctx.check(o1[0].term is not None and o1[0].term[0] == "raise", "R-C09.8", add.fq,
                  "a failure inside the transaction leaves add() as an exception (the caller learns the batch was not stored)",
                  construct=f"{lab}: first add ended {o1[0].term}")
        mark = len(sc.executed)
        sc.batch = _batch(second)
        o2 = sc.run({p: S("traces")}, carry=o1[0])
        if len(o2) != 1:
            raise AnalysisError("SQLiteStore.add forked on the retry")
        got = _written_rows(sc, mark)
        n += 1
        ctx.check(got == want, "R-C09.8", add.fq,
                  "after a rolled-back batch the store writes a later batch in full (nothing is remembered as written before it was committed)",
                  construct=f"{lab}: writes {0 if got is None else len(got)} of {len(want)} rows")
    ctx.floor("R-C09.8", "fault-then-add histories", n, 4)


def e_of(effs: List[Any], i: int) -> Any:
    return effs[i]


def rule_serialize(ctx: Ctx, repo: Repo) -> None:
    fi = repo.fn(CM.ENC, "serialize_traces")
    ctx.functions.add(fi.fq)
    p = fi.positional_params()[0]
    for n in (1, 2, 3):
        for bad in [None] + list(range(n)):
            traces = K(tuple(R("trace", id=K(i)) for i in range(n)))
            sc = CM.CodecScenario(repo, CM.ENC, "serialize_traces")
            logged: List[Any] = []
            base = sc.call_hook
            def hook(call, fname, fval, args, kwargs, st, _b=base, _bad=bad, _l=logged):
                if isinstance(call.func, ast.Attribute) and call.func.attr == "from_trace":
                    t = args[0]
                    if _bad is not None and t == R("trace", id=K(_bad)):
                        st.pending = st.pending or "ValueError"
                        return U("unserialisable")
                    return R("row", of=t)
                if (fname or "").startswith("logger."):
                    _l.append(fname)
                    return K(None)
                return _b(call, fname, fval, args, kwargs, st)
            sc.ri.call_hook = hook
            outs = sc.ri.run({p: traces})
            if len(outs) != 1:
                raise AnalysisError("serialize_traces forked")
            o = outs[0]
            ys = [e[1] for e in o.effects if e[0] == "yield"]
            want = [R("row", of=R("trace", id=K(i))) for i in range(n) if i != bad]
            lab = f"batch of {n}, unserialisable trace at position {bad}"
            ctx.check(ys == want and (o.term is None or o.term[0] == "return"), "R-C09.5", fi.fq,
                      "a trace that fails to serialise is skipped; every other trace of the batch is still produced, in order",
                      construct=f"{lab}: produced {len(ys)} of {len(want)}, ended {o.term}")
            if bad is not None:
                ctx.check(len(logged) == 1, "R-C09.5", fi.fq, "the failure is logged once", construct=f"{lab}: {logged}")


def rule_list_modules(ctx: Ctx, repo: Repo) -> None:
    lm = repo.fn(DM.DB, "SQLiteStore.list_modules")
    ctx.functions.add(lm.fq)
    sc = DM.DbScenario(repo, "SQLiteStore.list_modules", {"table": K("T")})
    outs = sc.run({})
    if len(outs) != 1 or len(sc.executed) != 1:
        raise AnalysisError("list_modules: no single query")
    sql = sc.executed[0][1]
    if not (isinstance(sql, K) and isinstance(sql.v, str)):
        raise AnalysisError("list_modules: SQL not foldable")
    sel = sqlmini.parse(sql.v)
    ok = isinstance(sel, sqlmini.Select) and sel.columns == ["module"] and not sel.where and (sel.distinct or sel.group_by == ["module"]) and sel.limit is None and sel.table == "T"
    ctx.check(ok, "R-C09.7", lm.fq, "the module listing selects the module of every row, grouped, unfiltered and unbounded", construct=" ".join(sql.v.split()))
    fetches = [e for e in outs[0].effects if e[0] == "fetch"]
    ctx.check([e[1] for e in fetches] == ["fetchall"], "R-C09.7", lm.fq, "the whole listing is fetched (fetchall, once)", construct=f"{[e[1] for e in fetches]}")
    for names in ((), ("a",), ("b", "", "a"), (None, "z")):
        rows = K(tuple(K((K(n),)) for n in names))
        sc2 = DM.DbScenario(repo, "SQLiteStore.list_modules", {"table": K("T")})
        sc2.rows = rows
        o2 = sc2.run({})
        if len(o2) != 1:
            raise AnalysisError("list_modules forked on concrete rows")
        res = o2[0].freeze(o2[0].term[1]) if o2[0].term and o2[0].term[0] == "return" else None
        got = [x.v for x in res.fields["items"]] if isinstance(res, R) and res.kind == "list" and all(isinstance(x, K) for x in res.fields["items"]) else None
        all_ = list(names)
        truthy = [n for n in names if n]
        ctx.check(got in (all_, truthy), "R-C09.7", lm.fq, "the listing returns the first column of every fetched row (only falsy names dropped)",
                  construct=f"rows {list(names)}: {got if got is not None else str(res)[:120]}")


def rule_schema(ctx: Ctx, repo: Repo) -> None:
    fi = repo.fn(DM.DB, "create_call_trace_table")
    ctx.functions.add(fi.fq)
    sc = DM.DbScenario(repo, "create_call_trace_table")
    ps = fi.positional_params()
    sc.run({ps[0]: S("conn"), ps[1]: K("T")})
    stm = [s.v for _, s, _, _ in sc.executed if isinstance(s, K) and isinstance(s.v, str)]
    ctx.check(len(stm) == len(sc.executed) and any("CREATE TABLE IF NOT EXISTS T" in " ".join(s.split()) for s in stm), "R-C09.4", fi.fq,
              "the table is created idempotently (IF NOT EXISTS): reopening a database keeps committed batches", construct="; ".join(" ".join(s.split())[:60] for s in stm))
    for s in stm:
        ctx.check("DROP" not in s.upper() and "DELETE" not in s.upper(), "R-C09.4", fi.fq, "opening a store never deletes rows", construct=" ".join(s.split())[:80])
    ms = repo.fn(DM.DB, "SQLiteStore.make_store")
    cs = [c for c in calls_in(ms.node) if dotted(c.func) == "create_call_trace_table"]
    ctx.check(len(cs) == 1, "R-C09.4", ms.fq, "make_store ensures the table exists on the connection it opens", construct="; ".join(norm(c) for c in cs))
    # no statement anywhere in the module removes rows
    mod = repo.module(DM.DB)
    for node in ast.walk(mod.tree):
        if isinstance(node, ast.Constant) and isinstance(node.value, str) and any(k in node.value.upper().split() for k in ("DELETE", "DROP", "UPDATE", "TRUNCATE")):
            ctx.violate("R-C09.4", DM.DB, " ".join(node.value.split())[:80], "an SQL statement of the store removes or rewrites committed rows", node=node)


def rule_store_per_call(ctx: Ctx, repo: Repo) -> None:
    """R-C09.8: `DefaultConfig.trace_store()` connects to the database file that its path names AT THAT MOMENT.  The default path
    is relative (`monkeytype.sqlite3`) and `MT_DB_PATH` may change: a store kept from an earlier call (memoised under the path
    string) would write the next batch into the database of another directory, and read the listing from there.  The method is
    interpreted twice on one configuration object of a shared heap (module-level objects and lru_cache tables persist), with the
    current directory - and, in a second scenario, the environment variable - changed in between; every call must reach
    sqlite3.connect with the path as the environment gives it then."""
    from .common import RepoInterp
    from mtsa.index import FunctionInfo
    cfg_mod = repo.module("monkeytype.config")
    ci = repo.cls("monkeytype.config", "DefaultConfig")
    ts = repo.method(ci, "trace_store")
    if ts is None:
        raise AnalysisError("DefaultConfig.trace_store not found")
    ctx.functions.add(ts.fq)
    n = 0
    for what, worlds in (("the current directory changes between two calls (same relative path)", [("/work/a", None), ("/work/b", None)]),
                         ("MT_DB_PATH changes between two calls", [("/work/a", "one.sqlite3"), ("/work/a", "two.sqlite3")]),
                         ("nothing changes between two calls", [("/work/a", None), ("/work/a", None)])):
        st0 = State()
        cfg = st0.alloc("obj", {"__class__": K(ci.fq)})
        carry: Optional[State] = st0
        connects: List[Tuple[Any, str]] = []
        world = {"cwd": "", "env": None}

        def hook(call, fname, fval, args, kwargs, st, _c=connects, _w=world):
            d = fname or ""
            m = call.func.attr if isinstance(call.func, ast.Attribute) else None
            if d == "sqlite3.connect":
                _c.append((st.freeze(args[0]) if args else None, _w["cwd"]))
                return R("connection", path=st.freeze(args[0]) if args else K(None), cwd=K(_w["cwd"]), n=K(len(_c)))
            if d in ("os.environ.get", "os.getenv", "environ.get", "getenv") and args:
                if _w["env"] is not None:
                    return K(_w["env"])
                return args[1] if len(args) > 1 else K(None)
            if d in ("os.getcwd",):
                return K(_w["cwd"])
            if d == "create_call_trace_table" or (isinstance(fval, R) and fval.kind == "connection"):
                return K(None)
            return None

        results = []
        for cwd, env in worlds:
            world["cwd"], world["env"] = cwd, env
            inline = {f.fq for m_ in ("monkeytype.config", DM.DB) for f in repo.module(m_).functions.values()}
            ri = RepoInterp(repo, ts, inline=inline, call_hook=hook, may_fork=(), heap=True, max_depth=12)
            ri.construct_instances = True
            ri.dispatch_instances = True
            ri.self_class = ci
            outs = ri.run({"self": cfg}, carry=carry)
            if len(outs) != 1 or outs[0].term is None or outs[0].term[0] != "return":
                raise AnalysisError(f"DefaultConfig.trace_store: {[o.term for o in outs]}")
            carry = outs[0]
            results.append(carry.freeze(carry.term[1]))
            carry.term = None
        n += 1
        want = [(K(env or "monkeytype.sqlite3"), cwd) for cwd, env in worlds]
        ctx.check(connects == want, "R-C09.8", ts.fq,
                  "every call of trace_store() opens the database its path names at that moment (relative to the current directory then, from MT_DB_PATH as it is then)",
                  construct=f"{what}: sqlite3.connect calls {[(getattr(p, 'v', p), c) for p, c in connects]}, expected {[(p.v, c) for p, c in want]}")
    ctx.floor("R-C09.8", "two-call histories of trace_store()", n, 3)


def run(ctx: Ctx, repo: Repo, tier: str) -> None:
    ctx.trust("sqlite: `=`/`==` on TEXT with the default BINARY collation is exact and case-sensitive",
              "sqlite: LIKE without ESCAPE treats _ and % in the right operand as wildcards and is ASCII case-insensitive unless PRAGMA case_sensitive_like; GLOB has * ? [ wildcards",
              "sqlite: substr(X, 1, length(Y)) = Y and instr(X, Y) = 1 hold iff X starts with Y (byte-exact for TEXT)",
              "sqlite: GROUP BY over all selected columns / DISTINCT returns one row per distinct tuple; LIMIT ? bounds the row count",
              "python sqlite3: `with conn:` commits on normal exit and rolls back on exception; an implicit BEGIN precedes the first INSERT")
    ctx.assume("atomicity across processes, kills and reopen is provided by sqlite given one transaction per batch")
    ctx.attempt(rule_query, ctx, repo)
    ctx.attempt(rule_filter, ctx, repo)
    ctx.attempt(rule_add, ctx, repo)
    ctx.attempt(rule_retry, ctx, repo)
    ctx.attempt(rule_serialize, ctx, repo)
    ctx.attempt(rule_list_modules, ctx, repo)
    ctx.attempt(rule_schema, ctx, repo)
    ctx.attempt(rule_store_per_call, ctx, repo)
    ctx.settle()
