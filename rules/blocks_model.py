"""Tracing blocks with real tracer objects: `with trace_calls(L1, k1): with trace_calls(L2, k2): <events>` interpreted as a
whole - trace_calls runs as the context manager it is, CallTracer.__init__ builds an object on the scenario's heap, the
profiler cell of the thread is a one-cell world, and a traced call is delivered as a call / return event pair to
whichever object is the installed profiler at that moment (its __call__ is interpreted, with the tracer's own
containers on its own object).  What the loggers received, and under which limit every recorded type was inferred, is
what the rules look at."""
from __future__ import annotations

import ast
from typing import Any, Dict, List, Optional, Tuple

from mtsa.absint import K, R, Ref, S, U, V, State
from mtsa.index import FunctionInfo, Repo
from mtsa.report import AnalysisError

from .common import RepoInterp, block_entry
from .tracer_model import TRACER_INLINE_STOP, corpus_points, frame_value

M = "monkeytype.tracing"


def _points() -> Tuple[Any, Any]:
    exits, entries = corpus_points()
    for pe in entries:
        if pe.kind == "entry" and pe.code.co_argcount == 1 and not (pe.code.co_flags & 0x2A0):
            for pr in exits:
                if pr.code is pe.code and pr.kind == "return":
                    return pe, pr
    raise AnalysisError("corpus: no plain one-argument function with a return point")


class BlocksScenario:
    """driver source: statements using trace_calls(...) and EVENTS(<tag>) calls; loggers are the parameters L1, L2"""

    def __init__(self, repo: Repo, body_src: str, filters: Optional[Dict[str, bool]] = None) -> None:
        self.repo = repo
        mod = repo.module(M)
        src = "def __driver__(L1, L2, F1, F2):\n" + "\n".join("    " + ln for ln in body_src.strip("\n").split("\n")) + "\n"
        node = ast.parse(src).body[0]
        self.fi = FunctionInfo(mod, "<driver>", node)
        inline = {f.fq for f in mod.functions.values() if f.qualname.split(".")[-1] not in TRACER_INLINE_STOP}
        self.ri = RepoInterp(repo, self.fi, inline=inline, call_hook=self.hook, may_fork=(), heap=True, max_depth=24)
        self.ri.construct_instances = True
        self.ri.dispatch_instances = True
        self.world: Dict[str, V] = {"profile": R("profiler", name=K("P0"))}
        self.logged: List[Tuple[str, V]] = []        # (logger name, frozen trace)
        self.flushed: List[str] = []
        self.filters = filters or {}
        self.pe, self.pr = _points()
        self.n_events = 0
        self.n_draws = 0
        self.draw = lambda bound, k: 0  # what randrange(bound) answers at the k-th draw

    # ------------------------------------------------------------------
    def hook(self, call: ast.Call, fname: Optional[str], fval: Optional[V], args: List[V], kwargs: Dict[str, V], st: State) -> Optional[V]:
        d = fname or ""
        meth = call.func.attr if isinstance(call.func, ast.Attribute) else None
        if d == "sys.getprofile":
            return self.world["profile"]
        if d == "sys.setprofile" and len(args) == 1:
            self.world["profile"] = args[0]
            return K(None)
        if d == "EVENTS" and len(args) == 1:
            return self.deliver(call, args[0], st)
        if isinstance(fval, S) and fval.name in ("p:L1", "p:L2") and meth is not None:
            if meth == "log" and args:
                self.logged.append((fval.name[2:], st.freeze(args[0])))
            elif meth == "flush":
                self.flushed.append(fval.name[2:])
            return K(None)
        held = st.deref(fval).get(meth) if isinstance(fval, Ref) and fval.kind == "obj" and meth is not None and isinstance(st.deref(fval), dict) else fval
        if isinstance(held, S) and held.name in ("p:F1", "p:F2"):
            return K(self.filters.get(held.name[2:], True))  # a code filter of the scenario: accepts / rejects every code object
        if d == "isinstance" and len(args) == 2 and isinstance(args[0], R) and args[0].kind == "profiler":
            return K(False)  # some other profile function of the program: not an object of the package
        if d in ("random.Random", "Random"):
            return R("opaque", what=K("random.Random()"))
        if d.startswith("logging.") or (meth in ("exception", "error", "warning", "info", "debug") and not isinstance(fval, (S, Ref))):
            return R("opaque", what=K("logging"))
        if isinstance(fval, R) and fval.kind == "opaque" and fval.fields.get("what") == K("random.Random()") and meth in ("randrange", "randint", "random", "getrandbits", "choice"):
            # the tracer's own generator: the scenario scripts what it answers (self.draw: upper bound -> value)
            self.n_draws += 1
            if meth == "randrange" and len(args) == 1 and isinstance(args[0], K) and isinstance(args[0].v, int):
                return K(self.draw(args[0].v, self.n_draws))
            if meth == "random":
                return K(0.999999 if self.draw(2, self.n_draws) else 0.0)
            return None
        if isinstance(fval, R) and fval.kind == "opaque":
            return K(None)
        callee = None
        try:
            callee = self.ri.resolve(call, fval)
        except Exception:
            callee = None
        if callee is not None:
            tail = callee.qualname.split(".")[-1]
            if tail == "get_type":
                mt = kwargs.get("max_typed_dict_size", args[1] if len(args) > 1 else K("<missing>"))
                return R("typeof", of=st.freeze(args[0]) if args else U("?"), limit=st.freeze(mt))
            if tail == "get_func":
                return R("func", __module__=K("app"), __qualname__=K("f"), __name__=K("f"))
        return None

    def deliver(self, call: ast.Call, tag: V, st: State) -> V:
        """one traced call `f(v)` made while the block runs: a call event and a return event for whatever is installed"""
        prof = self.world["profile"]
        if not (isinstance(prof, Ref) and prof.kind == "obj"):
            return K(None)  # no tracer installed (the outer profiler P0): nothing is recorded
        self.n_events += 1
        val = R("val", tag=tag)
        fv = frame_value(self.pe, f_locals=R("dict", items=((K(self.pe.code.co_varnames[0]), val),)), extra={"ident": K(f"frame-{self.n_events}")})
        frame = st.alloc("obj", dict(fv.fields))  # ONE frame object for both events: the interpreter advances its f_lasti
        bm = R("boundmethod", name=K("__call__"), self=prof)
        for ev, arg, lasti in (("call", K(None), self.pe.offset), ("return", R("val", tag=K(f"result of {tag.v if isinstance(tag, K) else tag}")), self.pr.offset)):
            st.deref(frame)["f_lasti"] = K(lasti)
            r = self.ri.call_value(bm, call, [frame, K(ev), arg], {}, st)
            if r is None or st.pending is not None:
                raise AnalysisError(f"blocks scenario: the installed tracer's __call__ could not be interpreted for a {ev} event ({st.pending})")
        return K(None)

    def run(self) -> State:
        outs = self.ri.run({"L1": S("p:L1"), "L2": S("p:L2"), "F1": S("p:F1"), "F2": S("p:F2")})
        if len(outs) != 1:
            raise AnalysisError(f"blocks scenario: {len(outs)} outcomes")
        return outs[0]


def limits_in(v: Any) -> List[Any]:
    """the limits under which the types recorded in a (frozen) trace were inferred"""
    out: List[Any] = []
    if isinstance(v, R):
        if v.kind == "typeof":
            out.append(v.fields.get("limit"))
        for x in v.fields.values():
            out += limits_in(x)
    elif isinstance(v, K) and isinstance(v.v, (tuple, frozenset)):
        for x in v.v:
            out += limits_in(x)
    elif isinstance(v, (tuple, list)):
        for x in v:
            out += limits_in(x)
    return out


BLOCK_SHAPES = [
    ("two nested blocks, limit 0 outside and 5 inside",
     "with trace_calls(L1, 0, None, None):\n    EVENTS('outer-before')\n    with trace_calls(L2, 5, None, None):\n        EVENTS('inner')\n    EVENTS('outer-after')\n", {"L1": 0, "L2": 5}),
    ("two nested blocks, limit 5 outside and 0 inside",
     "with trace_calls(L1, 5, None, None):\n    with trace_calls(L2, 0, None, None):\n        EVENTS('inner')\n    EVENTS('outer-after')\n", {"L1": 5, "L2": 0}),
    ("two nested blocks with code filters",
     "with trace_calls(L1, 0, F1, None):\n    with trace_calls(L2, 3, F2, None):\n        EVENTS('inner')\n    EVENTS('outer-after')\n", {"L1": 0, "L2": 3}),
    ("two blocks one after the other",
     "with trace_calls(L1, 2, None, None):\n    EVENTS('first')\nwith trace_calls(L2, 0, None, None):\n    EVENTS('second')\nEVENTS('outside')\n", {"L1": 2, "L2": 0}),
    ("a block nested in a block of the same logger with another limit",
     "with trace_calls(L1, 0, None, None):\n    with trace_calls(L1, 4, None, None):\n        EVENTS('inner')\n    EVENTS('outer-after')\n", None),
]


def rule_blocks(ctx: Any, repo: Repo, rule: str, once_rule: Optional[str] = None) -> None:
    """Every type in a trace was inferred under the limit of the block whose tracer recorded the call, and the trace goes to
    that block's logger only (so a store never holds types built under another configuration's limit); a call made while
    a block is active is logged exactly once, a call made outside every block not at all."""
    tc = block_entry(repo)
    ctx.functions.add(tc.fq)
    n = 0
    for what, src, limits in BLOCK_SHAPES:
        sc = BlocksScenario(repo, src)
        o = sc.run()
        n += 1
        ended = o.term is None or o.term[0] == "return"
        ctx.check(ended, rule, tc.fq, "the blocks run to their end", construct=f"{what}: {o.term}")
        # which block was innermost when each EVENTS(tag) ran, read off the driver's own text
        want: Dict[str, Tuple[str, int]] = {}
        stack: List[Tuple[int, str, int]] = []
        for ln in src.split("\n"):
            ind = len(ln) - len(ln.lstrip())
            while stack and stack[-1][0] >= ind:
                stack.pop()
            t = ln.strip()
            if t.startswith("with trace_calls("):
                a = [x.strip() for x in t[len("with trace_calls("):].split(")")[0].split(",")]
                stack.append((ind, a[0], int(a[1])))
            elif t.startswith("EVENTS(") and stack:
                want[t[len("EVENTS('"):-2]] = (stack[-1][1], stack[-1][2])
        seen: Dict[str, List[str]] = {}
        for lname, tr in sc.logged:
            at = tr.fields.get("arg_types") if isinstance(tr, R) else None
            tags = [x.fields["of"].fields["tag"].v for _, x in (at.fields["items"] if isinstance(at, R) and at.kind == "dict" else ()) if isinstance(x, R) and x.kind == "typeof"]
            tag = tags[0] if tags else "?"
            seen.setdefault(tag, []).append(lname)
            lims = limits_in(tr)
            w_logger, w_limit = want.get(tag, ("?", -1))
            ctx.check(bool(lims) and all(l == K(w_limit) for l in lims) and lname == w_logger, rule, f"{M}.CallTracer.handle_return",
                      "a trace goes to the logger of the block whose tracer recorded the call, and its types were inferred under that block's limit (a store configured with limit 0 never receives a TypedDict built under another block's limit)",
                      construct=f"{what}: the call '{tag}' was logged to {lname} with types inferred under limit(s) {sorted({str(getattr(l, 'v', l)) for l in lims})}; its block is ({w_logger}, limit {w_limit})")
        for tag, (w_logger, _) in want.items():
            ctx.check(seen.get(tag, []) == [w_logger], once_rule or rule, f"{M}.CallTracer.handle_return",
                      "a call made while a tracing block is active is logged exactly once, to that block's logger",
                      construct=f"{what}: the call '{tag}' was logged to {seen.get(tag, [])}")
        ctx.check(not [t for t in seen if t not in want], once_rule or rule, tc.fq, "a call made outside every tracing block is not logged", construct=f"{what}: {[t for t in seen if t not in want]}")
    ctx.floor(rule, "tracing-block shapes interpreted with real tracer objects", n, 5)


class ConfiguredBlock(BlocksScenario):
    """`with monkeytype.trace(<shipped configuration object>): <events>` - the whole default wiring with real objects:
    get_default_config() / DefaultConfig() build a configuration object on the heap, its methods run from the source
    (trace_logger, code_filter, sample_rate, max_typed_dict_size and whatever else trace() asks it), the store is an
    opaque collaborator, the tracer is a real object."""

    def __init__(self, repo: Repo, body_src: str, config_ctor: str = "DefaultConfig()") -> None:
        self.repo = repo
        pkg = repo.module("monkeytype")
        src = f"def __driver__(L1, L2, F1, F2):\n    CONFIG = {config_ctor}\n" + "\n".join("    " + ln for ln in body_src.strip("\n").split("\n")) + "\n"
        # the driver lives in monkeytype/__init__.py (where `trace` is) and sees the configuration classes
        node = ast.parse(src).body[0]
        self.fi = FunctionInfo(pkg, "<driver>", node)
        inline = set()
        for mn in ("monkeytype", M, "monkeytype.config", "monkeytype.db.base"):
            inline |= {f.fq for f in repo.module(mn).functions.values() if f.qualname.split(".")[-1] not in TRACER_INLINE_STOP | {"default_code_filter", "trace_store"}}
        self.ri = RepoInterp(repo, self.fi, inline=inline, call_hook=self.hook2, may_fork=(), heap=True, max_depth=24)
        self.ri.construct_instances = True
        self.ri.dispatch_instances = True
        self.world = {"profile": R("profiler", name=K("P0"))}
        self.logged = []
        self.flushed = []
        self.filters = {}
        self.pe, self.pr = _points()
        self.n_events = 0
        self.rng_seeds: List[Tuple[Any, ...]] = []
        self.n_draws = 0
        self.draw = lambda bound, k: 0
        self.stored: List[V] = []
        base_name = self.ri.on_name
        def on_name(name: str, st: State) -> Optional[V]:
            if name in ("DefaultConfig", "Config") and self.ri.cur_fi is self.fi:
                ci = repo.cls("monkeytype.config", name, required=False)
                if ci is not None:
                    return S("class:" + ci.fq)
            return base_name(name, st)
        self.ri.on_name = on_name  # type: ignore[method-assign]
        self.ri.interp.on_name = on_name

    def hook2(self, call: ast.Call, fname: Optional[str], fval: Optional[V], args: List[V], kwargs: Dict[str, V], st: State) -> Optional[V]:
        d = fname or ""
        meth = call.func.attr if isinstance(call.func, ast.Attribute) else None
        if d in ("random.Random", "Random", "random.SystemRandom", "SystemRandom"):
            self.rng_seeds.append((d, tuple(st.freeze(a) for a in args), tuple(sorted((k, st.freeze(v)) for k, v in kwargs.items()))))
            return R("opaque", what=K("random.Random()"))
        if d == "DefaultConfig" and self.ri.cur_fi is self.fi:
            ci = self.repo.cls("monkeytype.config", "DefaultConfig")
            obj = st.alloc("obj", {"__class__": K(ci.fq)})
            init = self.repo.method(ci, "__init__")
            if init is not None:
                self.ri.inline_call(init, call, obj, list(args), dict(kwargs), st)
            return obj
        if meth == "trace_store":
            return S("p:store")
        if isinstance(fval, S) and fval.name == "p:store" and meth is not None:
            if meth == "add" and args:
                self.stored.append(st.freeze(args[0]))
            return K(None)
        if meth == "code_filter" and isinstance(fval, Ref):
            return S("p:F1")  # the default filter: accepts the scenario's code objects (decided on its own under C17)
        if d == "import_module" or d == "importlib.import_module":
            from mtsa.absint import raise_exc
            raise_exc(st, "ImportError")
            return U("no monkeytype_config")
        return self.hook(call, fname, fval, args, kwargs, st)
