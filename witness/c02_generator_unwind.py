"""Witness for the known findings R-C02.9 and R-C02.6 (async generator) - run by hand:
PYTHONPATH=/repo /venv/bin/python witness/c02_generator_unwind.py   (exits 1 while the defects are present).

1. close() / an uncaught throw() on a suspended generator: CPython 3.12 delivers the unwinding 'return' event with arg
   None and f_lasti still at the YIELD_VALUE - exactly what a `yield None` looks like.  handle_return takes it for a
   yield: the call is never logged and its entry (with the frame) stays in CallTracer.traces.
2. At an async generator's yield the event's arg is the interpreter's async_generator_wrapped_value box; its class is
   recorded as the yield type (and the stored trace later fails to decode)."""
import asyncio, sys
from monkeytype.tracing import CallTracer, CallTraceLogger
class L(CallTraceLogger):
    def __init__(self): self.t = []
    def log(self, tr): self.t.append(tr)
def g(x):
    yield x
    yield x
bad = 0
l = L(); tr = CallTracer(l, max_typed_dict_size=0); sys.setprofile(tr)
it = g(1); next(it); it.close()
it = g(2); next(it)
try: it.throw(KeyError())
except KeyError: pass
sys.setprofile(None)
print("logged:", len(l.t), "| entries left in the tracer:", len(tr.traces), [t.yield_type for t in tr.traces.values()])
if len(l.t) != 2 or tr.traces:
    print("WITNESSED: two generator calls finished by an exception, none logged, both leaked"); bad = 1
async def ag(n):
    for i in range(n): yield i
async def main():
    return [v async for v in ag(2)]
l = L(); tr = CallTracer(l, max_typed_dict_size=0); sys.setprofile(tr); asyncio.run(main()); sys.setprofile(None)
ys = [t.yield_type for t in l.t if t.func is ag]
print("yield type recorded for the async generator:", ys)
if ys and ys[0] is not int:
    print("WITNESSED: the class of the interpreter's box, not int"); bad = 1
print("OK" if not bad else "FAILED"); sys.exit(bad)
