"""Witness for R-C03.6 / R-C18.6 (run by hand: PYTHONPATH=/repo /venv/bin/python witness/c03_global_rng.py).

With sampling on, CallTracer.handle_call drew from the module-level generator of `random`, which the traced program
shares: (1) the program's own random numbers differ from an untraced run, (2) a program that re-seeds the generator
decides which calls are sampled."""
import random, sys
from monkeytype.tracing import CallTraceLogger, trace_calls

class L(CallTraceLogger):
    def __init__(self): self.n = 0
    def log(self, t): self.n += t.func.__name__ == "g"

def f(i): return i
def work():
    random.seed(1)
    for i in range(5): f(i)
    return random.random()

bad = 0
plain = work()
with trace_calls(L(), 0, sample_rate=2):
    traced = work()
print("untraced:", plain, "traced:", traced)
if plain != traced:
    print("WITNESSED: the program's random numbers change under tracing"); bad = 1

def g(x):
    random.seed(3)      # a program that seeds per request
    return x
l = L()
with trace_calls(l, 0, sample_rate=2):
    for i in range(1000): g(i)
print("calls sampled of 1000 at rate 2 while the program re-seeds:", l.n)
if not 350 < l.n < 650:
    print("WITNESSED: the program's seeding decides the sampling"); bad = 1
print("OK" if not bad else "FAILED"); sys.exit(bad)
