"""C04 - inferred types admit every observed value, for every TypedDict size limit (static clauses).

R-C04.1  every element (key, value) of an inspected container reaches the element type
R-C04.2  kind table: exact builtin container class -> typing alias of the same origin
R-C04.3  every input type reaches every result of shrink_types / shrink_typed_dict_types /
         RewriteAnonymousTypedDictToDict (coverage), and no scenario raises
R-C04.4  order / multiplicity independence of merging (all permutations of each multiset)
"""
from __future__ import annotations

import ast
import itertools
from typing import Any, Dict, List, Tuple

from mtsa.absint import K, R, S, U, V
from mtsa.index import Repo, norm
from mtsa.report import AnalysisError, Ctx

from . import infer_model as IM
from .infer_model import ANY, TY, canon, comp_covers_all, covers, generic, multiset_key

LEVEL = "other"
EXPLANATION = (
    "Static decision of the structural clauses of C04 by abstract interpretation of monkeytype.typing (nothing is executed): "
    "get_type is evaluated for every class of the dispatch partition (class objects, callables, generators, exact "
    "list/set/dict/defaultdict/tuple, subclasses of them, scalars, user classes) with symbolic elements - the element type "
    "must be an unfiltered comprehension of get_type over the container itself (keys and values for dict kinds), wrapped in "
    "the typing alias of the same kind; get_dict_type for every (size 0..3, key kind, limit 0..3); shrink_types for every "
    "multiset of <=3 abstract types over {anonymous TypedDicts, scalars, List[...] of them, Dict, Tuple} in every order: "
    "each input must be covered by the result, no path raises, and the result is the same multiset-wise for every "
    "permutation; shrink_typed_dict_types for every combination of <=3 TypedDicts over <=2 keys (absent/required/optional) "
    "x limit 0..3 in every order: every value type of every key reaches the merged field or the Dict fallback. "
    "Added: the four inference functions are also interpreted TOGETHER on a grammar of ~90 small concrete values (atoms, class objects, list/tuple/set/dict/defaultdict of depth <= 2, lists of dicts, empty containers, non-string keys) x limits and on ~700 merged pairs, and the result is judged by an oracle written from the property; two-call histories sharing module state (a memo with an unsound key is reported); compat.types_equal decided by interpretation. "
    "Values that contain themselves are interpreted too (R-C04.9; the RecursionError they cause is a recorded finding). Not decided: membership for values outside the bounded grammar."
)

KIND = {"builtin:list": "List", "builtin:set": "Set", "builtin:tuple": "Tuple", "mod:collections.defaultdict": "DefaultDict"}


def rule_get_type(ctx: Ctx, repo: Repo) -> None:
    w = f"{TY}.get_type"
    ctx.functions.add(w)
    n = 0
    for cls, m, o, res in IM.get_type_table(repo):
        if cls not in KIND:
            continue
        n += 1
        lab = f"{cls.split(':')[1]} (limit {m})"
        if not ctx.check(isinstance(res, R) and res.kind == "generic" and res.fields["origin"] == K(KIND[cls]), "R-C04.2", w,
                         f"an exact {cls.split(':')[1]} is typed with the typing alias of the same kind",
                         construct=f"{lab}: {_short(res)}"):
            continue
        args = res.fields["args"]
        if cls == "builtin:tuple":
            ok = isinstance(args, R) and args.kind == "tuple_of"
            why = f"tuple element types are not a tuple built from the elements: {str(args)[:120]}"
            if ok:
                ok, why = comp_covers_all(args.fields["comp"], o, "elem_of", K(m))
            elif isinstance(args, K) and isinstance(args.v, tuple):
                # tuple(<generator helper interpreted eagerly>): the helper's loop over the representative element
                ok, why = comp_covers_all(args, o, "elem_of", K(m))
            ctx.check(ok, "R-C04.1", w, "every element of a tuple contributes its own type, in position", construct=f"{lab}: {why}")
            continue
        wanted = [("key_of", 0), ("value_of", 1)] if cls == "mod:collections.defaultdict" else [("elem_of", 0)]
        if not ctx.check(isinstance(args, K) and len(args.v) == len(wanted), "R-C04.2", w, "arity of the alias matches the kind",
                         construct=f"{lab}: args {args}"):
            continue
        for what, idx in wanted:
            a = args.v[idx]
            ok = isinstance(a, R) and a.kind == "shrunk" and a.fields["limit"] == K(m)
            why = f"argument {idx} is {_short(a)}, not shrink_types(...) with the caller's limit"
            if ok:
                ok, why = comp_covers_all(a.fields["of"], o, what, K(m))
            ctx.check(ok, "R-C04.1", w, f"every {what.replace('_of', '')} of the container is inspected (no filter, slice or sample)",
                      construct=f"{lab}: {why}")
    ctx.floor("R-C04.1", "container classes in the get_type table", n, 8)


def rule_dict_type(ctx: Ctx, repo: Repo) -> None:
    w = f"{TY}.get_dict_type"
    ctx.functions.add(w)
    rows = IM.dict_type_table(repo)
    for n, kk, m, d, res in rows:
        lab = f"dict with {n} {kk} key(s), limit {m}"
        if isinstance(res, R) and res.kind == "raises":
            ctx.violate("R-C04.3", w, f"{lab}: {res}", "inference raises for this shape")
            continue
        if n == 0:
            continue  # decided by C05/C06 (Dict[Any, Any])
        if isinstance(res, R) and res.kind == "typeddict":
            req = res.fields["required"]
            ok = isinstance(req, R) and req.kind == "comp" and not req.fields["ifs"] and req.fields["over"] in (
                R("view", what=K("items"), of=d), d) and req.fields.get("key") == R("key_of", of=d) and \
                req.fields["elt"] == R("typeof", of=R("value_of", of=d), limit=K(m))
            # the same mapping filled by an unconditional loop over the items: one symbolic iteration stands for all
            ok = ok or (isinstance(req, R) and req.kind == "dict" and req.fields["items"] == ((R("key_of", of=d), R("typeof", of=R("value_of", of=d), limit=K(m))),))
            ctx.check(ok, "R-C04.1", w, "every item of the dict becomes a field typed by get_type of its own value",
                      construct=f"{lab}: {_short(req)}")
        elif isinstance(res, R) and res.kind == "generic" and res.fields["origin"] == K("Dict"):
            args = res.fields["args"]
            ok_all = isinstance(args, K) and len(args.v) == 2
            for what, idx in (("key_of", 0), ("value_of", 1)):
                ok, why = False, "not shrink_types(...)"
                if ok_all and isinstance(args.v[idx], R) and args.v[idx].kind == "shrunk":
                    ok, why = comp_covers_all(args.v[idx].fields["of"], d, what, K(m))
                ctx.check(ok, "R-C04.1", w, f"every {what.replace('_of', '')} of the dict is inspected", construct=f"{lab}: {why}")
        else:
            ctx.violate("R-C04.2", w, f"{lab}: {_short(res)}", "a dict is typed neither as TypedDict nor as Dict[...]")
    ctx.floor("R-C04.1", "get_dict_type scenarios", len(rows), 30)


def rule_shrink(ctx: Ctx, repo: Repo, tier: str) -> None:
    w = f"{TY}.shrink_types"
    ctx.functions.add(w)
    inputs = IM.shrink_inputs(4 if tier == "thorough" else 3)
    n_runs = 0
    for types in inputs:
        keys = set()
        perms = set(itertools.permutations(types))
        for perm in sorted(perms, key=repr):
            for m in (0, 2):
                res = IM.shrink_result(repo, perm, m)
                n_runs += 1
                lab = f"shrink_types({_types(perm)}, {m})"
                if isinstance(res, R) and res.kind == "raises" or isinstance(res, U):
                    ctx.violate("R-C04.3", w, f"{_types(types)}: {res}", "merging raises / is undefined for this mix of shapes", scenario=lab)
                    continue
                for t in perm:
                    if not covers(res, t):
                        ctx.violate("R-C04.3", w, f"{_types(types)} -> {_short(res)} drops {_short(t)}",
                                    "an observed type does not reach the merged type", scenario=lab)
                        break
                else:
                    ctx.ok("R-C04.3", w, "every observed type is covered by the merged type", scenario=lab)
                if m == 2:
                    keys.add(repr(multiset_key(res)))
        ctx.check(len(keys) <= 1, "R-C04.4", w, "the merged type does not depend on the order of the observed types",
                  construct=f"{_types(types)}: {len(keys)} different results over {len(perms)} orders")
    ctx.floor("R-C04.3", "shrink_types scenarios", n_runs, 400)


def rule_merge(ctx: Ctx, repo: Repo, tier: str) -> None:
    w = f"{TY}.shrink_typed_dict_types"
    ctx.functions.add(w)
    shapes = IM.td_shapes(("a", "b", "c") if tier == "thorough" else ("a", "b"))
    n = 0
    combos: List[Tuple[Dict[str, str], ...]] = [(s,) for s in shapes]
    combos += list(itertools.product(shapes, repeat=2))
    combos += list(itertools.combinations_with_replacement(shapes, 3)) if tier != "thorough" else list(itertools.combinations_with_replacement(IM.td_shapes(("a", "b")), 3))
    for combo in combos:
        perms = set(itertools.permutations(range(len(combo))))
        for m in ((0, 1, 2, 3, 4) if tier == "thorough" else (0, 1, 2, 3)):
            for same in ((False, True) if len(combo) > 1 else (False,)):
                keys = set()
                for perm in sorted(perms):
                    tds = tuple(IM.td(i, combo[j], same) for i, j in enumerate(perm))
                    res = IM.merge_result(repo, tds, m)
                    n += 1
                    lab = f"merge({[combo[j] for j in perm]}, limit {m}{', one value type per key' if same else ''})"
                    if isinstance(res, (U,)) or (isinstance(res, R) and res.kind == "raises"):
                        ctx.violate("R-C04.3", w, f"{lab}: {res}", "merging TypedDicts raises / is undefined for this shape")
                        continue
                    types, req, opt = IM.merge_spec(tds)
                    missing = _uncovered(res, types)
                    ctx.check(not missing, "R-C04.3", w, "every value type of every key reaches the merged field (or the Dict fallback)",
                              construct=f"{[combo[j] for j in sorted(perm)]} limit {m}: dropped {missing}", scenario=lab)
                    keys.add(repr(_merge_key(res, perm)))
                ctx.check(len(keys) <= 1, "R-C04.4", w, "merged TypedDict independent of the order of the inputs",
                          construct=f"{list(combo)} limit {m}{' (one value type per key)' if same else ''}: {len(keys)} different results")
    ctx.floor("R-C04.3", "shrink_typed_dict_types scenarios", n, 1000)


def _shrunk_members(v: Any) -> Optional[List[V]]:
    """the types handed to shrink_types in a `shrunk` record, whatever sequence carried them (a list, a tuple, a chain)"""
    if isinstance(v, R) and v.kind == "shrunk":
        of = v.fields["of"]
        if isinstance(of, R) and of.kind == "list":
            return list(of.fields["items"])
        if isinstance(of, K) and isinstance(of.v, tuple):
            return list(of.v)
    return None


def _uncovered(res: V, types: Dict[str, List[V]]) -> List[str]:
    out = []
    if isinstance(res, R) and res.kind == "typeddict":
        fields: Dict[str, V] = {}
        for part in ("required", "optional"):
            d = res.fields[part]
            if isinstance(d, R) and d.kind == "dict":
                for k, v in d.fields["items"]:
                    fields[k.v] = v
        for k, ts in types.items():
            f = fields.get(k)
            have = _shrunk_members(f) or []
            for t in ts:
                if t not in have:
                    out.append(f"{k}:{t}")
    elif isinstance(res, R) and res.kind == "generic" and res.fields["origin"] == K("Dict"):
        args = res.fields["args"].v
        v = args[1] if len(args) == 2 else None
        have = _shrunk_members(v) or []
        for k, ts in types.items():
            for t in ts:
                if t not in have:
                    out.append(f"{k}:{t}")
    else:
        out.append(f"unrecognised result {_short(res)}")
    return out


def _merge_key(res: V, perm: Tuple[int, ...]) -> Any:
    """Order-insensitive form: per field the multiset of value types with the TypedDict index mapped back
    to the position in the unpermuted combination."""
    def ren(t: V) -> str:
        s = repr(t)
        if isinstance(t, S) and t.name.startswith("T"):
            idx, _, key = t.name[1:].partition(".")
            return f"T{perm[int(idx)]}.{key}"
        return s
    def ms(v: V) -> Any:
        if _shrunk_members(v) is not None:
            return tuple(sorted(ren(x) for x in _shrunk_members(v))), repr(v.fields["limit"])  # type: ignore[union-attr]
        return repr(v)
    if isinstance(res, R) and res.kind == "typeddict":
        out = []
        for part in ("required", "optional"):
            d = res.fields[part]
            items = d.fields["items"] if isinstance(d, R) and d.kind == "dict" else ()
            out.append((part, tuple(sorted((k.v, ms(v)) for k, v in items))))
        return tuple(out)
    if isinstance(res, R) and res.kind == "generic":
        return ("generic", res.fields["origin"].v, tuple(ms(a) if isinstance(a, R) else repr(a) for a in res.fields["args"].v))
    return repr(res)


def rule_td_to_dict(ctx: Ctx, repo: Repo) -> None:
    """RewriteAnonymousTypedDictToDict (used by shrink_types on mixed shapes) keeps every field's type."""
    ci = repo.cls(TY, "RewriteAnonymousTypedDictToDict")
    fi = repo.method(ci, "rewrite_anonymous_TypedDict")
    ctx.functions.add(fi.fq)
    ps = fi.positional_params()
    for shape in IM.td_shapes(("a", "b")) + [{}]:
        t = IM.td(1, shape)
        sc = IM.InferScenario(repo, "is_list", heap=True)  # any anchor of the module; we run another body
        sc.fi = fi
        sc.ri.fi = fi
        sc.ri.cur_fi = fi
        calls: List[V] = []
        base = sc.call_hook
        def hook(call, fname, fval, args, kwargs, st, _b=base, _c=calls):
            if isinstance(call.func, ast.Attribute) and call.func.attr == "rewrite" and isinstance(fval, S) and fval.name == "self":
                _c.append(args[0])
                return R("rewritten", by=K("self"), of=args[0])
            return _b(call, fname, fval, args, kwargs, st)
        sc.ri.call_hook = hook
        res = sc.result({ps[0]: S("self"), ps[1]: t})
        lab = f"TypedDict {shape}"
        vals = [v for _, v in t.fields["required"].fields["items"]] + [v for _, v in t.fields["optional"].fields["items"]]
        if not vals:
            ctx.check(res == generic("Dict", ANY, ANY), "R-C04.3", fi.fq, "a field-less TypedDict becomes Dict[Any, Any]", construct=f"{lab}: {_short(res)}")
            continue
        ok = isinstance(res, R) and res.kind == "generic" and res.fields["origin"] == K("Dict") and isinstance(res.fields["args"], K) and len(res.fields["args"].v) == 2
        if ok:
            k, v = res.fields["args"].v
            ok = k == S("builtin:str") and isinstance(v, R) and v.kind == "generic" and v.fields["origin"] == K("Union")
            if ok:
                members = list(v.fields["args"].v) if isinstance(v.fields["args"], K) else []
                ok = all(R("rewritten", by=K("self"), of=x) in members for x in vals)
        ctx.check(ok, "R-C04.3", fi.fq, "the Dict replacing a TypedDict admits the (rewritten) type of every field, required and optional",
                  construct=f"{lab}: {_short(res)}")


def _short(v: Any, n: int = 160) -> str:
    s = repr(v)
    return s if len(s) <= n else s[:n] + "..."


def _types(ts: Tuple[V, ...]) -> str:
    def one(t: V) -> str:
        if isinstance(t, S):
            return t.name.split(":")[-1]
        if isinstance(t, R) and t.kind == "anon_td":
            return f"TD{t.fields['id'].v}"
        if isinstance(t, R) and t.kind == "generic":
            return f"{t.fields['origin'].v}[{', '.join(one(a) for a in t.fields['args'].v)}]"
        return repr(t)
    return "[" + ", ".join(one(t) for t in ts) + "]"


def rule_cyclic_values(ctx: Ctx, repo: Repo) -> None:
    """R-C04.9: "for any finite collection of runtime values inference terminates without error" - a container that contains itself
    (`l = []; l.append(l)`, a dict that holds itself, a tuple in a list in that tuple's list) is a finite value.  get_type is
    interpreted on such values; the element that is the container re-enters get_type with the same object: unless the source
    stops there, the descent never ends (RecursionError in CPython)."""
    from . import concrete_infer as CI
    w = f"{TY}.get_type"
    ctx.functions.add(w)
    shapes = [("a list that contains itself", lambda me: CI.lst("cyc", me)), ("a list of an int and itself", lambda me: CI.lst("cyc2", K(1), me)),
              ("a dict whose value is the dict itself", lambda me: CI.dct("cycd", (K("self"), me))), ("a list holding a tuple that holds the list", lambda me: CI.lst("cyc3", CI.tup("t", me)))]
    n = 0
    for what, make in shapes:
        outcomes = []
        for k in (0, 2):
            res = CI.infer_cyclic(repo, make, k)
            n += 1
            raised = isinstance(res, R) and res.kind == "raises"
            outcomes.append("raises " + str(res.fields["what"].v) if raised else ("undetermined" if isinstance(res, U) else "ok"))
        ctx.check(all(o == "ok" for o in outcomes), "R-C04.9", w, "inference of a finite value terminates without error, also when the value contains itself",
                  construct=f"{what}: get_type descends into the element that is the container itself, without end ({sorted(set(outcomes))[0] if outcomes else ''})")
    ctx.floor("R-C04.9", "self-containing values inferred", n, 6)


def run(ctx: Ctx, repo: Repo, tier: str) -> None:
    # concrete small values first: they decide also when a new code path is beyond the abstract scenarios below
    from .concrete_infer import concrete_rules
    concrete_err = None
    try:
        concrete_rules(ctx, repo, tier, member="R-C04.8", order="R-C04.8")
    except AnalysisError as e:
        concrete_err = e  # the abstract scenarios below still decide their clauses; re-raised at the end if they are silent
    ctx.trust("typing aliases List/Set/Dict/DefaultDict/Tuple/Union denote the builtin containers of the same name",
              "Union[...] admits each of its members; Dict[str, Union[..]] admits every str-keyed dict whose values are admitted")
    ctx.assume("merging of TypedDicts is decided exhaustively for <=3 TypedDicts over <=2 keys and limits 0..3; "
               "shrink_types for multisets of <=3 types from a 10-type alphabet")
    ctx.attempt(rule_get_type, ctx, repo)
    ctx.attempt(rule_dict_type, ctx, repo)
    ctx.attempt(rule_shrink, ctx, repo, tier)
    ctx.attempt(rule_merge, ctx, repo, tier)
    ctx.attempt(rule_td_to_dict, ctx, repo)
    from .memo_rules import infer_no_memory
    ctx.attempt(infer_no_memory, ctx, repo, "R-C04.6")
    from .compat_rules import compat_predicates
    ctx.attempt(compat_predicates, ctx, repo, "R-C04.7", ("types_equal", "is_typed_dict", "is_any"))
    if concrete_err is not None:
        raise concrete_err
    # "per-value inference followed by merging": the types of ALL traces of a function reach the merge (none skipped because
    # the type object happens to be false as a truth value, or for any other reason) - R-C14.1a
    from . import c14 as _c14
    ctx.attempt(_c14.rule_traces_to_sets, ctx, repo)
    ctx.attempt(rule_cyclic_values, ctx, repo)
    ctx.settle()
