"""Abstract model of annotation rendering and import collection (monkeytype.stubs RenderAnnotation,
get_imports_for_annotation/_signature, ReplaceTypedDictsWithStubs, FunctionStub.render), used by C11
and C01.  Types are the records of codec_model (classes with __module__/__qualname__, typing
generics and aliases, Any, anonymous TypedDicts); `repr()` of typing objects follows CPython's
typing module (catalogue).  The rendered text is parsed with `ast` and *evaluated by the checker*
in the namespace the stub provides, giving back an abstract type that is compared with the one
that was rendered.  Nothing of the repository is executed."""
from __future__ import annotations

import ast
import re as _re
from typing import Any, Callable, Dict, List, Optional, Tuple

from mtsa.absint import K, R, Ref, S, U, V, State
from mtsa.index import FunctionInfo, Repo, dotted, norm
from mtsa.report import AnalysisError
from . import codec_model as CM
from .codec_model import ANY, NONE_T, alias, cls, gen, py_repr, type_repr
from .common import origin_token, RepoInterp
from .sig_model import EMPTY

ST = "monkeytype.stubs"
TY = "monkeytype.typing"


def fwd(name: str) -> R:
    return R("forwardref", __forward_arg__=K(name), __module__=K("typing"))


def newtype(name: str, module: str, supertype: V) -> R:
    return R("newtype", __name__=K(name), __qualname__=K(name), __module__=K(module), __supertype__=supertype)


def uniontype(*args: V) -> R:
    """`X | Y` written in the source (PEP 604): an instance of types.UnionType - not a class, not a typing generic"""
    return R("uniontype", __args__=K(tuple(args)), __module__=K("types"))


def pep585(origin: V, *args: V) -> R:
    """`list[X]`, `dict[K, V]`, `collections.abc.Sequence[X]` written in the source (PEP 585): an instance of types.GenericAlias -
    since 3.11 not an instance of `type`, not a typing generic; unknown attributes are answered by the origin class"""
    return R("pep585", origin=origin, __args__=K(tuple(args)))


# platform fact, read from the analysing interpreter
_PEP585_IS_TYPE = isinstance(list[int], type)


class AnnoScenario:
    def __init__(self, repo: Repo, module: str, func: str, replace_policy: Optional[Dict[str, str]] = None) -> None:
        self.repo = repo
        self.fi = repo.fn(module, func)
        self.replace_policy = replace_policy or {}
        self.replace_sites: List[Tuple[str, str, str]] = []
        inline = set()
        for m in (ST, TY, "monkeytype.util"):
            for f in repo.module(m).functions.values():
                inline.add(f.fq)
        self.ri = RepoInterp(repo, self.fi, inline=inline, call_hook=self.call_hook, may_fork=(), heap=True, max_depth=40)
        self.ri.construct_instances = True
        self.ri.dispatch_instances = True
        self.ri.on_attr = self.on_attr  # type: ignore[method-assign]
        self.ri.interp.on_attr = self.on_attr
        self.ri.on_subscript = self.on_subscript  # type: ignore[method-assign]
        self.ri.interp.on_subscript = self.on_subscript
        base_name = self.ri.on_name
        def on_name(name: str, st: State) -> Optional[V]:
            if name == "NoneType":
                return NONE_T
            cur = self.ri.cur_fi.module
            imp = cur.imports.get(name, "")
            if imp.startswith("typing.") and name in CM.TYPING_NAMES:
                return alias(name)
            if imp == "typing.Any":
                return ANY
            if name in cur.constants and isinstance(cur.constants[name], ast.Constant):
                return K(cur.constants[name].value)
            v = base_name(name, st)
            if v is not None:
                return v
            import builtins
            if hasattr(builtins, name):
                return S("builtin:" + name)
            return None
        self.ri.on_name = on_name  # type: ignore[method-assign]
        self.ri.interp.on_name = on_name

    # ---- hooks ---------------------------------------------------------------------
    def on_attr(self, obj: V, attr: str, node: ast.AST, st: State) -> Optional[V]:
        if isinstance(obj, S) and obj.name in ("mod:inspect.Parameter", "mod:inspect.Signature") and attr == "empty":
            return EMPTY
        if isinstance(obj, R) and obj.kind == "generic":
            if attr == "__args__":
                return CM.flat_args(obj)
            if attr == "__origin__":
                return origin_token(obj.fields["origin"].v)
            if attr in ("__qualname__", "__name__", "__supertype__", "__forward_arg__"):
                st.pending = st.pending or "AttributeError"
                return U("no " + attr)
        if isinstance(obj, R) and obj.kind == "alias":
            if attr == "__origin__":
                return origin_token(obj.fields["name"].v)
            if attr in ("__args__", "__qualname__", "__name__", "__supertype__", "__forward_arg__"):
                st.pending = st.pending or "AttributeError"
                return U("no " + attr)
        if isinstance(obj, R) and obj.kind == "pep585":
            if attr == "__origin__":
                return obj.fields["origin"]
            if attr == "__args__":
                return obj.fields["__args__"]
            if attr in ("__module__", "__qualname__", "__name__"):
                return obj.fields["origin"].fields[attr]
            if attr in ("__supertype__", "__forward_arg__", "__annotations__", "__total__"):
                st.pending = st.pending or "AttributeError"
                return U("no " + attr)
        if isinstance(obj, R) and obj.kind == "uniontype" and attr in ("__origin__", "__qualname__", "__name__", "__supertype__", "__forward_arg__", "__annotations__", "__total__"):
            st.pending = st.pending or "AttributeError"
            return U("no " + attr)
        if isinstance(obj, R) and obj.kind in ("cls", "any", "td", "forwardref", "newtype") and attr in ("__args__", "__origin__", "__supertype__", "__forward_arg__", "__annotations__", "__total__") and attr not in obj.fields:
            st.pending = st.pending or "AttributeError"
            return U("no " + attr)
        if isinstance(obj, R) and obj.kind == "any" and attr in ("__qualname__", "__name__"):
            return K("Any")
        if obj == EMPTY and attr == "__module__":
            return K("inspect")
        return RepoInterp.on_attr(self.ri, obj, attr, node, st)

    def on_subscript(self, obj: V, key: V, node: ast.AST, st: State) -> Optional[V]:
        if isinstance(obj, R) and obj.kind == "alias":
            args = key.v if isinstance(key, K) and isinstance(key.v, tuple) else (key,)
            name = obj.fields["name"].v
            if name == "Optional":
                name, args = "Union", (args[0], NONE_T)
            if name == "Union":
                flat: List[V] = []
                for a in args:
                    # typing flattens nested Unions, and `X | Y` objects (types.UnionType) among the arguments
                    sub = a.fields["args"].v if isinstance(a, R) and a.kind == "generic" and a.fields["origin"] == K("Union") else \
                        (a.fields["__args__"].v if isinstance(a, R) and a.kind == "uniontype" else (a,))
                    for x in sub:
                        if x not in flat:
                            flat.append(x)
                return flat[0] if len(flat) == 1 else gen("Union", *flat)
            return gen(name, *args)
        if isinstance(obj, R) and obj.kind in ("cls", "td") and isinstance(key, (K, R, S)):
            # cls[elems] in ReplaceTypedDictsWithStubs._rewrite_container is applied to typing aliases only
            st.pending = st.pending or "TypeError"
            return U("not subscriptable")
        return RepoInterp.on_subscript(self.ri, obj, key, node, st)

    def call_hook(self, call: ast.Call, fname: Optional[str], fval: Optional[V], args: List[V], kwargs: Dict[str, V], st: State) -> Optional[V]:
        d = fname or ""
        meth = call.func.attr if isinstance(call.func, ast.Attribute) else None
        it = self.ri.interp
        if len(args) == 1 and not kwargs and (d == "typing.get_args" or (d == "get_args" and self.ri.cur_fi.module.imports.get("get_args") == "typing.get_args")):
            return CM.typing_get_args(st.freeze(args[0]))
        # -- dynamic dispatch: getattr(self, "rewrite_" + name, None) and calling the result --------------
        if d == "getattr" and len(args) >= 2 and isinstance(args[1], K) and isinstance(args[1].v, str) and isinstance(args[0], (Ref, R, S)) and \
                (isinstance(args[0], Ref) and args[0].kind == "obj" or isinstance(args[0], R) and args[0].kind == "inst"):
            ci = self._class_of(args[0], st)
            if ci is not None:
                m = self.repo.method(ci, args[1].v)
                if m is not None:
                    return R("boundmethod", self_=args[0], cls=K(ci.fq), name=K(args[1].v))
                return args[2] if len(args) > 2 else None
        if isinstance(fval, R) and fval.kind == "boundmethod" and isinstance(call.func, ast.Name):
            mn, _, cn = fval.fields["cls"].v.rpartition(".")
            ci = self.repo.cls(mn, cn)
            m = self.repo.method(ci, fval.fields["name"].v)
            saved = self.ri.self_class
            self.ri.self_class = ci
            try:
                return self.ri.inline_call(m, ast.Call(func=ast.Attribute(value=ast.Name(id="self", ctx=ast.Load()), attr=m.qualname.split(".")[-1], ctx=ast.Load()), args=call.args, keywords=call.keywords),
                                           fval.fields["self_"], args, kwargs, st)
            finally:
                self.ri.self_class = saved
        if d == "super" and not args:
            return R("super", of=st.env.get("self", U("?")), cls=K(self.ri.cur_fi.cls.fq if self.ri.cur_fi.cls else "?"))
        if isinstance(fval, R) and fval.kind == "super" and meth is not None:
            mn, _, cn = fval.fields["cls"].v.rpartition(".")
            ci = self.repo.cls(mn, cn)
            for c in self.repo.mro(ci)[1:]:
                if meth in c.methods:
                    return self.ri.inline_call(c.methods[meth], call, fval.fields["of"], args, kwargs, st)
            return K(None)  # object.__init__ etc.
        # -- platform -------------------------------------------------------------------------------
        if d == "getattr" and len(args) >= 2 and isinstance(args[1], K):
            before = st.pending
            v = it.eval(ast.Attribute(value=call.args[0], attr=args[1].v, ctx=ast.Load()), st)
            if st.pending == "AttributeError" and before is None:
                st.pending = None
                if len(args) > 2:
                    return args[2]
                st.pending = "AttributeError"
            if isinstance(v, U) and len(args) > 2:
                return args[2]
            return v
        if d == "hasattr" and len(args) == 2 and isinstance(args[1], K):
            a = args[0]
            return K(isinstance(a, R) and args[1].v in a.fields)
        if d == "isinstance" and len(args) == 2:
            return self._isinstance(args[0], args[1])
        if d == "repr" and len(args) == 1:
            a = st.freeze(args[0])
            if isinstance(a, K) and isinstance(a.v, str):
                return K(repr(a.v))
            return K(py_repr(a))
        if d == "str" and len(args) == 1:
            a = args[0]
            if isinstance(a, K) and isinstance(a.v, (str, int)):
                return K(str(a.v))
            if isinstance(a, R) and a.kind == "typevar":
                return K("~" + a.fields["__name__"].v)
            return K(py_repr(st.freeze(a)))
        if d == "len" and len(args) == 1:
            a = args[0]
            if isinstance(a, R) and a.kind == "dict":
                return K(len(a.fields["items"]))
            return None
        if d == "zip" and len(args) >= 1:
            if len(args) == 1 and isinstance(args[0], R) and args[0].kind == "starred":
                outer = it.iterate(args[0].fields["of"], st)
                if outer is None:
                    return None
                cols = [it.iterate(x, st) for x in outer]
                if any(c is None for c in cols):
                    return None
                return K(tuple(K(tuple(c)) for c in zip(*cols)))
            cols = [it.iterate(a, st) for a in args]
            if any(c is None for c in cols):
                return None
            return K(tuple(K(tuple(c)) for c in zip(*cols)))
        if d == "tuple" and len(args) == 1:
            seq = it.iterate(args[0], st)
            return K(tuple(seq)) if seq is not None else None
        if d == "re.split" and len(args) == 2 and all(isinstance(a, K) and isinstance(a.v, str) for a in args):
            return K(tuple(K(x) for x in _re.split(args[0].v, args[1].v)))
        if d == "re.compile":
            return R("regex", pattern=args[0] if args else K(""))
        if meth == "replace" and isinstance(fval, K) and isinstance(fval.v, str) and len(args) == 2 and all(isinstance(a, K) and isinstance(a.v, str) for a in args):
            site = f"{self.ri.cur_fi.fq}|{norm(call.func.value)}.replace({norm(call.args[0])}, {norm(call.args[1])})"
            pol = self.replace_policy.get(norm(call.args[0]))
            self.replace_sites.append((site, args[0].v, args[1].v))
            if pol == "token":
                # the ideal, token-aware replacement: only where the pattern starts a dotted name / is a whole identifier
                pat = args[0].v
                if pat.endswith("."):
                    rx = r"(?<![\w.])" + _re.escape(pat)
                else:
                    rx = r"(?<![\w.])" + _re.escape(pat) + r"(?![\w])"
                return K(_re.sub(rx, args[1].v, fval.v))
            return K(fval.v.replace(args[0].v, args[1].v))
        if meth == "isdisjoint":
            return K(True)
        if d == "TypedDict" and len(args) >= 2:
            fields = st.freeze(args[1])
            return R("td", __module__=K("monkeytype.typing"), __qualname__=args[0], __name__=args[0], __total__=kwargs.get("total", K(True)), __annotations__=fields)
        if d == "ForwardRef" and len(args) == 1:
            return R("forwardref", __forward_arg__=args[0], __module__=K("typing"))
        if d.endswith("Exception") and isinstance(call.func, ast.Name):
            return R("exception", text=K(d))
        callee = self.ri.resolve(call, fval)
        if callee is not None and callee.module.name == "monkeytype.compat":
            a0 = args[0] if args else None
            n = callee.qualname
            if n == "is_typed_dict":
                return K(isinstance(a0, R) and a0.kind == "td")
            if n == "is_any":
                return K(a0 == ANY)
            if n == "is_union":
                return K(isinstance(a0, R) and ((a0.kind == "generic" and a0.fields["origin"] == K("Union")) or (a0.kind == "alias" and a0.fields["name"] == K("Union"))))
            if n == "is_generic":
                return K(isinstance(a0, R) and a0.kind in ("generic", "alias"))
            if n == "is_generic_of" and len(args) == 2:
                o = lambda x: (x.fields["origin"].v if x.kind == "generic" else x.fields["name"].v) if isinstance(x, R) and x.kind in ("generic", "alias") else None  # noqa: E731
                return K(o(args[0]) is not None and o(args[0]) == o(args[1]))
            if n in ("qualname_of_generic", "name_of_generic"):
                if isinstance(a0, R) and a0.kind == "generic":
                    return a0.fields["origin"]
                if isinstance(a0, R) and a0.kind == "alias":
                    return a0.fields["name"]
                st.pending = st.pending or "AttributeError"
                return U("not generic")
            if n == "is_forward_ref":
                return K(isinstance(a0, R) and a0.kind == "forwardref")
            if n == "make_forward_ref":
                return R("forwardref", __forward_arg__=a0, __module__=K("typing"))
            if n == "types_equal" and len(args) == 2:
                return K(CM.same_type(st.freeze(args[0]), st.freeze(args[1])))
        return None

    def _class_of(self, v: V, st: State) -> Any:
        if isinstance(v, Ref) and v.kind == "obj":
            c = st.deref(v).get("__class__")
            if isinstance(c, K):
                mn, _, cn = c.v.rpartition(".")
                return self.repo.cls(mn, cn, required=False)
        if isinstance(v, R) and v.kind == "inst":
            return self.ri.class_of(v)
        return None

    def _isinstance(self, a: V, c: V) -> Optional[V]:
        names = list(c.v) if isinstance(c, K) and isinstance(c.v, tuple) else [c]
        out = False
        for n in names:
            nm = n.name if isinstance(n, S) else (n.fields["__qualname__"].v if isinstance(n, R) and n.kind == "cls" else repr(n))
            kind = a.kind if isinstance(a, R) else None
            if nm in ("builtin:type",):
                out |= kind in ("cls", "td") or (kind == "pep585" and _PEP585_IS_TYPE)
            elif nm in ("builtin:str",):
                out |= isinstance(a, K) and isinstance(a.v, str)
            elif nm == "NoneType":
                out |= isinstance(a, K) and a.v is None
            elif nm.endswith("TypeVar"):
                out |= kind == "typevar"
            elif nm.endswith("ForwardRef"):
                out |= kind == "forwardref"
            elif nm.endswith("types.UnionType") or nm == "UnionType":
                out |= kind == "uniontype"
            elif nm.endswith("types.GenericAlias") or nm == "GenericAlias":
                out |= kind == "pep585"
            else:
                return None
        return K(out)

    def result(self, env: Dict[str, V]) -> Tuple[str, Any]:
        outs = self.ri.run(env)
        if len(outs) != 1:
            raise AnalysisError(f"{self.fi.fq}: {len(outs)} outcomes for one scenario")
        o = outs[0]
        if o.term is None:
            return ("return", K(None))
        if o.term[0] == "raise":
            return ("raise", str(o.term[1]))
        return ("return", o.freeze(o.term[1]))


# ---------------------------------------------------------------------------
# Evaluating rendered annotation text in the namespace a stub provides
# ---------------------------------------------------------------------------
class Unresolved(Exception):
    pass


def eval_annotation(text: str, namespace: Dict[str, Any], nested: Callable[[Any, str], Any]) -> Any:
    """Evaluate annotation text (an expression) to an abstract type; raises Unresolved(name) for a name the
    namespace does not provide."""
    try:
        node = ast.parse(text, mode="eval").body
    except SyntaxError as e:
        raise Unresolved(f"not an expression: {text!r} ({e.msg})")

    def ev(n: ast.AST) -> Any:
        if isinstance(n, ast.Constant):
            if n.value is None:
                return NONE_T
            if n.value is Ellipsis:
                return K(Ellipsis)
            if isinstance(n.value, str):
                if n.value in namespace and isinstance(namespace[n.value], R) and namespace[n.value].kind == "classstub":
                    return namespace[n.value]
                return ev(ast.parse(n.value, mode="eval").body)
            raise Unresolved(f"literal {n.value!r}")
        if isinstance(n, ast.Name):
            if n.id not in namespace:
                raise Unresolved(f"name `{n.id}` is not provided by the stub")
            return namespace[n.id]
        if isinstance(n, ast.Attribute):
            base = ev(n.value)
            v = nested(base, n.attr)
            if v is None:
                raise Unresolved(f"`{ast.unparse(n)}` does not resolve")
            return v
        if isinstance(n, ast.Tuple):
            return tuple(ev(x) for x in n.elts)
        if isinstance(n, ast.List):
            return K(tuple(ev(x) for x in n.elts))
        if isinstance(n, ast.Subscript):
            base = ev(n.value)
            key = ev(n.slice)
            args = key if isinstance(key, tuple) else (key,)
            if isinstance(base, R) and base.kind == "cls":
                return pep585(base, *args)  # `list[X]`, `Sequence[X]` with the class imported from collections.abc
            if not (isinstance(base, R) and base.kind == "alias"):
                raise Unresolved(f"`{ast.unparse(n.value)}` is not subscriptable")
            name = base.fields["name"].v
            if name == "Optional":
                return gen("Union", args[0], NONE_T)
            if name == "Tuple" and args == ((),):
                return gen("Tuple")
            return gen(name, *args)
        if isinstance(n, ast.BinOp) and isinstance(n.op, ast.BitOr):
            flat: List[Any] = []
            for side in (ev(n.left), ev(n.right)):
                for x in (side.fields["__args__"].v if isinstance(side, R) and side.kind == "uniontype" else (side,)):
                    if x not in flat:
                        flat.append(x)
            return flat[0] if len(flat) == 1 else uniontype(*flat)
        raise Unresolved(f"unsupported syntax {ast.unparse(n)}")

    return ev(node)


def equal_types(a: Any, b: Any) -> bool:
    """Structural equality up to the order of union members."""
    if isinstance(a, R) and isinstance(b, R) and a.kind == "generic" and b.kind == "generic":
        if a.fields["origin"] != b.fields["origin"]:
            return False
        xa, xb = list(a.fields["args"].v), list(b.fields["args"].v)
        if len(xa) != len(xb):
            return False
        if a.fields["origin"] == K("Union"):
            rest = list(xb)
            for x in xa:
                hit = [y for y in rest if equal_types(x, y)]
                if not hit:
                    return False
                rest.remove(hit[0])
            return True
        return all(equal_types(x, y) for x, y in zip(xa, xb))
    # `X | Y` and Union[X, Y] are the same type; a Union that contains `X | Y` is flattened (as typing does)
    def _norm(t: Any) -> Any:
        if isinstance(t, R) and t.kind == "uniontype":
            t = gen("Union", *t.fields["__args__"].v)
        if isinstance(t, R) and t.kind == "generic" and t.fields["origin"] == K("Union"):
            flat: List[Any] = []
            for x in t.fields["args"].v:
                x = _norm(x)
                for y in (x.fields["args"].v if isinstance(x, R) and x.kind == "generic" and x.fields["origin"] == K("Union") else (x,)):
                    if y not in flat:
                        flat.append(y)
            return flat[0] if len(flat) == 1 else gen("Union", *flat)
        return t
    a, b = _norm(a), _norm(b)
    if isinstance(a, R) and isinstance(b, R) and a.kind == "pep585" and b.kind == "pep585":
        xa, xb = a.fields["__args__"].v, b.fields["__args__"].v
        return equal_types(a.fields["origin"], b.fields["origin"]) and len(xa) == len(xb) and all(equal_types(x, y) for x, y in zip(xa, xb))
    if isinstance(a, K) and isinstance(b, K) and isinstance(a.v, tuple) and isinstance(b.v, tuple):
        return len(a.v) == len(b.v) and all(equal_types(x, y) for x, y in zip(a.v, b.v))
    # a NAMED TypedDict class of the program (class Movie(TypedDict): ...) is a class like any other: module and qualified name
    def _named(t: Any) -> Any:
        if isinstance(t, R) and t.kind in ("td", "cls", "newtype") and t.fields.get("__name__") != K("DUMMY_NAME") and "__module__" in t.fields and "__qualname__" in t.fields:
            return (t.fields["__module__"], t.fields["__qualname__"])
        return None
    if _named(a) is not None and _named(a) == _named(b):
        return True
    return a == b


# ---------------------------------------------------------------------------
# The stub pipeline for one function, interpreted abstractly end to end
# ---------------------------------------------------------------------------
def _install_importmap(sc: AnnoScenario) -> None:
    merge = sc.repo.fn(ST, "ImportMap.merge")
    base = sc.call_hook

    def hook(call: ast.Call, fname: Optional[str], fval: Optional[V], args: List[V], kwargs: Dict[str, V], st: State) -> Optional[V]:
        if fname == "ImportMap" and not args:
            return st.alloc("defaultdict", ("dd", "set", {}))
        if isinstance(call.func, ast.Attribute) and call.func.attr == "merge" and isinstance(fval, Ref) and fval.kind == "defaultdict":
            return sc.ri.inline_call(merge, call, fval, args, kwargs, st)
        return base(call, fname, fval, args, kwargs, st)

    sc.ri.call_hook = hook


def replace_typed_dicts(repo: Repo, typ: V, hint: str) -> Tuple[str, Any]:
    sc = AnnoScenario(repo, ST, "ReplaceTypedDictsWithStubs.rewrite_and_get_stubs")
    ps = sc.fi.positional_params()
    return sc.result({ps[0]: typ, ps[1]: K(hint)})


def render_module(repo: Repo, module: str, qualname: str, kind: S, signature: R, class_stubs: Any, replace_policy: Optional[Dict[str, str]] = None) -> Tuple[str, Any, List[Tuple[str, str, str]]]:
    """build_module_stubs([definition]) and ModuleStub.render(), both interpreted; returns (status, text | exception, replace sites used)."""
    from .render_model import inst, to_inst
    d = inst("FunctionDefinition", module=K(module), qualname=K(qualname), kind=kind, signature=signature, is_async=K(False),
             typed_dict_class_stubs=class_stubs)
    sc = AnnoScenario(repo, ST, "build_module_stubs", replace_policy)
    _install_importmap(sc)
    k, res = sc.result({sc.fi.positional_params()[0]: K((d,))})
    if k != "return":
        return k, res, sc.replace_sites
    mods = {kk.v: v for kk, v in res.fields["items"]} if isinstance(res, R) and res.kind == "dict" else {}
    if module not in mods:
        return "raise", f"no stub for module {module}", sc.replace_sites
    ms = to_inst(mods[module])
    sc2 = AnnoScenario(repo, ST, "ModuleStub.render", replace_policy)
    _install_importmap(sc2)
    k2, txt = sc2.result({"self": ms})
    sites = sc.replace_sites + sc2.replace_sites
    if k2 != "return" or not (isinstance(txt, K) and isinstance(txt.v, str)):
        return ("raise" if k2 == "raise" else "unfoldable"), txt, sites
    return "return", txt.v, sites
