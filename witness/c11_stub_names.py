"""Witness (run by hand): seven ways in which a generated stub uses names it does not provide; prints which of them the
tree it runs against still shows (the first four were repaired in /repo, see known_findings.json `fixed`).
    cd /verif/witness && PYTHONPATH=/repo /venv/bin/python c11_stub_names.py   (exit 1 while any is present)
Builds throw-away modules utils / my.utils / foo / barfoo / mytyping / target in a temp dir."""
import os, sys, tempfile, textwrap, importlib
d = tempfile.mkdtemp()
def w(path, src):
    p = os.path.join(d, path); os.makedirs(os.path.dirname(p), exist_ok=True); open(p, "w").write(textwrap.dedent(src))
w("utils.py", "class A: pass\n"); w("my/__init__.py", ""); w("my/utils.py", "class B: pass\nclass A: pass\n")
w("foo.py", "class Baz: pass\n"); w("barfoo.py", "class Qux: pass\n"); w("mytyping.py", "class X: pass\n")
w("barmod.py", "class foo:\n    class Inner: pass\n")
w("target.py", "class NoneTypeHolder: pass\ndef f(a): return a\ndef g(foo): return foo\n")
sys.path.insert(0, d)
import utils, my.utils, foo, barfoo, mytyping, target, barmod
from typing import Dict, List, Tuple
from monkeytype.tracing import CallTrace
from monkeytype.typing import get_type
from monkeytype.stubs import build_module_stubs_from_traces

def stub(t, fn=target.f, k=0):
    return build_module_stubs_from_traces([CallTrace(fn, {fn.__code__.co_varnames[0]: t}, None)], k)["target"].render()

cases = {
    "module prefix stripping (utils / my.utils)": (stub(Dict[utils.A, my.utils.B]), "my.B"),
    "module prefix stripping (foo / barfoo)": (stub(Tuple[foo.Baz, barfoo.Qux]), "barQux"),
    "'typing.' replacement (module mytyping)": (stub(List[mytyping.X]), "myX"),
    "'NoneType' replacement (class NoneTypeHolder)": (stub(List[target.NoneTypeHolder]), "NoneHolder"),
    "class nested in a class named like another imported module (barmod.foo.Inner next to foo.Baz)": (stub(Tuple[barmod.foo.Inner, foo.Baz]), "Tuple[Inner"),
    "same-named classes of two modules": (stub(Tuple[utils.A, my.utils.A]), "Tuple[A, A]"),
    "fields of a generated TypedDict class": (stub(get_type({"k": [foo.Baz()]}, 5), target.g, 5), "List[foo.Baz]"),
}
present = []
for name, (text, needle) in cases.items():
    print("----", name); print(text)
    if needle in text:
        print("WITNESSED:", repr(needle)); present.append(name)
print("still present:", present or "none")
sys.exit(1 if present else 0)
