#!/venv/bin/python
"""Confirm a seeded change and run the checks against it.

  tools/seed_eval.py /tmp/seed/C09 SEED_A C09      -> verifies tests/demo in that worktree, runs all 18 checks on the
                                                     patched worktree (MTSA_REPO), copies the artefacts to /verif/seeded/<id>/
"""
import json, os, shutil, subprocess, sys, time

VERIF = os.path.dirname(os.path.dirname(os.path.abspath(__file__)))
ALL = [f"C{i:02d}" for i in range(1, 19)]
BASE_FAIL = {"tests/test_config.py::TestDefaultCodeFilter::test_excludes_site_packages"}


def sh(cmd, cwd=None, env=None, timeout=900):
    return subprocess.run(cmd, shell=True, cwd=cwd, env=env, capture_output=True, text=True, timeout=timeout)


def main():
    wt, seed, prop = sys.argv[1], sys.argv[2], sys.argv[3]
    sd = os.path.join(wt, seed)
    patch = os.path.join(sd, "patch.diff")
    demo = os.path.join(sd, "demo.py")
    sid = f"{prop}-{seed[-1]}"
    out = {"id": sid, "property": prop, "source": "independent sub-agent (given only the property text and a scratch worktree)"}
    env = dict(os.environ, PYTHONPATH=wt)
    sh("git checkout -- . && git clean -fdq -e 'SEED_*'", cwd=wt)
    r0 = sh(f"/venv/bin/python {demo}", cwd=wt, env=env, timeout=600)
    out["demo_without_change"] = {"exit": r0.returncode, "tail": (r0.stdout + r0.stderr)[-300:]}
    ra = sh(f"git apply {patch}", cwd=wt)
    if ra.returncode != 0:
        out["error"] = "patch does not apply: " + ra.stderr[-300:]
        print(json.dumps(out, indent=1)); return 1
    rt = sh("/venv/bin/python -m pytest -q -p no:cacheprovider --timeout=900 2>&1 | tail -15", cwd=wt, env=env, timeout=1200)
    failed = {l.split(" ")[1] for l in rt.stdout.splitlines() if l.startswith("FAILED ")}
    failed = {f.split(" - ")[0] for f in failed}
    out["tests_with_change"] = {"failed": sorted(failed), "same_as_baseline": failed == BASE_FAIL, "summary": rt.stdout.strip().splitlines()[-1] if rt.stdout.strip() else ""}
    r1 = sh(f"/venv/bin/python {demo}", cwd=wt, env=env, timeout=600)
    out["demo_with_change"] = {"exit": r1.returncode, "tail": (r1.stdout + r1.stderr)[-400:]}
    # the checks, on the patched source
    cenv = dict(os.environ, MTSA_REPO=wt, MTSA_NO_EVIDENCE="1")
    fired = {}
    for p in ALL:
        rc = subprocess.run([os.path.join(VERIF, "check"), p], env=cenv, capture_output=True, text=True)
        if rc.returncode != 0:
            first = [l.strip() for l in rc.stdout.splitlines() if l.startswith("  R-") or l.startswith("ANALYSIS-ERROR")]
            cons = [l.strip() for l in rc.stdout.splitlines() if l.strip().startswith("construct:")]
            fired[p] = {"exit": rc.returncode, "first": (first[0] if first else "")[:300], "construct": (cons[0] if cons else "")[:300], "n": rc.stdout.count("VIOLATION property=")}
    out["checks_fired"] = fired
    out["caught_by_own_property_check"] = prop in fired and fired[prop]["exit"] == 1
    out["caught_by_any_check"] = any(v["exit"] == 1 for v in fired.values())
    sh("git checkout -- . && git clean -fdq -e 'SEED_*'", cwd=wt)
    confirmed = out["demo_without_change"]["exit"] == 0 and out["demo_with_change"]["exit"] != 0 and out["tests_with_change"]["same_as_baseline"]
    out["confirmed"] = confirmed
    out["what_i_ran"] = [f"cd {wt} && PYTHONPATH={wt} /venv/bin/python {seed}/demo.py  (clean tree)", f"git -C {wt} apply {seed}/patch.diff",
                         f"cd {wt} && PYTHONPATH={wt} /venv/bin/python -m pytest -q -p no:cacheprovider --timeout=900", f"cd {wt} && PYTHONPATH={wt} /venv/bin/python {seed}/demo.py  (with the change)",
                         f"MTSA_REPO={wt} /verif/check Cxx for all 18 properties (static checks read the patched source)"]
    notes = os.path.join(sd, "notes.md")
    if confirmed:
        dst = os.path.join(VERIF, "seeded", sid)
        os.makedirs(dst, exist_ok=True)
        shutil.copy(patch, os.path.join(dst, "patch.diff"))
        shutil.copy(demo, os.path.join(dst, "demo.py"))
        if os.path.exists(notes):
            shutil.copy(notes, os.path.join(dst, "notes.md"))
        out["needs_to_manifest"] = "see notes.md (written by the sub-agent)"
        json.dump(out, open(os.path.join(dst, "meta.json"), "w"), indent=1)
    print(json.dumps({k: out[k] for k in ("id", "confirmed", "caught_by_own_property_check", "caught_by_any_check")}), {p: (v["exit"], v["first"][:110]) for p, v in fired.items()})
    return 0

sys.exit(main())
