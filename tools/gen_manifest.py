#!/venv/bin/python
"""Regenerate /verif/MANIFEST.json from the rule modules that exist (rules/cNN.py).
A property without a rule module is listed under not_applicable with the reason given in
NOT_APPLICABLE below (or 'check not built yet')."""
import importlib, json, os, subprocess, sys
HERE = os.path.dirname(os.path.dirname(os.path.abspath(__file__)))
sys.path.insert(0, HERE)
sys.dont_write_bytecode = True

NOT_APPLICABLE = {}

TECHNIQUE = {
 "C01": "abstract interpretation of the glue functions (get_stub, get_updated_definition, from_callable_and_traced_types, trace/trace_calls with a symbolic configuration) with symbolic types: nothing observed is dropped; histories on one tracer object (no stale memo); plus the stage rules of C04/C02/C09 that a seeded change showed to be necessary conditions; membership itself is not decided",
 "C02": "abstract interpretation of CallTracer.handle_return/handle_call/__call__ over every event point of a compiled (not executed) opcode corpus x tracer state: typestate of self.traces, exit-opcode table agreement; interprocedural provenance for attribution by code identity; event histories on one tracer object with model values (memo soundness)",
 "C03": "interprocedural taint/effect analysis over the tracer's call graph with a CPython data-model catalogue (hookable operations on program values) and exact-type guards as edge cuts; CFG path analysis of containment and restore/flush pairing incl. exception edges; call-graph containment of everything on the exit path and of per-trace serialisation",
 "C04": "abstract interpretation of get_type/get_dict_type/shrink_types/shrink_typed_dict_types with symbolic elements over the full dispatch partition and all permutations of bounded multisets; the same functions interpreted together on a grammar of small concrete values against a membership oracle; two-call histories; compat.types_equal decided by interpretation through the installed metaclass __eq__",
 "C05": "abstract inference tables (exact-class fall-through, constant-type provenance, witness of every leaf, required/optional) + concrete small-value interpretation against a tightness oracle + histories (a remembered type is not witnessed)",
 "C06": "parameter-forwarding analysis (argument binding / value origins at every call site of max_typed_dict_size carriers), abstract decision tables of get_dict_type / merging against the limit, who-may-create-a-TypedDict call-graph rule, concrete small-value interpretation against the limit oracle",
 "C07": "abstract interpretation of the shipped rewriters over ~1400 abstract unions (class hierarchy with multiple inheritance, exceptions as outcomes) checked by an independent subtype oracle and independently computed triggers; chain interpreted with opaque members, also as a history (id-keyed memo); compat predicates decided by interpretation",
 "C08": "abstract interpretation and composition of encoder and decoder (type_to_json o type_from_json, from_trace o to_trace) over abstract types; table agreement of CREATE/INSERT/SELECT/constructor extracted from folded SQL",
 "C09": "embedded-SQL analysis: SQL text folded by abstract interpretation of make_query/add/list_modules, parsed, judged by a sqlite-semantics catalogue; effect-sequence analysis of add (one transaction), of serialize_traces with failures at every position, and of fault-then-add histories on one store object",
 "C10": "exception-escape analysis: abstract interpretation of CallTraceRow.to_trace in abstract worlds with one stale name (also as the second decode of a history, lru_cache honoured); raised class must be a subclass of the class get_stub tolerates; decision tables of get_stub, the handlers and main by interpretation; merge of rows with differing parameter names",
 "C11": "static translation validation: the stub pipeline is interpreted abstractly down to concrete text, which the checker parses and evaluates in the namespace the stub provides; str.replace sites blamed by idealisation; table agreement between the generic kinds inference builds (enumerated from source) and the rewriter's handlers",
 "C12": "abstract rendering + ast.parse oracle: every parameter-kind sequence rendered (one line / wrapped) must parse back to the same parameters; descriptor -> kind -> decorator -> receiver tables; build_module_stubs interpreted",
 "C13": "complete decision tables of update_signature_args / update_signature_return / Optional wrap extracted by abstract interpretation over the full atom space; argparse flag table; strategy forwarding",
 "C14": "permutation invariance by abstract interpretation: traces->type sets, definitions->rendered text, rewriters over member orders; eq/hash field agreement; process-dependent-call scan",
 "C15": "effect-sequence analysis of apply_stub_handler and apply_stub_using_libcst by abstract interpretation (who writes what, when; which libcst transformations in which order); argument binding against the installed libcst's signature read from its source; plus the signature-shape and import rules of C12/C16 as necessary conditions",
 "C16": "complete decision table of RemoveImportsTransformer.leave_Import/leave_ImportFrom over statements x move lists (incl. relative imports and the remover/gatherer package-knowledge agreement); cross-module table agreement for runtime imports; abstract interpretation of _split_module, _add_type_checking_import and apply_stub_using_libcst",
 "C17": "abstract interpretation of CallTracer.__call__ over event x filter verdict, of the store logger over module names, and of default_code_filter in an abstract file-system world (symlinked roots, look-alike directories, synthetic names, allow-lists) against an oracle; forwarding by interpretation of trace()/trace_calls",
 "C18": "abstract interpretation of handle_call (helpers of util.py inlined) over every call-event point of the compiled corpus x rate x every draw x tracer state: 1-in-N gate, independent draws (no RNG state save/restore), no residue, no trace at resumption, non-interference of the draw",
}

def main():
    props = [json.loads(l) for l in open(os.path.join(HERE, "properties.jsonl"))]
    checks, na = [], []
    for p in props:
        pid = p["id"]
        path = os.path.join(HERE, "rules", pid.lower() + ".py")
        if os.path.exists(path) and pid not in NOT_APPLICABLE:
            m = importlib.import_module("rules." + pid.lower())
            checks.append({
                "property_id": pid,
                "quick_cmd": f"./check {pid} --tier quick",
                "thorough_cmd": f"./check {pid} --tier thorough",
                "evidence_file": f"/verif/evidence/{pid}.json",
                "replay_cmd_template": f"./check {pid} --tier quick  # replay file {{path}} names rule, function and construct",
                "engine": "mtsa",
                "level_claimed": {
                    "category": getattr(m, "LEVEL", "other"),
                    "text": getattr(m, "LEVEL_TEXT", m.EXPLANATION),
                    "design_ref": f"DESIGN.md section 1, {pid}",
                },
                "level_note": getattr(m, "LEVEL_NOTE", "trusted base: CPython semantics of the constructs analysed and the platform catalogue listed in the evidence file; decides the named structural clauses only, not the runtime behaviour as a whole"),
                "technique": "static analysis: " + TECHNIQUE.get(pid, getattr(m, "TECHNIQUE", "ast + CFG + abstract interpretation")),
            })
        else:
            na.append({"property_id": pid, "reason": NOT_APPLICABLE.get(pid, "check not built yet (work in progress; see DESIGN.md for the planned static rules)")})
    commits = subprocess.run(["git", "-C", "/repo", "log", "--format=%h %s", "1edaaae..HEAD"], capture_output=True, text=True).stdout.strip().splitlines()
    man = {
        "version": 1,
        "setup_cmd": "true",
        "hooks": {
            "guard": "MONKEYTYPE_VERIF",
            "enable": "none needed: every check is a static analysis of /repo's source text; no hook or instrumentation is compiled into the repository",
            "baseline_off_cmd": "cd /repo && /venv/bin/python -m pytest -ra -q -p no:cacheprovider --timeout=900 --continue-on-collection-errors",
            "source_commits": [c for c in commits if " fix:" in " " + c],
            "add_only": True,
        },
        "engines": [{
            "name": "mtsa",
            "path": "/verif/mtsa",
            "serves_properties": [c["property_id"] for c in checks],
            "kind_free_text": "repository-specific static analyser: source index, statement CFG with condition atoms / guards / dominance / reaching definitions, small abstract interpreter over finite domains, embedded-SQL and template analyses; stdlib only, runs under /venv/bin/python; never imports or executes /repo code",
        }],
        "checks": checks,
        "notes": "All checks are static (family: static analysis). Exit 0 = all rule instances hold (KNOWN-FINDING lines for recorded defects), 1 = unlisted violation with VIOLATION line, 2 = ANALYSIS-ERROR (analysis could not run). hooks.source_commits lists the unguarded 'fix:' commits (no hook commits exist).",
        "not_applicable": na,
    }
    json.dump(man, open(os.path.join(HERE, "MANIFEST.json"), "w"), indent=1)
    print("checks:", [c["property_id"] for c in checks], "n/a:", [n["property_id"] for n in na])

main()
