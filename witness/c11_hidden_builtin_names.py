"""Witness (run by hand): values whose class says it lives in `builtins` but is not a name of the builtins module - a module object,
NotImplemented, a class's __dict__ (mappingproxy), dict.keys() - are annotated with that bare class name, which nothing provides.
    cd /verif/witness && PYTHONPATH=/repo /venv/bin/python c11_hidden_builtin_names.py      (exit 1 while the finding is present)"""
import sys, tempfile, os, builtins
d = tempfile.mkdtemp(); sys.path.insert(0, d)
open(d + "/whid.py", "w").write("def f(m, k):\n    return NotImplemented\n")
import whid
from monkeytype.tracing import CallTrace
from monkeytype.typing import get_type
from monkeytype.stubs import build_module_stubs_from_traces
tr = CallTrace(whid.f, {"m": get_type(os, 0), "k": get_type({}.keys(), 0)}, get_type(NotImplemented, 0))
txt = build_module_stubs_from_traces([tr], 0)["whid"].render()
print(txt)
ns = {}
try:
    exec(txt, ns)
    print("not present"); sys.exit(0)
except NameError as e:
    print("WITNESSED:", e); sys.exit(1)
