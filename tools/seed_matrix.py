#!/venv/bin/python
"""tools/seed_matrix.py [--own] [seed ids]: every seeded change x every check (scratch copies of /repo's package, removed at once).
Writes seeded/MATRIX.json and prints one line per seed."""
import concurrent.futures as cf, glob, json, os, shutil, subprocess, sys, tempfile
ALL = [f"C{i:02d}" for i in range(1, 19)]
own_only = "--own" in sys.argv
def one(sd):
    sid = os.path.basename(sd)
    d = tempfile.mkdtemp(prefix="mtsa-seed-")
    res = {}
    try:
        shutil.copytree("/repo/monkeytype", d + "/monkeytype")
        r = subprocess.run(["git", "apply", "--include=monkeytype/*", sd + "/patch.diff"], cwd=d, capture_output=True, text=True)
        if r.returncode:
            return sid, {"_patch": "does not apply: " + r.stderr[:100]}
        props = [sid.split("-")[0]] if own_only else ALL
        def chk(p):
            r = subprocess.run(["/verif/check", p], env=dict(os.environ, MTSA_REPO=d, MTSA_NO_EVIDENCE="1"), capture_output=True, text=True)
            first = next((l.strip()[:200] for l in r.stdout.splitlines() if l.startswith(("  R-", "ANALYSIS"))), "")
            return p, r.returncode, first
        with cf.ThreadPoolExecutor(4) as ex:
            for p, rc, first in ex.map(chk, props):
                if rc != 0:
                    res[p] = [rc, first]
    finally:
        shutil.rmtree(d, ignore_errors=True)
    return sid, res
seeds = sorted(x for x in glob.glob("/verif/seeded/C*") if os.path.isdir(x))
only = [a for a in sys.argv[1:] if not a.startswith("--")]
out = {}
if only:
    # tools/seed_matrix.py C02-O C05-O: refresh these rows only, keep the others as recorded
    seeds = [s for s in seeds if os.path.basename(s) in only]
    out = json.load(open("/verif/seeded/MATRIX.json"))
with cf.ThreadPoolExecutor(4) as ex:
    for sid, res in ex.map(one, seeds):
        out[sid] = res
        own = sid.split("-")[0]
        o = res.get(own)
        tag = "OWN " if o and o[0] == 1 else ("AE  " if o and o[0] == 2 else "miss")
        others = [p for p, v in res.items() if p != own and v[0] == 1]
        aes = [p for p, v in res.items() if v[0] == 2]
        print(f"{sid} {tag} others={','.join(others) or '-'} analysis-errors={','.join(aes) or '-'} {(o[1][:110] if o else '')}")
if not own_only:
    json.dump(out, open("/verif/seeded/MATRIX.json", "w"), indent=1, sort_keys=True)
n_own = sum(1 for s, r in out.items() if r.get(s.split('-')[0], [0])[0] == 1)
print(f"seed_matrix: {len(out)} seeds, {n_own} reported by their own property's check")
