"""Witness (run by hand): a generator value is typed Iterator[Any] although no empty container was seen.
    /venv/bin/python /verif/witness/c05_generator_any.py"""
from monkeytype.typing import get_type
g = (i for i in [1, 2, 3])
t = get_type(g, 0)
print(t)
assert "Any" in repr(t)
