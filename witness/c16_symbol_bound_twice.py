"""Witness for R-C16.2 (run by hand: PYTHONPATH=/repo /venv/bin/python witness/c16_symbol_bound_twice.py).
The source binds a symbol twice (`try: from fast import Point` / `except ImportError: from slow import Point`).
get_newly_imported_items read the source's imports from GatherImportsVisitor.symbol_mapping, which keeps only the LAST
import of a symbol: the stub's `from fast import Point` counted as new, and --pep_563 removed the source's own import."""
import sys
from monkeytype import cli
src = '''try:
    from fast import Point
except ImportError:
    from slow import Point


def f(x):
    return Point(x)
'''
stub = "from fast import Point\ndef f(x: int) -> Point: ...\n"
out = cli.apply_stub_using_libcst(stub, src, False, True)
print(out)
import ast
tree = ast.parse(out)
tries = [n for n in tree.body if isinstance(n, ast.Try)]
kept = bool(tries) and any(isinstance(s, ast.ImportFrom) and s.module == "fast" for s in tries[0].body)
if not kept:
    print("WITNESSED: the source's own `from fast import Point` is gone from the try block"); print("FAILED"); sys.exit(1)
print("OK")
