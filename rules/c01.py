"""C01 - emitted annotations admit every value seen at runtime (run -> store -> stub): the wiring clause.

Membership of runtime values in the rendered annotation is a value round trip; its stage-wise
necessary conditions are decided under C04 (inference), C06 (limit), C07 (rewriters), C08 (codec),
C10 (decoding), C11/C12 (rendering), C13 (annotation placement) and C14 (all traces merged).  What is
specific to C01 - and decided here - is that the glue between those stages drops nothing:

R-C01.1  get_stub: rewriter choice (config.type_rewriter() unless --disable-type-rewriting, then a no-op),
         limit from the config, all decoded traces handed on
R-C01.2  get_updated_definition: each position's merged type is rewritten exactly once by the given rewriter
         and handed on; absent return / yield stay absent
R-C01.3  from_callable_and_traced_types: every traced name, the return and the yield type reach the signature
         update (after TypedDict replacement), and every generated TypedDict class stub is kept
R-C01.4  trace(): the tracer is built from the same config (logger -> store, limit)
R-C01.5  histories on one tracer object: every recorded type is inferred from the event's own value
R-C01.6  the annotation text evaluates, with the names the stub itself provides, to the inferred type (core types)
"""
from __future__ import annotations

import ast
from typing import Any, Dict, List, Optional, Tuple

from mtsa.absint import K, R, Ref, S, U, V, State
from mtsa.index import Repo, calls_in, dotted, norm, walk_no_nested
from mtsa.report import AnalysisError, Ctx

from .cli_model import CLI, CliScenario
from .sig_model import ST, StubScenario
from .common import RepoInterp, bound_argument, call_sites, is_call_to, returns_of

N_ROWS = 2500  # more rows than the default query limit, so that any fixed-size cut shows

LEVEL = "other"
LEVEL_TEXT = (
    "Static check of the wiring clause and of the stage conditions seeded changes showed to matter (every container element inspected, every frame "
    "exit recorded, distinct rows surviving the query, no stale memo in the tracer or in get_type): the glue functions between store, merging, rewriting, TypedDict replacement "
    "and signature update are interpreted abstractly and must pass every observed type on, choose the rewriter and the limit "
    "from the configuration and keep every generated class stub. Whether the final annotation admits the observed values is "
    "NOT decided here (it is a value round trip); its per-stage necessary conditions are claimed under C04/C06/C07/C08/C10/"
    "C11/C12/C13/C14."
)
EXPLANATION = LEVEL_TEXT


def rule_get_stub(ctx: Ctx, repo: Repo) -> None:
    gs = repo.fn(CLI, "get_stub")
    ctx.functions.add(gs.fq)
    ps = gs.positional_params()
    for disable in (False, True):
        built: List[Tuple[Any, ...]] = []
        def hook(call, fname, fval, a, kw, st, _b=built):
            m = call.func.attr if isinstance(call.func, ast.Attribute) else None
            if m == "filter":
                return K(tuple(R("thunk", id=K(i)) for i in range(N_ROWS)))
            if m == "to_trace" and isinstance(fval, R) and fval.kind == "thunk":
                return R("decoded", id=fval.fields["id"])
            if fname == "print":
                return K(None)
            if fname == "build_module_stubs_from_traces":
                _b.append((tuple(st.freeze(x) for x in a), {k: st.freeze(v) for k, v in kw.items()}))
                return R("stubs")
            if m == "get" and isinstance(fval, R) and fval.kind == "stubs":
                return S("stub")
            if m in ("trace_store", "type_rewriter", "max_typed_dict_size") and isinstance(fval, S):
                return R("from_config", what=K(m), config=fval)
            if fname == "NoOpRewriter" and not a:
                return R("noop_rewriter")
            return None
        ri = RepoInterp(repo, gs, may_fork=(), heap=True, call_hook=hook)
        ri.interp.on_attr = lambda obj, attr, node, st: S(f"{obj.name}.{attr}") if isinstance(obj, S) else None
        args = R("args", module_path=K((K("pkg.mod"), K("C.m"))), limit=S("limit"), verbose=K(False), disable_type_rewriting=K(disable),
                 existing_annotation_strategy=S("strategy"), sample_count=K(False), config=S("config"))
        outs = ri.run({ps[0]: args, ps[1]: K("stdout"), ps[2]: K("stderr")})
        if len(outs) != 1 or len(built) != 1:
            raise AnalysisError(f"get_stub: {len(outs)} outcomes, {len(built)} stub builds")
        pos, kw = built[0]
        callee = repo.fn(ST, "build_module_stubs_from_traces")
        names = callee.positional_params()
        bound = dict(zip(names, pos))
        bound.update(kw)
        want_rw = R("noop_rewriter") if disable else R("from_config", what=K("type_rewriter"), config=S("config"))
        ctx.check(bound.get("rewriter") == want_rw, "R-C01.1", gs.fq,
                  "the rewriter is the configuration's type_rewriter() unless --disable-type-rewriting, in which case it is a no-op rewriter",
                  construct=f"disable_type_rewriting={disable}: rewriter={bound.get('rewriter')}")
        ctx.check(bound.get("max_typed_dict_size") == R("from_config", what=K("max_typed_dict_size"), config=S("config")), "R-C01.1", gs.fq,
                  "the TypedDict limit used for merging is the configuration's", construct=f"{bound.get('max_typed_dict_size')}")
        tr_ = bound.get("traces")
        ctx.check(tr_ == R("list", items=tuple(R("decoded", id=K(i)) for i in range(N_ROWS))), "R-C01.1", gs.fq,
                  "every decoded trace is handed to stub generation (no slicing, sampling or filtering)",
                  construct=f"{len(tr_.fields['items']) if isinstance(tr_, R) and tr_.kind == 'list' else tr_} of {N_ROWS} decoded traces are passed on")
        ctx.check(bound.get("existing_annotation_strategy") == S("strategy"), "R-C01.1", gs.fq, "the requested annotation strategy is passed on", construct=f"{bound.get('existing_annotation_strategy')}")


def rule_updated_definition(ctx: Ctx, repo: Repo, rule: str = "R-C01.2") -> None:
    gud = repo.fn(ST, "get_updated_definition")
    ctx.functions.add(gud.fq)
    ps = gud.positional_params()
    for rt, yt in ((S("T:ret"), S("T:yld")), (K(None), S("T:yld")), (S("T:ret"), K(None)), (K(None), K(None))):
        for given in (True, False):
            calls: List[Any] = []
            rewrites: List[Any] = []
            def hook(call, fname, fval, a, kw, st, _c=calls, _r=rewrites, _rt=rt, _yt=yt):
                m = call.func.attr if isinstance(call.func, ast.Attribute) else None
                if fname == "shrink_traced_types":
                    return K((R("dict", items=((K("a"), S("T:a")), (K("b"), S("T:b")))), _rt, _yt))
                if m == "rewrite" and isinstance(fval, (R, S)):
                    _r.append((fval, a[0]))
                    return R("rewritten", by=fval, of=a[0])
                if fname == "NoOpRewriter":
                    return R("noop_rewriter")
                if fname and fname.endswith("from_callable_and_traced_types"):
                    _c.append(tuple(st.freeze(x) for x in a))
                    # the definition whose signature the strategy-aware update functions produced (here: a source annotation was kept)
                    return R("definition", signature=R("sig", return_annotation=S("anno:kept-from-source"), parameters=S("params")), typed_dict_class_stubs=S("stubs"))
                return None
            sc = StubScenario(repo, "get_updated_definition", call_hook=hook)
            rw: V = S("the-rewriter") if given else K(None)
            res_def = sc.result({ps[0]: S("func"), ps[1]: S("traces"), ps[2]: S("limit"), ps[3]: rw, ps[4]: S("strategy")})
            used = S("the-rewriter") if given else R("noop_rewriter")
            lab = f"return={'absent' if rt == K(None) else 'T'} yield={'absent' if yt == K(None) else 'T'} rewriter={'given' if given else 'None'}"
            if not ctx.check(len(calls) == 1 and len(calls[0]) == 5, rule, gud.fq, "one definition is built per function", construct=f"{lab}: {len(calls)} calls"):
                continue
            f_, args_, r_, y_, s_ = calls[0]
            want_args = R("dict", items=((K("a"), R("rewritten", by=used, of=S("T:a"))), (K("b"), R("rewritten", by=used, of=S("T:b")))))
            ctx.check(f_ == S("func") and args_ == want_args, rule, gud.fq, "every argument's merged type is rewritten once by the rewriter in use and handed on",
                      construct=f"{lab}: {args_}")
            ctx.check(r_ == (K(None) if rt == K(None) else R("rewritten", by=used, of=rt)) and y_ == (K(None) if yt == K(None) else R("rewritten", by=used, of=yt)), rule, gud.fq,
                      "the merged return / yield types are rewritten once and handed on; absent ones stay absent", construct=f"{lab}: return {r_} yield {y_}")
            ctx.check(s_ == S("strategy") and len(rewrites) == 2 + (rt != K(None)) + (yt != K(None)), rule, gud.fq, "nothing is rewritten twice or skipped", construct=f"{lab}: {len(rewrites)} rewrites")
            want_def = R("definition", signature=R("sig", return_annotation=S("anno:kept-from-source"), parameters=S("params")), typed_dict_class_stubs=S("stubs"))
            ctx.check(res_def == want_def, rule, gud.fq,
                      "the definition built from the traced types is returned as it is: the signature that the strategy-aware updates produced (kept source annotations included) is not touched afterwards",
                      construct=f"{lab}: returns {str(res_def)[:200]}")


def rule_traced_types(ctx: Ctx, repo: Repo, rule: str = "R-C01.3", receiver: bool = True) -> None:
    fi = repo.fn(ST, "FunctionDefinition.from_callable_and_traced_types")
    ctx.functions.add(fi.fq)
    ps = fi.positional_params()
    for rt, yt in ((S("T:ret"), S("T:yld")), (K(None), K(None)), (S("T:ret"), K(None)), (S("T:Registry", truth=False), S("T:EmptyEnum", truth=False))):  # the last: falsy class objects
        upd: Dict[str, Any] = {}
        made: List[Any] = []
        def hook(call, fname, fval, a, kw, st, _u=upd, _m=made):
            m = call.func.attr if isinstance(call.func, ast.Attribute) else None
            d = fname or ""
            if d.endswith("rewrite_and_get_stubs"):
                hint = a[1] if len(a) > 1 else kw.get("class_name_hint")
                return K((R("replaced", of=a[0]), R("list", items=(R("classstub_for", of=a[0], hint=hint),))))
            if d.endswith("from_callable") and not d.endswith("traced_types"):
                return R("inst", __cls__=K("monkeytype.stubs.FunctionDefinition"), module=K("pkg.mod"), qualname=K("C.m"), kind=S("kind"), signature=S("sig0"),
                         is_async=K(False), has_self=K(receiver))
            if d == "update_signature_args":
                _u["args"] = tuple(st.freeze(x) for x in a)
                return S("sig1")
            if d == "update_signature_return":
                _u["ret"] = tuple(st.freeze(x) for x in a)
                return S("sig2")
            if d == "FunctionDefinition":
                _m.append((tuple(st.freeze(x) for x in a), {k: st.freeze(v) for k, v in kw.items()}))
                return R("definition")
            return None
        sc = StubScenario(repo, "FunctionDefinition.from_callable_and_traced_types", call_hook=hook)
        func = R("func", __qualname__=K("C.m"), __module__=K("pkg.mod"))
        sc.result({ps[0]: S("class:monkeytype.stubs.FunctionDefinition"), ps[1]: func, ps[2]: R("dict", items=((K("self"), S("T:self")), (K("a"), S("T:a")), (K("b"), S("T:b")))), ps[3]: rt, ps[4]: yt, ps[5]: S("strategy")})
        lab = f"return={'absent' if rt == K(None) else 'T'} yield={'absent' if yt == K(None) else 'T'}"
        a_ = upd.get("args")
        ok = a_ is not None and a_[0] == S("sig0") and a_[1] == R("dict", items=((K("self"), R("replaced", of=S("T:self"))), (K("a"), R("replaced", of=S("T:a"))), (K("b"), R("replaced", of=S("T:b"))))) and a_[2] == K(receiver) and a_[3] == S("strategy")
        ctx.check(ok, rule, fi.fq, "every traced argument type (after TypedDict replacement) reaches update_signature_args together with the function's own signature and receiver flag",
                  construct=f"{lab}: {a_}")
        r_ = upd.get("ret")
        # a plain class object (the falsy ones here) holds no TypedDict: handing it on as it is equals handing on its replacement
        plain = lambda t: isinstance(t, S) and t.truth is False  # noqa: E731
        okv = lambda got, t: got == (K(None) if t == K(None) else R("replaced", of=t)) or (plain(t) and got == t)  # noqa: E731
        ok = r_ is not None and r_[0] == S("sig1") and okv(r_[1], rt) and okv(r_[2], yt) and r_[3] == S("strategy")
        ctx.check(ok, rule, fi.fq, "the traced return / yield types reach update_signature_return on the signature whose arguments were updated", construct=f"{lab}: {r_}")
        ok = len(made) == 1
        if ok:
            pos, kw = made[0]
            init = repo.method(repo.cls(ST, "FunctionDefinition"), "__init__")
            bound = dict(zip(init.positional_params()[1:], pos))
            bound.update(kw)
            stubs = bound.get("typed_dict_class_stubs")
            n_want = 3 + (rt != K(None)) + (yt != K(None))
            n_min = n_want - (r_ is not None and plain(rt) and r_[1] == rt) - (r_ is not None and plain(yt) and r_[2] == yt)
            ok = bound.get("sig") == S("sig2") and isinstance(stubs, R) and stubs.kind == "list" and n_min <= len(stubs.fields["items"]) <= n_want and \
                bound.get("module") == K("pkg.mod") and bound.get("qualname") == K("C.m") and bound.get("kind") == S("kind")
        ctx.check(ok, rule, fi.fq, "the definition carries the fully updated signature and every generated TypedDict class stub (arguments, return, yield)",
                  construct=f"{lab}: {str(made)[:200]}")


def rule_trace_config(ctx: Ctx, repo: Repo) -> None:
    tr = repo.fn("monkeytype", "trace")
    ctx.functions.add(tr.fq)
    from . import glue_model as GM
    for pname, meth in (("logger", "trace_logger"), ("max_typed_dict_size", "max_typed_dict_size"), ("code_filter", "code_filter"), ("sample_rate", "sample_rate")):
        GM.check_forwarding(ctx, repo, "R-C01.4", pname, meth, f"trace() builds the tracer's {pname} from config.{meth}()")
    cfg = repo.cls("monkeytype.config", "Config")
    tl = repo.method(cfg, "trace_logger")
    made = GM.default_logger(repo)
    ok = made is not None and made[0] == "CallTraceStoreLogger" and made[1] == (R("cfg", meth=K("trace_store"), of=S("self")),)
    ctx.check(ok, "R-C01.4", tl.fq, "the default logger writes to the configuration's own trace store (the one `stub` reads)", construct=f"returns {made}")


def run(ctx: Ctx, repo: Repo, tier: str) -> None:
    ctx.assume("the stage-wise conditions (inference admits every value, rewriters never narrow, codec round-trips, rendering denotes the type) are decided under C04-C14")
    ctx.attempt(rule_get_stub, ctx, repo)
    ctx.attempt(rule_updated_definition, ctx, repo)
    ctx.attempt(rule_traced_types, ctx, repo)
    ctx.attempt(rule_trace_config, ctx, repo)
    from .memo_rules import tracer_no_memory
    ctx.attempt(tracer_no_memory, ctx, repo, "R-C01.5")
    from .memo_rules import infer_no_memory
    ctx.attempt(infer_no_memory, ctx, repo, "R-C01.5")
    # stage conditions whose failure alone already breaks C01 (decided in full under the stage's own property):
    # every element of a container is inspected, every exit of a frame records its value's type, distinct rows survive the query
    from . import c02 as _c02, c04 as _c04, c09 as _c09
    ctx.note("R-C04.1/R-C04.2, R-C02.1/R-C02.2, R-C09.1-3, R-C07.1-3/7 and R-C14.1a below are the stage rules of C04, C02, C09, C07 and C14, run here as necessary conditions of C01")
    ctx.attempt(_c04.rule_get_type, ctx, repo)
    ctx.attempt(_c04.rule_dict_type, ctx, repo)
    ctx.attempt(_c02.rule_return_table, ctx, repo)
    ctx.attempt(_c02.rule_arg_capture, ctx, repo)  # exactly the named parameters are recorded, each with the type of its own value
    ctx.attempt(_c09.rule_query, ctx, repo)
    # the shipped rewriters never narrow (R-C07.1/2/3/7): the rewritten type is what the stub shows
    from . import c07 as _c07
    ctx.attempt(_c07.rule_rewriters, ctx, repo, "quick")
    ctx.attempt(_c07.rule_nested, ctx, repo)
    # every trace's argument / return / yield type reaches the per-function sets that are merged (nothing dropped per trace)
    from . import c14 as _c14
    ctx.attempt(_c14.rule_traces_to_sets, ctx, repo)
    from . import c11 as _c11
    ctx.attempt(_c11.rule_pipeline_core, ctx, repo, "R-C01.6")
    ctx.settle()
