"""One-shot iterators are consumed once.

A generator expression, a generator-function call, `map`, `filter`, `zip`, `iter`, `reversed`, `enumerate`,
`itertools.chain / chain.from_iterable / islice / starmap / takewhile / dropwhile / accumulate` produce an object that can
be walked ONCE; a second walk sees nothing.  Two shapes are decided over the package's source (def-use on the CFG, nothing
is executed):

* **local**: a name bound to such an expression reaches two consuming uses that lie on one path (a `for` over it, a
  comprehension over it, `list/tuple/set/sorted/sum/any/all/min/max/dict/frozenset/"".join/len-less` calls on it, `yield from`,
  handing it to another function, a second loop iteration around a use): the second one gets the exhausted iterator;
* **stored**: such an expression is assigned to an attribute of `self` (or to a module-level name, or is the default of a
  parameter) and that attribute / name is walked by a method or function that can run more than once per object / process
  (anything but `__init__`): from the second call on it is empty.  A stored `list(...)`, `tuple(...)`, a list comprehension etc.
  is fine.

The interpreter's scenarios materialise lazy sequences eagerly (a tuple of the elements), so they cannot see this by
themselves; this rule closes that gap for the modules a property is anchored in."""
from __future__ import annotations

import ast
from typing import Any, Dict, List, Optional, Set, Tuple

from mtsa.index import FunctionInfo, Repo, dotted, norm, walk_no_nested
from mtsa.report import Ctx

from .common import cfg_of

LAZY_CALLS = {"map", "filter", "zip", "iter", "reversed", "enumerate", "itertools.chain", "chain", "itertools.chain.from_iterable", "chain.from_iterable",
              "itertools.islice", "islice", "itertools.starmap", "starmap", "itertools.takewhile", "takewhile", "itertools.dropwhile", "dropwhile",
              "itertools.accumulate", "accumulate", "itertools.zip_longest", "zip_longest", "itertools.filterfalse", "filterfalse", "itertools.compress",
              "itertools.groupby", "groupby", "itertools.pairwise", "itertools.product", "itertools.permutations", "itertools.combinations"}
CONSUMERS = {"list", "tuple", "set", "frozenset", "sorted", "sum", "any", "all", "min", "max", "dict", "collections.Counter", "Counter", "collections.deque", "deque",
             "functools.reduce", "reduce", "next"}
MODULES_OF = {
    "C01": ("monkeytype.stubs", "monkeytype.typing", "monkeytype.encoding", "monkeytype.cli"),
    "C02": ("monkeytype.tracing",), "C03": ("monkeytype.tracing", "monkeytype.typing"), "C04": ("monkeytype.typing",), "C05": ("monkeytype.typing",), "C06": ("monkeytype.typing",),
    "C07": ("monkeytype.typing",), "C08": ("monkeytype.encoding", "monkeytype.util"), "C09": ("monkeytype.db.sqlite", "monkeytype.db.base", "monkeytype.encoding"),
    "C10": ("monkeytype.cli", "monkeytype.encoding", "monkeytype.util"), "C11": ("monkeytype.stubs",), "C12": ("monkeytype.stubs",), "C13": ("monkeytype.stubs",),
    "C14": ("monkeytype.stubs", "monkeytype.typing"), "C15": ("monkeytype.cli", "monkeytype.type_checking_imports_transformer"),
    "C16": ("monkeytype.cli", "monkeytype.type_checking_imports_transformer"), "C17": ("monkeytype.config", "monkeytype.tracing", "monkeytype.db.base"), "C18": ("monkeytype.tracing",),
}


def _generator_functions(repo: Repo) -> Set[str]:
    out = set()
    for fi in repo.all_functions():
        if any(isinstance(x, (ast.Yield, ast.YieldFrom)) for x in walk_no_nested(fi.node)) and not any((d.split("(")[0]).endswith("contextmanager") for d in fi.decorators()):
            out.add(fi.fq)
    return out


def is_lazy(repo: Repo, fi: Optional[FunctionInfo], e: Optional[ast.AST], gens: Set[str]) -> bool:
    if isinstance(e, ast.GeneratorExp):
        return True
    if isinstance(e, ast.IfExp):
        return is_lazy(repo, fi, e.body, gens) or is_lazy(repo, fi, e.orelse, gens)
    if isinstance(e, ast.Call):
        d = dotted(e.func) or ""
        if d in LAZY_CALLS:
            return True
        if fi is not None:
            callee = repo.resolve_callee(fi, e)
            if callee is not None and callee.fq in gens:
                return True
    return False


def _consumptions(fi: FunctionInfo, name_test: Any) -> List[Tuple[ast.AST, str]]:
    """(node, how) for every use of the iterator expression that walks it"""
    out: List[Tuple[ast.AST, str]] = []
    for x in walk_no_nested(fi.node):
        if isinstance(x, (ast.For, ast.AsyncFor)) and name_test(x.iter):
            out.append((x, "a for loop over it"))
        elif isinstance(x, ast.comprehension) and name_test(x.iter):
            out.append((x.iter, "a comprehension over it"))
        elif isinstance(x, ast.YieldFrom) and name_test(x.value):
            out.append((x, "`yield from` it"))
        elif isinstance(x, ast.Starred) and name_test(x.value) and isinstance(x.ctx, ast.Load):
            out.append((x, "unpacking it with *"))
        elif isinstance(x, ast.Call):
            d = dotted(x.func) or ""
            args = list(x.args) + [k.value for k in x.keywords]
            if isinstance(x.func, ast.Attribute) and x.func.attr in ("join", "extend", "update", "union", "intersection", "difference", "isdisjoint", "issubset", "issuperset") and any(name_test(a) for a in args):
                out.append((x, f".{x.func.attr}() of it"))
            elif any(name_test(a) for a in args):
                out.append((x, f"{d}() on it" if d in CONSUMERS or d in LAZY_CALLS else f"handing it to {d or norm(x.func)[:30]}()"))
        elif isinstance(x, ast.Compare) and any(isinstance(op, (ast.In, ast.NotIn)) for op in x.ops) and any(name_test(c) for c in x.comparators):
            out.append((x, "a membership test on it"))
    return out


def rule_single_use_iterators(ctx: Ctx, repo: Repo, prop: str, rule: str = "R-ITER.1") -> None:
    gens = _generator_functions(repo)
    mods = MODULES_OF.get(prop, ())
    n_bind = 0
    for mn in mods:
        mod = repo.modules.get(mn)
        if mod is None:
            continue
        # ---- local names --------------------------------------------------------------------------------------
        for fi in mod.functions.values():
            g = None
            binds: Dict[str, List[ast.AST]] = {}
            for x in walk_no_nested(fi.node):
                if isinstance(x, ast.Assign) and len(x.targets) == 1 and isinstance(x.targets[0], ast.Name) and is_lazy(repo, fi, x.value, gens):
                    binds.setdefault(x.targets[0].id, []).append(x)
                elif isinstance(x, ast.NamedExpr) and isinstance(x.target, ast.Name) and is_lazy(repo, fi, x.value, gens):
                    binds.setdefault(x.target.id, []).append(x)
            for name, defs in binds.items():
                n_bind += 1
                uses = _consumptions(fi, lambda e, _n=name: isinstance(e, ast.Name) and e.id == _n)
                if len(uses) < 1:
                    continue
                g = g or cfg_of(fi)
                def node_id(a: ast.AST) -> Optional[int]:
                    cur: Optional[ast.AST] = a
                    parents = {id(c): p for p in walk_no_nested(fi.node) for c in ast.iter_child_nodes(p)}
                    while cur is not None:
                        nd = g.node_of(cur)
                        if nd is not None:
                            return nd.id
                        cur = parents.get(id(cur))
                    return None
                parents_ast = {id(c): p for p in walk_no_nested(fi.node) for c in ast.iter_child_nodes(p)}

                def loops_around(a: ast.AST) -> List[int]:
                    """ids of the loops in whose repeated part (body; a while loop's test) the node lies"""
                    out_l: List[int] = []
                    cur, par = a, parents_ast.get(id(a))
                    while par is not None:
                        if isinstance(par, (ast.For, ast.AsyncFor)) and any(cur is s_ for s_ in par.body):
                            out_l.append(id(par))
                        elif isinstance(par, ast.While) and (cur is par.test or any(cur is s_ for s_ in par.body)):
                            out_l.append(id(par))
                        elif isinstance(par, (ast.ListComp, ast.SetComp, ast.DictComp, ast.GeneratorExp)) and not (par.generators and cur is par.generators[0] ):
                            out_l.append(id(par))  # the element expression / later generators run once per item
                        cur, par = par, parents_ast.get(id(par))
                    return out_l

                ids = [(node_id(u), u, how) for u, how in uses]
                # every binding of the name must be lazy for the verdict to be about THIS object: other bindings re-arm it
                all_defs = [x for x in walk_no_nested(fi.node) if isinstance(x, ast.Name) and x.id == name and isinstance(x.ctx, ast.Store)]
                rebound_between = len(all_defs) > len(defs)
                bad: Optional[Tuple[str, str, ast.AST]] = None
                for i, (a, ua, ha) in enumerate(ids):
                    if a is None:
                        continue
                    use_loops = loops_around(ua)
                    def_loops = [set(loops_around(d_)) for d_ in defs]
                    if use_loops and any(not (set(use_loops) <= dl) for dl in def_loops):
                        bad = (ha, "the same use again in the next iteration of the enclosing loop", ua)
                        break
                    for b, ub, hb in ids[i + 1:]:
                        if b is None or a == b:
                            continue
                        if b in g.reach(a) or a in g.reach(b):
                            bad = (ha, hb, ub)
                            break
                    if bad:
                        break
                if bad and not rebound_between:
                    ctx.violate(rule, fi.fq, f"`{name} = {norm(defs[0].value if hasattr(defs[0], 'value') else defs[0])[:60]}` is walked twice: {bad[0]}, then {bad[1]}",
                                "a one-shot iterator (generator expression, map, filter, zip, chain, a generator function's result) is consumed more than once on one path: the second consumer sees it exhausted", node=bad[2])
                else:
                    ctx.ok(rule, fi.fq, f"the iterator `{name}` is consumed at most once on every path")
        # ---- stored on self / in the module / as a parameter default ----------------------------------------------
        for ci in mod.classes.values():
            stored: Dict[str, Tuple[FunctionInfo, ast.AST]] = {}
            for m in ci.methods.values():
                for x in walk_no_nested(m.node):
                    if isinstance(x, (ast.Assign, ast.AnnAssign)):
                        tgts = x.targets if isinstance(x, ast.Assign) else [x.target]
                        val = x.value
                        for t in tgts:
                            if isinstance(t, ast.Attribute) and isinstance(t.value, ast.Name) and t.value.id == "self" and val is not None and is_lazy(repo, m, val, gens):
                                stored[t.attr] = (m, x)
            for attr, (m_def, x_def) in stored.items():
                n_bind += 1
                walkers = []
                for m in ci.methods.values():
                    if m.qualname.split(".")[-1] == "__init__":
                        continue
                    uses = _consumptions(m, lambda e, _a=attr: isinstance(e, ast.Attribute) and e.attr == _a and isinstance(e.value, ast.Name) and e.value.id == "self")
                    if uses:
                        walkers.append((m, uses[0]))
                if walkers:
                    m_w, (u_w, how_w) = walkers[0]
                    ctx.violate(rule, m_def.fq, f"`self.{attr} = {norm(x_def.value)[:60]}` is kept on the object and walked by {m_w.qualname} ({how_w})",
                                "a one-shot iterator is stored on an object whose method walks it on every call: from the second call on it is exhausted", node=x_def)
                else:
                    ctx.ok(rule, m_def.fq, f"the stored iterator self.{attr} is not walked by a repeatable method")
        for st in mod.tree.body:
            if isinstance(st, (ast.Assign, ast.AnnAssign)):
                tgts = st.targets if isinstance(st, ast.Assign) else [st.target]
                if st.value is not None and is_lazy(repo, None, st.value, gens) or (isinstance(st.value, ast.Call) and (dotted(st.value.func) or "") in {f.qualname for f in mod.functions.values() if f.fq in gens}):
                    for t in tgts:
                        if isinstance(t, ast.Name):
                            n_bind += 1
                            users = [f for f in mod.functions.values() if _consumptions(f, lambda e, _n=t.id: isinstance(e, ast.Name) and e.id == _n) and t.id not in f.params]
                            if users:
                                ctx.violate(rule, mn + ".<module level>", f"`{t.id} = {norm(st.value)[:60]}` is a module-level one-shot iterator walked by {users[0].qualname}",
                                            "a one-shot iterator kept at module level is walked by a function: the second call finds it exhausted", node=st)
        for fi in mod.functions.values():
            for p, dflt in fi.defaults().items():
                if is_lazy(repo, fi, dflt, gens):
                    n_bind += 1
                    ctx.violate(rule, fi.fq, f"parameter `{p}` defaults to `{norm(dflt)[:60]}`", "a one-shot iterator as a parameter default is created once and shared by all calls", node=dflt)
    ctx.count(f"{rule}:bindings of one-shot iterators examined", n_bind)
