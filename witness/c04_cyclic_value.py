"""Witness (run by hand): get_type on a container that contains itself never returns (RecursionError).
    cd /verif/witness && PYTHONPATH=/repo /venv/bin/python c04_cyclic_value.py      (exit 1 while the finding is present)"""
import sys
from monkeytype.typing import get_type
bad = []
l = []; l.append(l)
d = {}; d["self"] = d
t = []; t.append((t,))
for what, v in (("a list that contains itself", l), ("a dict whose value is the dict itself", d), ("a list holding a tuple holding the list", t)):
    try:
        print(what, "->", get_type(v, 0))
    except RecursionError:
        bad.append(what)
        print("WITNESSED:", what, "-> RecursionError")
print("not present" if not bad else f"{len(bad)} shapes")
sys.exit(1 if bad else 0)
