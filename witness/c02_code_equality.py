"""Witness for R-C02.4 (fixed): CallTracer.cache was keyed by code objects, which compare equal across files,
so the same function text at the same lines of two modules was attributed to the first module's function.
Run by hand: /venv/bin/python witness/c02_code_equality.py  (exit 1 = defect present)."""
import importlib.util, pathlib, sys, tempfile
from monkeytype.tracing import CallTraceLogger, trace_calls

tmp = pathlib.Path(tempfile.mkdtemp())
mods = []
for name in ("alpha", "beta"):
    p = tmp / f"{name}.py"
    p.write_text("def f(x):\n    return x\n")
    spec = importlib.util.spec_from_file_location(name, p)
    m = importlib.util.module_from_spec(spec)
    sys.modules[name] = m
    spec.loader.exec_module(m)
    mods.append(m)

class L(CallTraceLogger):
    def __init__(self): self.traces = []
    def log(self, t): self.traces.append(t)

lg = L()
with trace_calls(lg, max_typed_dict_size=0):
    mods[0].f(1)
    mods[1].f("s")
got = [(t.func.__module__, t.arg_types) for t in lg.traces]
print(got)
if [m for m, _ in got] != ["alpha", "beta"]:
    print("WITNESSED: the call of beta.f is attributed to", got[1][0] + ".f")
    sys.exit(1)
print("OK")
