#!/venv/bin/python
"""tools/refac_eval.py <name>: take /tmp/refac/<name>/REFAC_n/patch.diff (behaviour-preserving refactorings written by
independent sub-agents), keep them under selftest/refac_patches/, and run all 18 checks on a scratch copy of /repo's
package with each patch applied.  Every check must stay silent (exit 0)."""
import concurrent.futures as cf, glob, os, shutil, subprocess, sys, tempfile
ALL = [f"C{i:02d}" for i in range(1, 19)]
def one(patch):
    d = tempfile.mkdtemp(prefix="mtsa-refac-")
    out = []
    try:
        shutil.copytree("/repo/monkeytype", d + "/monkeytype")
        r = subprocess.run(["git", "apply", "--include=monkeytype/*", patch], cwd=d, capture_output=True, text=True)
        if r.returncode:
            return [(patch, "-", 3, "patch does not apply: " + r.stderr[:200])]
        def chk(p):
            r = subprocess.run(["/verif/check", p], env=dict(os.environ, MTSA_REPO=d, MTSA_NO_EVIDENCE="1"), capture_output=True, text=True)
            first = next((l.strip()[:300] for l in r.stdout.splitlines() if l.startswith(("  R-", "ANALYSIS"))), "")
            return (patch, p, r.returncode, first)
        with cf.ThreadPoolExecutor(6) as ex:
            out = list(ex.map(chk, ALL))
    finally:
        shutil.rmtree(d, ignore_errors=True)
    return out
def main():
    names = sys.argv[1:]
    patches = []
    if not names:
        patches = sorted(glob.glob("/verif/selftest/refac_patches/*.diff"))
    for n in names:
        if n and glob.glob(f"/tmp/refac/{n}/REFAC_*/patch.diff"):
            for pd in sorted(glob.glob(f"/tmp/refac/{n}/REFAC_*/patch.diff")):
                k = os.path.basename(os.path.dirname(pd)).split("_")[1]
                dst = f"/verif/selftest/refac_patches/{n}_{k}.diff"
                shutil.copy(pd, dst)
                notes = os.path.join(os.path.dirname(pd), "notes.md")
                if os.path.exists(notes):
                    shutil.copy(notes, dst.replace(".diff", ".notes.md"))
                patches.append(dst)
        else:
            patches.extend(sorted(glob.glob(f"/verif/selftest/refac_patches/{n}*.diff")))
    bad = 0
    with cf.ThreadPoolExecutor(3) as ex:
        for res in ex.map(one, patches):
            for patch, p, rc, first in res:
                if rc != 0:
                    bad += 1
                    print(f"WRONG {os.path.basename(patch)} {p} rc={rc} {first}")
    print(f"refac_eval: {len(patches)} patches x 18 checks, {bad} not silent")
main()
