"""Abstract model of the glue functions that connect a configuration to the tracer: `monkeytype.trace`
is interpreted with a symbolic configuration object; every method call on the configuration yields the
record R('cfg', meth=K(name)) (same call -> same record), the call of trace_calls is captured with its
arguments bound to trace_calls' parameter names.  Rules about "which configuration value reaches which
tracer parameter" (C01, C03, C06, C17, C18) read this table, so that the way trace() is written -
keyword or positional arguments, hoisted locals, a **dict, a helper - does not matter."""
from __future__ import annotations

import ast
from typing import Any, Dict, List, Optional, Tuple

from mtsa.absint import K, R, Ref, S, U, V, State
from mtsa.index import FunctionInfo, Repo
from mtsa.report import AnalysisError
from .common import RepoInterp, block_entry


def bind_values(callee: FunctionInfo, args: List[V], kwargs: Dict[str, V], skip_self: bool = False) -> Dict[str, V]:
    a = callee.node.args  # type: ignore[attr-defined]
    pos = [x.arg for x in a.posonlyargs + a.args]
    if skip_self and pos and pos[0] in ("self", "cls"):
        pos = pos[1:]
    out: Dict[str, V] = {}
    for p, v in zip(pos, args):
        out[p] = v
    for k, v in kwargs.items():
        out[k] = v
    return out


class TraceGlue:
    """result of interpreting monkeytype.trace(config)"""

    def __init__(self, repo: Repo, config_given: bool) -> None:
        self.repo = repo
        self.given = config_given
        self.fi = repo.fn("monkeytype", "trace")
        self.tc = block_entry(repo)
        self.calls: List[Dict[str, V]] = []  # bound arguments of every trace_calls call
        self.cfg_calls: List[str] = []
        inline = {f.fq for f in repo.module("monkeytype").functions.values()}
        self.ri = RepoInterp(repo, self.fi, inline=inline, call_hook=self.hook, may_fork=(), heap=True)
        ps = self.fi.positional_params()
        if len(ps) != 1:
            raise AnalysisError("monkeytype.trace no longer takes exactly one parameter")
        outs = self.ri.run({ps[0]: S("config") if config_given else K(None)})
        if len(outs) != 1:
            raise AnalysisError(f"monkeytype.trace: {len(outs)} outcomes for one scenario")
        o = outs[0]
        self.result: Optional[V] = o.freeze(o.term[1]) if o.term is not None and o.term[0] == "return" else None
        self.term = o.term

    def hook(self, call: ast.Call, fname: Optional[str], fval: Optional[V], args: List[V], kwargs: Dict[str, V], st: State) -> Optional[V]:
        if isinstance(call.func, ast.Attribute) and (fval == S("config") or (isinstance(fval, R) and fval.kind == "default_config")):
            self.cfg_calls.append(call.func.attr)
            if args or kwargs:
                return R("cfg", meth=K(call.func.attr), of=fval, args=K(tuple(st.freeze(a) for a in args)))
            return R("cfg", meth=K(call.func.attr), of=fval)
        callee = self.ri.resolve(call, fval)
        if callee is self.tc:
            self.calls.append({k: st.freeze(v) for k, v in bind_values(callee, args, kwargs, skip_self=callee.cls is not None).items()})
            return R("trace_calls_context", n=K(len(self.calls)))
        if callee is not None and callee.fq == "monkeytype.config.get_default_config":
            return R("default_config")
        return None


def trace_glue(repo: Repo) -> List[TraceGlue]:
    return [TraceGlue(repo, True), TraceGlue(repo, False)]


def check_forwarding(ctx: Any, repo: Repo, rule: str, param: str, meth: str, what: str) -> None:
    """trace() hands config.<meth>() to trace_calls' parameter <param>, for a given and for the default configuration"""
    for gl in trace_glue(repo):
        src: V = S("config") if gl.given else R("default_config")
        want = R("cfg", meth=K(meth), of=src)
        got = gl.calls[0].get(param) if gl.calls else None
        ok = len(gl.calls) == 1 and got == want and gl.result == R("trace_calls_context", n=K(1))
        ctx.check(ok, rule, gl.fi.fq, what,
                  construct=f"{'given' if gl.given else 'default'} configuration: {len(gl.calls)} trace_calls call(s), {param}={got}, returns {gl.result}")


class TraceCallsGlue:
    """trace_calls interpreted with symbolic parameters S('p:<name>'): the arguments of every CallTracer(...)
    construction, bound to the constructor's parameter names"""

    def __init__(self, repo: Repo) -> None:
        self.repo = repo
        self.fi = block_entry(repo)
        ci = repo.cls("monkeytype.tracing", "CallTracer")
        self.init = repo.method(ci, "__init__")
        self.ctor: List[Dict[str, V]] = []
        inline = {f.fq for f in repo.module("monkeytype.tracing").functions.values() if f.cls is None and f is not self.fi}
        if self.fi.cls is not None:
            # the tracing block is a class: one block is entered and left through a driver
            ps_ = [p for p in self.fi.params if p != "self"]
            node = ast.parse(f"def __driver__({', '.join(ps_)}):\n    with trace_calls({', '.join(ps_)}):\n        pass\n").body[0]
            from mtsa.index import FunctionInfo as _FI
            drv = _FI(self.fi.module, "<driver>", node)
            inline |= {f.fq for f in repo.module("monkeytype.tracing").functions.values() if f.cls is self.fi.cls}
            self.ri = RepoInterp(repo, drv, inline=inline, call_hook=self.hook, may_fork=(), heap=True)
            self.ri.construct_instances = True
            self.ri.dispatch_instances = True
            env = {p: S("p:" + p) for p in ps_}
        else:
            self.ri = RepoInterp(repo, self.fi, inline=inline, call_hook=self.hook, may_fork=(), heap=True)
            env = {p: S("p:" + p) for p in self.fi.params}
        outs = self.ri.run(env)
        if not outs:
            raise AnalysisError("trace_calls: no outcome")

    def hook(self, call: ast.Call, fname: Optional[str], fval: Optional[V], args: List[V], kwargs: Dict[str, V], st: State) -> Optional[V]:
        callee = self.ri.resolve(call, fval)
        if callee is self.init:
            b = {k: st.freeze(v) for k, v in bind_values(callee, args, kwargs, skip_self=True).items()}
            self.ctor.append(b)
            return R("tracer", n=K(len(self.ctor)))
        if (fname or "") in ("sys.setprofile", "sys.getprofile", "sys.settrace", "sys.gettrace", "threading.setprofile"):
            st.effects.append((fname, tuple(args)))
            return R("profiler", how=K(fname)) if "get" in (fname or "") else K(None)
        if isinstance(fval, S) and fval.name.startswith("p:") and isinstance(call.func, ast.Attribute):
            st.effects.append((fval.name + "." + call.func.attr, tuple(args)))
            return K(None)
        return None


def check_tracer_forwarding(ctx: Any, repo: Repo, rule: str, tc_param: str, ctor_param: str, what: str) -> None:
    gl = TraceCallsGlue(repo)
    got = [c.get(ctor_param) for c in gl.ctor]
    ctx.check(len(gl.ctor) == 1 and got[0] == S("p:" + tc_param), rule, gl.fi.fq, what,
              construct=f"{len(gl.ctor)} CallTracer construction(s), {ctor_param}={got}")


def default_logger(repo: Repo) -> Optional[Tuple[str, Tuple[V, ...]]]:
    """(class name, constructor arguments) of what Config.trace_logger returns, with self.<method>() calls kept as
    R('cfg', meth=...) records"""
    cfgc = repo.cls("monkeytype.config", "Config")
    tl = repo.method(cfgc, "trace_logger")
    made: List[Tuple[str, Tuple[V, ...]]] = []

    def hook(call: ast.Call, fname: Optional[str], fval: Optional[V], args: List[V], kwargs: Dict[str, V], st: State) -> Optional[V]:
        if isinstance(call.func, ast.Attribute) and fval == S("self"):
            return R("cfg", meth=K(call.func.attr), of=S("self"))
        callee = repo.resolve_callee(ri.cur_fi, call)
        if callee is not None and callee.cls is not None and callee.qualname.endswith("__init__"):
            made.append((callee.cls.name, tuple(st.freeze(a) for a in list(args) + [v for _, v in sorted(kwargs.items())])))
            return R("made", n=K(len(made)))
        return None

    ri = RepoInterp(repo, tl, call_hook=hook, may_fork=(), heap=True)
    outs = ri.run({"self": S("self")})
    if len(outs) != 1 or outs[0].term is None or outs[0].term[0] != "return":
        return None
    r = outs[0].term[1]
    if isinstance(r, R) and r.kind == "made":
        return made[r.fields["n"].v - 1]
    return None
