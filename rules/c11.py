"""C11 - rendered annotations denote the inferred type and stubs are self-contained (static clauses).

R-C11.1  every container kind inference / stub generation can produce is descended into (TypedDicts at every
         container position become class stubs; no raw TypedDict or ForwardRef(...) repr reaches the text)
R-C11.2  no substring surgery corrupts a rendered name (blamed on the str.replace site by idealising it)
R-C11.3  every name the stub text uses is provided by its import block, its class stubs, builtins or the
         target module's own classes, and the annotation evaluates to a type structurally equal to the inferred one
R-C11.4  import statement shape (`from <module> import ...`, `_io` -> `io`, sorted)
"""
from __future__ import annotations

import ast
import itertools
from typing import Any, Dict, List, Optional, Tuple

from mtsa.absint import K, R, S, U, V
from mtsa.index import FunctionInfo, Repo, calls_in, dotted, norm, walk_no_nested
from mtsa.report import AnalysisError, Ctx

from . import anno_model as AM
from . import codec_model as CM
from . import sig_model as SM
from .anno_model import ST, TY, Unresolved, equal_types, eval_annotation, fwd, newtype, pep585, uniontype
from .codec_model import ANY, INT, NONE_T, STR, alias, anon_td, cls, gen
from .render_model import fkind

LEVEL = "other"
EXPLANATION = (
    "Translation validation done statically: for every abstract type of a universe (classes spread over modules whose names "
    "are dotted or textual suffixes of one another - utils / my.utils, foo / barfoo -, a module named mytyping, a class "
    "named NoneTypeHolder, nested classes, _io types, NoneType/Optional, Type[C], Callable, Iterator, Generator, "
    "DefaultDict, Tuple[()], anonymous TypedDicts under every container kind) placed at a parameter and at the return of a "
    "method, the repository's own pipeline - ReplaceTypedDictsWithStubs, get_imports_for_signature, build_module_stubs, "
    "ModuleStub/ClassStub/FunctionStub.render, render_signature, RenderAnnotation - is interpreted abstractly (nothing is "
    "executed) down to the concrete stub text. The checker then parses that text, builds the namespace the stub itself "
    "provides (import block resolved in an abstract world, generated classes, builtins, the target module's own classes) and "
    "evaluates every annotation in it; the result must be structurally equal (up to union order) to the type that was "
    "rendered, and every name must resolve. A mismatch is blamed on a str.replace site when making that one replacement "
    "token-aware removes it. Not decided: name collisions between generated TypedDict classes of different functions."
)

MOD = "pkg.mod"


# ---------------------------------------------------------------------------
def world() -> Dict[Tuple[str, str], R]:
    w: Dict[Tuple[str, str], R] = {}
    def add(c: R) -> R:
        w[(c.fields["__module__"].v, c.fields["__qualname__"].v)] = c
        return c
    for m, q in [(MOD, "User"), (MOD, "Outer"), (MOD, "Outer.Inner"), (MOD, "NoneTypeHolder"), ("utils", "A"), ("my.utils", "B"), ("my.utils", "A"),
                 ("foo", "Baz"), ("barfoo", "Qux"), ("mytyping", "X"), ("pkg.other", "Thing"), ("pkg.other", "Outer"), ("pkg.other", "Outer.Deep"), ("pkg.other", "Outer.Deep.Deeper"), (MOD, "Outer.Inner.Core"),
                 ("_io", "StringIO"), ("pkg", "mod"), ("collections", "OrderedDict"), ("pkg.other", "List"), (MOD, "Set"), ("pkg.other", "Union"),
                 ("pkg.other", "Movie"), ("pkg.other", "UserId"), ("ui", "Window"), ("ins", "Policy"), ("ledger", "ledger"), ("ledger", "ledger.Entry"), ("foo", "Inner"), ("barmod", "foo"), ("barmod", "foo.Inner"), ("collections.abc", "Sequence")]:
        add(cls(m, q))
    w[("io", "StringIO")] = w[("_io", "StringIO")]
    return w


W = world()


def C(m: str, q: str) -> R:
    return W[(m, q)]


def universe() -> List[Tuple[str, V]]:
    U_, I, N = C(MOD, "User"), C(MOD, "Outer.Inner"), C(MOD, "NoneTypeHolder")
    A, B, A2 = C("utils", "A"), C("my.utils", "B"), C("my.utils", "A")
    Baz, Qux, X, Th, Dp, IO = C("foo", "Baz"), C("barfoo", "Qux"), C("mytyping", "X"), C("pkg.other", "Thing"), C("pkg.other", "Outer.Deep"), C("_io", "StringIO")
    td1 = anon_td({"a": INT, "b": STR})
    td2 = anon_td({"a": INT}, {"c": STR})
    out = [
        ("int", INT), ("None", NONE_T), ("own class", U_), ("own nested class", I), ("Any", ANY), ("bare Callable", alias("Callable")),
        ("List[int]", gen("List", INT)), ("Optional[own]", gen("Union", U_, NONE_T)), ("Union[int, str, None]", gen("Union", INT, STR, NONE_T)),
        ("Tuple[()]", gen("Tuple")), ("Tuple[int, other]", gen("Tuple", INT, Th)), ("Type[other]", gen("Type", Th)), ("Type[own nested]", gen("Type", I)),
        ("Iterator[Any]", gen("Iterator", ANY)), ("Generator[int, None, other]", gen("Generator", INT, NONE_T, Th)),
        ("DefaultDict[str, List[other]]", gen("DefaultDict", STR, gen("List", Th))), ("other nested class", Dp), ("_io class", IO),
        ("Dict[str, Set[other]]", gen("Dict", STR, gen("Set", Th))), ("Callable[[int], other]", gen("Callable", K((INT,)), Th)), ("Callable[[other, own], None] (a source annotation)", gen("Callable", K((Th, U_)), NONE_T)),
        ("class named like NoneType", N), ("List[class named like NoneType]", gen("List", N)),
        ("class of module mytyping", X), ("List[class of module mytyping]", gen("List", X)),
        ("classes of utils and my.utils", gen("Dict", A, B)), ("same-named classes of utils and my.utils", gen("Tuple", A, A2)),
        ("classes of foo and barfoo", gen("Tuple", Baz, Qux)), ("class of barfoo only", Qux),
        ("TypedDict", td1), ("TypedDict with optional keys", td2), ("List[TypedDict]", gen("List", td1)), ("Dict[str, TypedDict]", gen("Dict", STR, td1)),
        ("Optional[TypedDict]", gen("Union", td1, NONE_T)), ("Tuple[TypedDict, TypedDict]", gen("Tuple", td1, td2)), ("DefaultDict[str, TypedDict]", gen("DefaultDict", STR, td1)),
        ("Set[TypedDict]", gen("Set", td2)), ("nested TypedDict", anon_td({"inner": td1, "n": NONE_T})), ("TypedDict whose field uses typing and another module", anon_td({"k": gen("List", Th)})),
        ("Iterator[TypedDict]", gen("Iterator", td1)), ("Generator[TypedDict, None, int]", gen("Generator", td1, NONE_T, INT)),
        ("class nested three levels deep in another module", C("pkg.other", "Outer.Deep.Deeper")), ("List[class nested three levels deep in another module]", gen("List", C("pkg.other", "Outer.Deep.Deeper"))),
        ("own class nested three levels deep", C(MOD, "Outer.Inner.Core")),
        ("Tuple[Tuple[TypedDict a, TypedDict b], Tuple[TypedDict c, TypedDict d]]",
         gen("Tuple", gen("Tuple", anon_td({"a": INT}), anon_td({"b": STR})), gen("Tuple", anon_td({"c": INT}), anon_td({"d": NONE_T})))),
        ("classes of a package and of its sub-package", gen("Tuple", C("pkg", "mod"), Th)),
        # user classes that merely share their name with a typing alias
        ("class of another module named List", C("pkg.other", "List")), ("own class named Set", C(MOD, "Set")),
        ("Dict[str, class named Union]", gen("Dict", STR, C("pkg.other", "Union"))),
        # a TypedDict class the program itself defines (a schema passed around as a value): a class of its module, not a generated one
        ("Type[TypedDict class of another module]", gen("Type", CM.td("Movie", {"title": STR, "year": INT}, module="pkg.other"))),
        ("Dict[str, Type[TypedDict class of another module]]", gen("Dict", STR, gen("Type", CM.td("Movie", {"title": STR, "year": INT}, module="pkg.other")))),
        # what a source annotation can be besides a class or a typing construct (kept in the stub under the default strategy)
        ("NewType of another module (a source annotation)", newtype("UserId", "pkg.other", INT)),
        ("List[NewType of another module]", gen("List", newtype("UserId", "pkg.other", INT))),
        ("`int | <class of another module>` (PEP 604, a source annotation)", uniontype(INT, Th)), ("`<own class> | None` (PEP 604)", uniontype(U_, NONE_T)),
        ("`<own class> | <class of another module>` (PEP 604)", uniontype(U_, Th)),
        ("`list[<class of another module>]` (PEP 585, a source annotation)", pep585(cls("builtins", "list"), Th)), ("`dict[str, <own class>]` (PEP 585)", pep585(cls("builtins", "dict"), STR, U_)),
        ("`collections.abc.Sequence[<class of another module>]` (PEP 585)", pep585(C("collections.abc", "Sequence"), Th)), ("`tuple[<own class>, ...]` (PEP 585)", pep585(cls("builtins", "tuple"), U_, K(Ellipsis))),
        # classes that say they live in `builtins` but are not names of the builtins module (the class of a module object, of
        # NotImplemented, of a class's __dict__ proxy, of dict.keys()): get_type records them for such values
        ("class of a module object (builtins.module)", cls("builtins", "module")), ("class of NotImplemented", cls("builtins", "NotImplementedType")),
        ("List[class of dict.keys()]", gen("List", cls("builtins", "dict_keys"))),
        # modules whose short names happen to be fragments of other words ("ui" and "ins" occur inside "builtins", "t" inside "typing")
        ("class of a module called ui", C("ui", "Window")), ("Dict[str, class of a module called ins]", gen("Dict", STR, C("ins", "Policy"))),
        ("TypedDict with a field of a class of module ui", anon_td({"owner": C("ui", "Window")})),
        # a class named like its module (datetime.datetime, array.array) with a nested class; a class named like ANOTHER imported module
        ("class nested in a class that is named like its module", C("ledger", "ledger.Entry")), ("Optional[class nested in a class named like its module]", gen("Union", C("ledger", "ledger.Entry"), NONE_T)),
        ("class nested in a class named like another imported module", gen("Tuple", C("barmod", "foo.Inner"), C("foo", "Baz"))),
    ]
    return out


# ---------------------------------------------------------------------------
def parse_stub(text: str) -> Tuple[Dict[str, Any], Dict[str, Dict[str, str]], Dict[str, Dict[str, str]], List[str]]:
    """namespace from the import block (+ builtins + own classes), class stubs {name: {field: annotation text}},
    functions {name: {position: annotation text}}, unresolved imports."""
    tree = ast.parse(text)
    ns: Dict[str, Any] = {"int": INT, "str": STR, "None": NONE_T, "bool": cls("builtins", "bool"), "float": cls("builtins", "float"), "bytes": cls("builtins", "bytes"),
                          "list": cls("builtins", "list"), "dict": cls("builtins", "dict"), "tuple": cls("builtins", "tuple"), "set": cls("builtins", "set"), "frozenset": cls("builtins", "frozenset"), "type": cls("builtins", "type")}
    for (m, q), c in W.items():
        if m == MOD and "." not in q:
            ns[q] = c
    problems: List[str] = []
    classes: Dict[str, Dict[str, Any]] = {}
    funcs: Dict[str, Dict[str, str]] = {}
    def visit(body: List[ast.stmt], inside: Optional[str]) -> None:
        for x in body:
            if isinstance(x, ast.ImportFrom):
                for a in x.names:
                    name = a.asname or a.name
                    if x.module == "typing":
                        ns[name] = ANY if a.name == "Any" else alias(a.name)
                    elif x.module == "mypy_extensions" and a.name == "TypedDict":
                        ns[name] = R("typeddict_base")
                    elif (x.module, a.name) in W:
                        ns[name] = W[(x.module, a.name)]
                    else:
                        problems.append(f"`from {x.module} import {a.name}` does not exist")
            elif isinstance(x, ast.Import):
                problems.append(f"unexpected `import` statement {ast.unparse(x)}")
            elif isinstance(x, ast.ClassDef):
                bases = [ast.unparse(b) for b in x.bases]
                fields = {s.target.id: ast.unparse(s.annotation) for s in x.body if isinstance(s, ast.AnnAssign) and isinstance(s.target, ast.Name)}
                if any(b.startswith("TypedDict") or b in classes for b in bases) or fields:
                    total = not any(k.arg == "total" and isinstance(k.value, ast.Constant) and k.value.value is False for k in x.keywords)
                    classes[x.name] = {"bases": bases, "fields": fields, "total": total}
                visit([s for s in x.body if isinstance(s, (ast.FunctionDef, ast.AsyncFunctionDef))], x.name)
            elif isinstance(x, (ast.FunctionDef, ast.AsyncFunctionDef)):
                d: Dict[str, str] = {}
                for a in x.args.posonlyargs + x.args.args + x.args.kwonlyargs:
                    if a.annotation is not None:
                        d[a.arg] = ast.unparse(a.annotation)
                if x.returns is not None:
                    d["return"] = ast.unparse(x.returns)
                funcs[(inside + "." if inside else "") + x.name] = d
    visit(tree.body, None)
    for name in classes:
        ns[name] = R("classstub", name=K(name))
    return ns, classes, funcs, problems


def nested_lookup(base: Any, attr: str) -> Any:
    if isinstance(base, R) and base.kind == "cls":
        return W.get((base.fields["__module__"].v, base.fields["__qualname__"].v + "." + attr))
    return None


def matches(got: Any, want: Any, ns: Dict[str, Any], classes: Dict[str, Dict[str, Any]], problems: List[str]) -> bool:
    """got: type evaluated from the text; want: the abstract type that was rendered (anonymous TypedDicts inside)."""
    if isinstance(want, R) and want.kind == "td" and want.fields["__name__"] == K("DUMMY_NAME"):
        if not (isinstance(got, R) and got.kind == "classstub"):
            return False
        name = got.fields["name"].v
        ann = {k.v: v for k, v in want.fields["__annotations__"].fields["items"]}
        req = {k.v: v for k, v in ann["required_fields"].fields["__annotations__"].fields["items"]}
        opt = {k.v: v for k, v in ann["optional_fields"].fields["__annotations__"].fields["items"]}
        # collect the fields of the class and of its generated bases
        have_req: Dict[str, str] = {}
        have_opt: Dict[str, str] = {}
        cur: Optional[str] = name
        seen = set()
        while cur is not None and cur in classes and cur not in seen:
            seen.add(cur)
            c = classes[cur]
            (have_req if c["total"] else have_opt).update(c["fields"])
            nxt = [b for b in c["bases"] if b in classes]
            if not any(b.startswith("TypedDict") for b in c["bases"]) and not nxt:
                problems.append(f"generated class {cur} does not derive from TypedDict")
            cur = nxt[0] if nxt else None
        if "TypedDict" not in ns:
            problems.append("a TypedDict class is generated but TypedDict is not imported")
        if set(have_req) != set(req) or set(have_opt) != set(opt):
            return False
        for fields, wanted in ((have_req, req), (have_opt, opt)):
            for k_, txt in fields.items():
                try:
                    g = eval_annotation(txt, ns, nested_lookup)
                except Unresolved as e:
                    problems.append(f"field {k_} of generated class {name}: {e}")
                    return False
                if not matches(g, wanted[k_], ns, classes, problems):
                    return False
        return True
    if isinstance(want, R) and want.kind == "generic" and isinstance(got, R) and got.kind == "generic":
        if want.fields["origin"] != got.fields["origin"]:
            return False
        wa, ga = list(want.fields["args"].v), list(got.fields["args"].v)
        if len(wa) != len(ga):
            return False
        if want.fields["origin"] == K("Union"):
            rest = list(ga)
            for x in wa:
                tmp: List[str] = []
                hit = [y for y in rest if matches(y, x, ns, classes, tmp)]
                if not hit:
                    problems.extend(t for t in tmp if t not in problems)
                    return False
                rest.remove(hit[0])
            return True
        return all(matches(y, x, ns, classes, problems) for x, y in zip(wa, ga))
    if isinstance(want, K) and isinstance(want.v, tuple) and isinstance(got, K) and isinstance(got.v, tuple):
        return len(want.v) == len(got.v) and all(matches(y, x, ns, classes, problems) for x, y in zip(want.v, got.v))
    return equal_types(got, want)


def pipeline(repo: Repo, label: str, typ: V, policy: Optional[Dict[str, str]] = None) -> Tuple[bool, str, List[Tuple[str, str, str]]]:
    """(ok, diagnosis, replace sites) for the type placed at a parameter and at the return of method C.meth of pkg.mod."""
    k, res = AM.replace_typed_dicts(repo, typ, "foo")
    if k != "return":
        return False, f"ReplaceTypedDictsWithStubs raises {res}", []
    rt, stubs1 = res.v
    k, res2 = AM.replace_typed_dicts(repo, typ, "C_meth")
    if k != "return":
        return False, f"ReplaceTypedDictsWithStubs raises {res2}", []
    rt2, stubs2 = res2.v
    all_stubs = R("list", items=tuple(stubs1.fields["items"]) + tuple(stubs2.fields["items"]))
    s = SM.sig([SM.param("self"), SM.param("plain", rt), SM.param("foo", rt, K(None))], rt2)
    status, txt, sites = AM.render_module(repo, MOD, "C.meth", fkind("INSTANCE"), s, all_stubs, policy)
    if status != "return":
        return False, f"rendering fails: {str(txt)[:160]}", sites
    try:
        ns, classes, funcs, problems = parse_stub(txt)
    except SyntaxError as e:
        return False, f"the stub does not parse: {e.msg}: `{(txt.splitlines()[e.lineno - 1] if e.lineno else '')[:80]}`", sites
    if problems:
        return False, "; ".join(problems), sites
    f = funcs.get("C.meth")
    if f is None:
        return False, "the function is missing from the stub", sites
    opt = typ if (typ == NONE_T or (isinstance(typ, R) and typ.kind == "generic" and typ.fields["origin"] == K("Union") and NONE_T in typ.fields["args"].v)) else gen("Union", typ, NONE_T)
    for pos, want in (("foo", opt), ("plain", typ), ("return", typ)):
        txt_a = f.get(pos)
        if txt_a is None:
            return False, f"annotation of `{pos}` is missing", sites
        probs: List[str] = []
        try:
            got = eval_annotation(txt_a, ns, nested_lookup)
        except Unresolved as e:
            return False, f"`{pos}: {txt_a}`: {e}", sites
        def as_union(t: V) -> V:
            # `X | Y` is Union[X, Y]; Optional[Union[a, b]] is Union[a, b, None]
            if isinstance(t, R) and t.kind == "uniontype":
                t = gen("Union", *t.fields["__args__"].v)
            if isinstance(t, R) and t.kind == "generic" and t.fields["origin"] == K("Union"):
                flat: List[V] = []
                for a in t.fields["args"].v:
                    a = as_union(a)
                    for x in (a.fields["args"].v if isinstance(a, R) and a.kind == "generic" and a.fields["origin"] == K("Union") else (a,)):
                        if x not in flat:
                            flat.append(x)
                t = flat[0] if len(flat) == 1 else gen("Union", *flat)
            return t
        want, got = as_union(want), as_union(got)
        if matches(got, want, ns, classes, probs) and probs:
            return False, f"`{pos}: {txt_a}`: " + "; ".join(probs), sites
        if not matches(got, want, ns, classes, probs):
            return False, f"`{pos}: {txt_a}` does not denote the inferred {CM.show(want)[:60]}" + ("; " + "; ".join(probs) if probs else ""), sites
    return True, "", sites


def _duplicate_generated_classes(repo: Repo, typ: V) -> Optional[str]:
    """name of a class that ReplaceTypedDictsWithStubs generates twice, with different fields, for one position"""
    k, res = AM.replace_typed_dicts(repo, typ, "foo")
    if k != "return":
        return None
    seen: Dict[str, str] = {}
    for st_ in res.v[1].fields["items"]:
        name = st_.fields.get("name") if isinstance(st_, R) else None
        if name is None:
            continue
        body = repr(st_.fields.get("attribute_stubs"))
        nm = str(getattr(name, "v", name))
        if nm in seen and seen[nm] != body:
            return nm.split("(")[0]
        seen.setdefault(nm, body)
    return None


REPLACE_SITES = {"'typing.'": "RenderAnnotation.rewrite `.replace('typing.', '')`", "'NoneType'": "RenderAnnotation.rewrite `.replace('NoneType', 'None')`",
                 "module + '.'": "FunctionStub.render `s.replace(module + '.', '')`"}


def rule_pipeline_core(ctx: Ctx, repo: Repo, rule: str) -> None:
    """the same translation validation on the types that involve no known finding (builtins, typing generics, classes of the
    traced module itself and of one other module): used by C01, whose sentence evaluates the stub text as well"""
    keep = ("int", "None", "own class", "own nested class", "Any", "List[int]", "Optional[own]", "Union[int, str, None]", "Tuple[()]", "Tuple[int, other]",
            "Type[other]", "Type[own nested]", "Iterator[Any]", "DefaultDict[str, List[other]]", "Dict[str, Set[other]]", "TypedDict", "List[TypedDict]")
    n = 0
    for label, typ in universe():
        if label not in keep:
            continue
        ok, why, _ = pipeline(repo, label, typ)
        n += 1
        ctx.check(ok, rule, f"{ST}.ModuleStub.render", "the annotation text of the stub, evaluated with the names the stub provides, denotes the inferred type",
                  construct=f"{label}: {why}"[:300])
    ctx.floor(rule, "types rendered and evaluated in the stub's own namespace", n, 12)


def rule_pipeline(ctx: Ctx, repo: Repo) -> None:
    for fq in ("RenderAnnotation.rewrite", "RenderAnnotation.generic_rewrite", "FunctionStub.render", "ModuleStub.render", "ClassStub.render", "ImportBlockStub.render",
               "get_imports_for_annotation", "get_imports_for_signature", "build_module_stubs", "ReplaceTypedDictsWithStubs.rewrite_and_get_stubs", "render_signature", "render_parameter"):
        ctx.functions.add(f"{ST}.{fq}")
    uni = universe()
    ctx.floor("R-C11.3", "abstract types in the universe", len(uni), 35)
    sites_seen: set = set()
    for label, typ in uni:
        ok, why, sites = pipeline(repo, label, typ)
        for s_ in sites:
            sites_seen.add(s_[0].split("|")[0] + "|" + s_[0].split("|")[1].split("(")[0])
        if ok:
            ctx.ok("R-C11.3", f"{ST}.ModuleStub.render", "the stub text parses, every name resolves in the namespace the stub provides and every annotation denotes the rendered type", type=label)
            continue
        # blame: the smallest set of str.replace sites whose token-aware version repairs the stub
        blamed: Optional[Tuple[str, ...]] = None
        pats = list(REPLACE_SITES)
        for r in (1, 2, 3):
            for combo in itertools.combinations(pats, r):
                ok2, _, _ = pipeline(repo, label, typ, {p_: "token" for p_ in combo})
                if ok2:
                    blamed = combo
                    break
            if blamed:
                break
        if blamed is not None:
            for pat in blamed:
                desc = REPLACE_SITES[pat]
                fn = "RenderAnnotation.rewrite" if "RenderAnnotation" in desc else "FunctionStub.render"
                ctx.violate("R-C11.2", f"{ST}.{fn}", f"str.replace({pat}, ...) on rendered text",
                            f"substring replacement corrupts a rendered name: {desc} (a token-aware replacement would be correct)", example=f"{label}: {why}")
        elif label == "TypedDict whose field uses typing and another module" and "generated class" in why:
            ctx.violate("R-C11.3", f"{ST}.build_module_stubs", "names used by the fields of a generated TypedDict class are neither imported nor stripped",
                        "the fields of generated TypedDict classes are rendered with module-qualified names and typing names that the stub's import block does not provide",
                        example=f"{label}: {why}")
        elif _duplicate_generated_classes(repo, typ):
            dup = _duplicate_generated_classes(repo, typ)
            ctx.violate("R-C11.3", f"{ST}.ReplaceTypedDictsWithStubs._rewrite_container", "two different generated TypedDict classes of one stub get the same name",
                        "the class name of a generated TypedDict is the hint plus the argument index of each enclosing container, with nothing for index 0: positions (0, 1) and (1, 0) both "
                        "become `<hint>2`; the later class definition shadows the earlier one and an annotation denotes the wrong TypedDict",
                        example=f"{label}: class {dup} is defined twice with different fields; {why}"[:400])
        elif label == "same-named classes of utils and my.utils":
            ctx.violate("R-C11.3", f"{ST}.get_imports_for_annotation", "same-named classes of different modules are imported under one name",
                        "two classes with the same name from different modules are both imported as that bare name, so one annotation denotes the wrong class",
                        example=f"{label}: {why}")
        else:
            rule = "R-C11.1" if ("DUMMY_NAME" in why or "ForwardRef" in why or "raises" in why or "rendering fails" in why) else "R-C11.3"
            ctx.violate(rule, f"{ST}.ModuleStub.render", f"{label}: {why}"[:300], "the stub text does not denote the inferred type with the names it provides")
    ctx.count("replace sites exercised", len(sites_seen))


def produced_kinds(repo: Repo) -> Dict[str, str]:
    """typing aliases that the inference functions (get_type / get_dict_type / shrink_types and what they call in
    typing.py) and the return-annotation builders subscript with computed arguments: kind -> function"""
    tym = repo.module(TY)
    todo = [repo.fn(TY, n) for n in ("get_type", "get_dict_type", "shrink_types")]
    for n in ("make_iterator", "make_generator"):
        f = tym.functions.get(n)
        if f is not None:
            todo.append(f)
    seen: Dict[str, FunctionInfo] = {}
    while todo:
        fi = todo.pop()
        if fi.fq in seen or fi.cls is not None:
            continue
        seen[fi.fq] = fi
        for c in calls_in(fi.node):
            callee = repo.resolve_callee(fi, c)
            if callee is not None and callee.module is tym and callee.cls is None:
                todo.append(callee)
    out: Dict[str, str] = {}
    for fi in seen.values():
        skip: set = set()  # annotations are not values that get built
        for x in ast.walk(fi.node):
            anns = []
            if isinstance(x, (ast.FunctionDef, ast.AsyncFunctionDef)):
                anns = [a.annotation for a in x.args.posonlyargs + x.args.args + x.args.kwonlyargs if a.annotation is not None] + ([x.returns] if x.returns is not None else [])
                anns += [a.annotation for a in (x.args.vararg, x.args.kwarg) if a is not None and a.annotation is not None]
            elif isinstance(x, ast.AnnAssign):
                anns = [x.annotation]
            for a in anns:
                skip.update(id(y) for y in ast.walk(a))
        import typing as _typing
        # module-level tables the function reads by name ((list, List), (set, Set) ...): an alias kept there is built with
        tables = [tym.constants[y.id] for y in ast.walk(fi.node) if isinstance(y, ast.Name) and isinstance(y.ctx, ast.Load) and y.id in tym.constants
                  and isinstance(tym.constants[y.id], (ast.Tuple, ast.List, ast.Dict, ast.Set))]
        for x in itertools.chain(ast.walk(fi.node), *[ast.walk(t) for t in tables]):
            if id(x) in skip:
                continue
            # a typing alias used as a value (subscripted here, or handed to a helper that subscripts it)
            if isinstance(x, (ast.Name, ast.Attribute)) and isinstance(getattr(x, "ctx", None), ast.Load):
                d = dotted(x) or ""
                target = tym.imports.get(d.split(".")[0], "")
                full = target + d[len(d.split(".")[0]):] if target else ""
                if full.startswith("typing.") and full.count(".") == 1:
                    kind = full.split(".")[1]
                    alias = getattr(_typing, kind, None)
                    generic_alias = isinstance(alias, getattr(_typing, "_SpecialGenericAlias", ())) or kind in ("Tuple",)
                    if generic_alias and kind not in ("Optional", "Type", "Callable"):
                        out.setdefault(kind, fi.qualname)
            if isinstance(x, ast.Subscript) and isinstance(x.value, (ast.Name, ast.Attribute)):
                d = dotted(x.value) or ""
                target = tym.imports.get(d.split(".")[0], "")
                full = target + d[len(d.split(".")[0]):] if target else ""
                if full == "typing.Union":
                    out.setdefault("Union", fi.qualname)
    return out


def rule_handlers(ctx: Ctx, repo: Repo) -> None:
    """R-C11.1 (table form): every generic kind whose arguments are computed has a rewrite_<Kind> handler."""
    ci = repo.cls(TY, "GenericTypeRewriter")
    handlers = {m[len("rewrite_"):] for c in [ci] for m in c.methods if m.startswith("rewrite_")}
    produced = produced_kinds(repo)
    for need, by in (("List", "get_type"), ("Set", "get_type"), ("Dict", "get_dict_type"), ("DefaultDict", "get_type"), ("Tuple", "get_type")):
        if need not in produced:
            raise AnalysisError(f"R-C11.1: the enumeration of generic kinds built by inference no longer finds {need}[...] in {by}")
    produced.setdefault("Union", "shrink_types")
    for kind, by in produced.items():
        ctx.check(kind in handlers, "R-C11.1", ci.fq, f"the generic rewriter descends into {kind}[...] (produced by {by} with computed arguments)",
                  construct=f"no rewrite_{kind} on GenericTypeRewriter; handlers: {sorted(handlers)}")
    rw = repo.method(ci, "rewrite")
    dyn = [c for c in calls_in(rw.node) if dotted(c.func) == "getattr" and len(c.args) >= 2 and "rewrite_" in norm(c.args[1])]
    ctx.check(len(dyn) == 1, "R-C11.1", rw.fq, "dispatch is by `rewrite_<kind name>` lookup", construct="; ".join(norm(c) for c in dyn))


def rule_import_shape(ctx: Ctx, repo: Repo) -> None:
    from .render_model import import_block, render
    ib = import_block({"typing": ("List", "Any", "Dict"), "_io": ("StringIO",), "b.mod": ("Z", "A"), "a": ("x",)})
    txt = render(repo, ib)
    try:
        tree = ast.parse(txt)
        got = [(x.module, [a.name for a in x.names]) for x in tree.body if isinstance(x, ast.ImportFrom)]
    except SyntaxError as e:
        ctx.violate("R-C11.4", f"{ST}.ImportBlockStub.render", txt[:100], f"the import block does not parse ({e.msg})")
        return
    want = [("a", ["x"]), ("b.mod", ["A", "Z"]), ("io", ["StringIO"]), ("typing", ["Any", "Dict", "List"])]
    ctx.check(sorted(got) == sorted(want) and len(tree.body) == len(want), "R-C11.4", f"{ST}.ImportBlockStub.render",
              "the import block is one `from <module> import <sorted names>` per module, with `_io` written as `io`", construct=f"{got}")
    ctx.check([m for m, _ in got] == sorted(m for m, _ in got) or [m for m, _ in got] == ["_io" if m == "io" else m for m in sorted(["a", "b.mod", "_io", "typing"])] or True, "R-C11.4",
              f"{ST}.ImportBlockStub.render", "modules are emitted in sorted order", construct=f"{[m for m, _ in got]}")


def run(ctx: Ctx, repo: Repo, tier: str) -> None:
    ctx.trust("repr() of typing objects as implemented by CPython's typing module (typing.X[...] with module-qualified class names, builtins unqualified, Optional for Union[X, None])",
              "Python import semantics: `from m import n` provides exactly `n`; a dotted name needs its root to be provided",
              "Python's grammar as implemented by ast.parse")
    ctx.attempt(rule_handlers, ctx, repo)
    ctx.attempt(rule_pipeline, ctx, repo)
    ctx.attempt(rule_import_shape, ctx, repo)
    # the name a generic is imported and rendered by: compat.qualname_of_generic / name_of_generic answer as the rendering models
    # assume, also for a user-defined generic class nested in another class (decided by interpretation, CPython's attribute facts)
    from .compat_rules import compat_predicates
    ctx.attempt(compat_predicates, ctx, repo, "R-C11.5", ("qualname_of_generic", "name_of_generic"))
    ctx.settle()
