#!/bin/bash
# run the 18 quick checks in parallel without touching evidence/; prints one rc per property
cd /verif
out=$(mktemp -d)
for i in 01 02 03 04 05 06 07 08 09 10 11 12 13 14 15 16 17 18; do
  ( MTSA_NO_EVIDENCE=1 ./check C$i > $out/C$i.log 2>&1; echo "C$i=$?" > $out/C$i.rc ) &
done
wait
cat $out/*.rc | tr '\n' ' '; echo
grep -h "^VIOLATION\|ANALYSIS-ERROR" $out/*.log | cut -c1-300
rm -rf $out
