"""Witness (run by hand): a code filter that raises is raised INTO the traced program (and the profiler is uninstalled by
CPython): the traced program fails where the untraced one succeeds.  Shown with a custom filter and with the shipped
default filter on a code object with a relative file name after the current directory was removed.
    cd /verif/witness && PYTHONPATH=/repo /venv/bin/python c03_filter_failure.py      (exit 1 while the defect is present)"""
import os, sys, tempfile
from monkeytype.tracing import trace_calls, CallTraceLogger


class L(CallTraceLogger):
    def log(self, trace): pass


def work(x):
    return x + 1


def flaky_filter(code):
    raise OSError("the filter could not decide")


bad = []
try:
    with trace_calls(L(), 0, code_filter=flaky_filter):
        r = work(1)
    print("custom filter: the program ran, result", r)
except OSError as e:
    bad.append(f"a failing custom filter reached the program: {e!r}")

from monkeytype.config import default_code_filter
code = compile("def g(v):\n    return v\n", "relative_dir/mod.py", "exec")
ns = {}
exec(code, ns)
d = tempfile.mkdtemp()
os.chdir(d)
os.rmdir(d)  # the current directory is gone: Path('relative_dir/mod.py').resolve() needs it
try:
    with trace_calls(L(), 0, code_filter=default_code_filter):
        r = ns["g"](2)
    print("default filter: the program ran, result", r)
except Exception as e:
    bad.append(f"the default filter failed inside the program: {e!r}")
print("\n".join("WITNESSED: " + b for b in bad) or "not present")
sys.exit(1 if bad else 0)
