"""Abstract model of the trace codec (monkeytype.encoding / monkeytype.util), used by C08 and C10.

Types and functions are abstract records carrying the attributes the codec reads
(__module__, __qualname__, __args__, __annotations__ ...).  A *world* says which
(module, qualname) pairs exist and what they are bound to; `importlib.import_module` and
`getattr` are answered from the world and raise ModuleNotFoundError / AttributeError for
anything that is missing - the stale-row kinds of C10.  json.dumps/json.loads are modelled as
a transparent pair (dumps records whether sort_keys was requested).
Nothing of the repository is executed.
"""
from __future__ import annotations

import ast
from typing import Any, Callable, Dict, List, Optional, Tuple

from mtsa.absint import K, R, Ref, S, U, V, State
from mtsa.index import FunctionInfo, Repo, dotted, norm
from mtsa.report import AnalysisError
from .common import RepoInterp

ENC = "monkeytype.encoding"
UTIL = "monkeytype.util"


# ---- abstract values ---------------------------------------------------------------
def cls(module: str, qualname: str) -> R:
    return R("cls", __module__=K(module), __qualname__=K(qualname), __name__=K(qualname.split(".")[-1]))


def alias(name: str) -> R:
    return R("alias", name=K(name), __module__=K("typing"))


ANY = R("any", __module__=K("typing"))
INT, STR, NONE_T = cls("builtins", "int"), cls("builtins", "str"), cls("builtins", "NoneType")
USER, NESTED, OTHER = cls("pkg.mod", "User"), cls("pkg.mod", "Outer.Inner"), cls("pkg.other", "Thing")
DEEP = cls("vendor.db.models.types", "Record")
# a class of the traced program that is NAMED like a builtin the builtins module does not export (a sentinel class `NoneType`,
# a read-only `mappingproxy` of one's own): importable from its module, and a different class from the hidden builtin
SHADOW = cls("pkg.other", "NoneType")
# a class object that is false as a truth value: its metaclass defines __len__ / __bool__ (a registry of plugins that is still
# empty, an enumeration-like class without members) - a class like any other for every purpose of the property
REGISTRY = R("cls", __module__=K("pkg.mod"), __qualname__=K("Registry"), __name__=K("Registry"), __falsy__=K(True))


def gen(origin: str, *args: V) -> R:
    return R("generic", origin=K(origin), args=K(tuple(args)), __module__=K("typing"))


def td(name: str, fields: Dict[str, V], total: bool = True, module: str = "monkeytype.typing") -> R:
    return R("td", __module__=K(module), __qualname__=K(name), __name__=K(name), __total__=K(total),
             __annotations__=R("dict", items=tuple((K(k), v) for k, v in fields.items())))


def anon_td(required: Dict[str, V], optional: Optional[Dict[str, V]] = None) -> R:
    return td("DUMMY_NAME", {"required_fields": td("REQUIRED_TYPED_DICT_NAME", required),
                             "optional_fields": td("OPTIONAL_TYPED_DICT_NAME", optional or {})})


def func(module: str, qualname: str) -> R:
    return R("func", __module__=K(module), __qualname__=K(qualname), __name__=K(qualname.split(".")[-1]))


def prop(fget: Optional[V], fset: Optional[V] = None, fdel: Optional[V] = None) -> R:
    return R("property", fget=fget if fget is not None else K(None), fset=fset if fset is not None else K(None),
             fdel=fdel if fdel is not None else K(None))


TYPING_NAMES = ["List", "Set", "Dict", "DefaultDict", "Tuple", "Type", "Callable", "Iterator", "Generator", "Union", "Optional",
                "Iterable", "Sequence", "Mapping", "FrozenSet", "Deque"]


class World:
    """(module name) -> nested namespace: qualname part -> value | dict."""

    def __init__(self) -> None:
        self.modules: Dict[str, Dict[str, Any]] = {}
        self.add("typing", "Any", ANY)
        for n in TYPING_NAMES:
            self.add("typing", n, alias(n))
        for n in ("int", "str", "float", "bool", "bytes", "list", "dict", "object", "type"):
            self.add("builtins", n, cls("builtins", n))
        self.add("pkg.mod", "User", USER)
        self.add("pkg.mod", "Outer", cls("pkg.mod", "Outer"))
        self.add("pkg.mod", "Outer.Inner", NESTED)
        self.add("pkg.other", "Thing", OTHER)
        self.add("pkg.other", "NoneType", SHADOW)
        self.add("pkg.mod", "Registry", REGISTRY)
        self.modules.setdefault("pkg", {})
        # a class four packages deep (what is missing when an ancestor package goes away is that ancestor, not the leaf)
        self.add("vendor.db.models.types", "Record", DEEP)
        for anc in ("vendor", "vendor.db", "vendor.db.models"):
            self.modules.setdefault(anc, {})

    def add(self, module: str, qualname: str, value: Any) -> None:
        self.modules.setdefault(module, {})[qualname] = value

    def remove(self, module: str, qualname: Optional[str] = None) -> None:
        if qualname is None:
            self.modules.pop(module, None)
            return
        ns = self.modules.get(module, {})
        for k in [k for k in ns if k == qualname or k.startswith(qualname + ".")]:
            del ns[k]

    def lookup_attr(self, obj: V, name: str) -> Optional[V]:
        """getattr(obj, name) for module records and class records; None = AttributeError."""
        if isinstance(obj, R) and obj.kind == "module":
            return self.modules.get(obj.fields["name"].v, {}).get(name)
        if isinstance(obj, R) and obj.kind == "cls":
            return self.modules.get(obj.fields["__module__"].v, {}).get(obj.fields["__qualname__"].v + "." + name)
        return None


# ---- CPython's repr of typing objects (catalogue) -----------------------------------------
def type_repr(t: Any) -> str:
    """typing._type_repr"""
    if isinstance(t, R):
        if t.kind == "cls":
            m, q = t.fields["__module__"].v, t.fields["__qualname__"].v
            return q if m == "builtins" else f"{m}.{q}"
        if t.kind == "td":
            return f"{t.fields['__module__'].v}.{t.fields['__qualname__'].v}"
        return py_repr(t)
    if isinstance(t, K) and t.v is Ellipsis:
        return "..."
    return py_repr(t)


def py_repr(t: Any) -> str:
    if isinstance(t, R):
        if t.kind == "cls":
            return f"<class '{t.fields['__module__'].v}.{t.fields['__qualname__'].v}'>" if t.fields["__module__"].v != "builtins" else f"<class '{t.fields['__qualname__'].v}'>"
        if t.kind == "any":
            return "typing.Any"
        if t.kind == "alias":
            return "typing." + t.fields["name"].v
        if t.kind == "forwardref":
            return f"ForwardRef({t.fields['__forward_arg__'].v!r})"
        if t.kind == "newtype":
            return f"{t.fields['__module__'].v}.{t.fields['__name__'].v}"
        if t.kind == "pep585":
            # Objects/genericaliasobject.c: the origin like typing._type_repr, the arguments likewise, `...` for Ellipsis
            return f"{type_repr(t.fields['origin'])}[{', '.join(type_repr(x) for x in t.fields['__args__'].v)}]"
        if t.kind == "uniontype":
            # Objects/unionobject.c: the members joined by " | ", None for NoneType, the rest like typing._type_repr
            return " | ".join("None" if x == NONE_T else type_repr(x) for x in t.fields["__args__"].v)
        if t.kind == "td":
            return f"<class '{t.fields['__module__'].v}.{t.fields['__qualname__'].v}'>"
        if t.kind == "generic":
            o, a = t.fields["origin"].v, t.fields["args"].v
            if o == "Union" and len(a) == 2 and NONE_T in a:
                other = [x for x in a if x != NONE_T][0]
                return f"typing.Optional[{type_repr(other)}]"
            if o == "Tuple" and a == ():
                return "typing.Tuple[()]"
            if o == "Callable" and len(a) == 2 and isinstance(a[0], K) and isinstance(a[0].v, tuple):
                return f"typing.Callable[[{', '.join(type_repr(x) for x in a[0].v)}], {type_repr(a[1])}]"
            return f"typing.{o}[{', '.join(type_repr(x) for x in a)}]"
    if isinstance(t, K):
        return repr(t.v)
    return "<?>"


def flat_args(t: R) -> V:
    """`__args__` of a typing generic: Callable[[A, B], R] keeps (A, B, R) - the parameter list is flattened"""
    a = t.fields["args"]
    if t.fields["origin"] == K("Callable") and isinstance(a, K) and len(a.v) == 2 and isinstance(a.v[0], K) and isinstance(a.v[0].v, tuple):
        return K(tuple(a.v[0].v) + (a.v[1],))
    return a


def typing_get_args(t: Any) -> V:
    """typing.get_args: `__args__` of a subscripted generic - with the parameters of a Callable put back into a list -, the members
    of an `X | Y`, and () for everything else (a bare alias such as typing.List or typing.Callable, a class, Any)"""
    if isinstance(t, R) and t.kind == "generic":
        a = t.fields["args"]
        if t.fields["origin"] == K("Callable") and isinstance(a, K) and len(a.v) == 2 and isinstance(a.v[0], K) and isinstance(a.v[0].v, tuple):
            return K((R("list", items=tuple(a.v[0].v)), a.v[1]))
        return a if isinstance(a, K) else K(())
    if isinstance(t, R) and t.kind == "uniontype":
        return t.fields["__args__"]
    return K(())


class CodecScenario:
    def __init__(self, repo: Repo, module: str, func_name: str, world: Optional[World] = None, inline_all: bool = True) -> None:
        self.repo = repo
        self.world = world or World()
        self.fi = repo.fn(module, func_name)
        inline = set()
        for m in (ENC, UTIL):
            for f in repo.module(m).functions.values():
                inline.add(f.fq)
        self.ri = RepoInterp(repo, self.fi, inline=inline, call_hook=self.call_hook, may_fork=(), heap=True, max_depth=40)
        self.ri.interp.exc_parents = exception_hierarchy(repo)
        self.ri.on_attr = self.on_attr  # type: ignore[method-assign]
        self.ri.interp.on_attr = self.on_attr
        self.ri.on_subscript = self.on_subscript  # type: ignore[method-assign]
        self.ri.interp.on_subscript = self.on_subscript
        base_name = self.ri.on_name
        def on_name(name: str, st: State) -> Optional[V]:
            if name == "NoneType":
                return NONE_T
            if name == "NotImplementedType":
                return cls("builtins", "NotImplementedType")
            if name == "mappingproxy":
                return cls("builtins", "mappingproxy")
            if name in TYPING_NAMES and self.ri.cur_fi.module.imports.get(name, "").startswith("typing."):
                return alias(name)
            mod = self.ri.cur_fi.module
            from .common import _is_mutable_ctor
            if name in mod.constants and _is_mutable_ctor(mod.constants[name]):
                return base_name(name, st)  # one shared object per run
            if name in mod.constants and isinstance(mod.constants[name], (ast.Dict, ast.Set, ast.Tuple, ast.List)):
                # table constants are evaluated in this world (so that NoneType etc. are the model's records)
                return self.ri.interp.eval(mod.constants[name], st)
            if name in mod.constants or name in mod.imports:
                from .common import follow_constant
                far = follow_constant(self.repo, mod, name)  # an alias of / an import of a table that lives in another module of the package
                if isinstance(far, (ast.Dict, ast.Set, ast.Tuple, ast.List)) and far is not mod.constants.get(name):
                    return self.ri.interp.eval(far, st)
            v = base_name(name, st)
            if v is not None:
                return v
            import builtins
            if hasattr(builtins, name):
                return S("builtin:" + name)
            return None
        self.ri.on_name = on_name  # type: ignore[method-assign]
        self.ri.interp.on_name = on_name

    # ---- hooks ---------------------------------------------------------------------
    def on_attr(self, obj: V, attr: str, node: ast.AST, st: State) -> Optional[V]:
        if isinstance(obj, R) and obj.kind == "generic":
            if attr == "__args__":
                return flat_args(obj)
            if attr in ("__qualname__", "__name__"):
                st.pending = st.pending or "AttributeError"
                return U("generic alias has no " + attr)
        if isinstance(obj, R) and obj.kind in ("alias", "any") and attr in ("__args__", "__qualname__"):
            st.pending = st.pending or "AttributeError"
            return U("no " + attr)
        if isinstance(obj, R) and obj.kind in ("cls", "func") and attr == "__args__":
            st.pending = st.pending or "AttributeError"
            return U("no __args__")
        if isinstance(obj, R) and obj.kind == "property" and attr in ("fget", "fset", "fdel"):
            return obj.fields[attr]
        if isinstance(obj, R) and obj.kind == "boundmethod" and attr == "__func__":
            return obj.fields["func"]
        if isinstance(obj, R) and obj.kind == "boundmethod" and attr in ("__qualname__", "__name__", "__module__", "__wrapped__") and isinstance(obj.fields.get("func"), R):
            return self.on_attr(obj.fields["func"], attr, node, st)  # a bound method forwards attribute reads to its function
        if isinstance(obj, R) and obj.kind == "module" and attr == "__name__":
            return obj.fields["name"]
        if isinstance(obj, R) and obj.kind in ("callable_obj", "value", "builtinfunc", "property", "module") and attr.startswith("__") and attr.endswith("__"):
            # an instance with __call__, a constant, a builtin function, a property object: the dunder attributes it has are
            # the ones the world gave it (a functools.partial or a callable instance has no __qualname__ / __name__)
            if attr in obj.fields:
                return obj.fields[attr]
            if attr == "__class__":
                return S("kind:" + obj.kind)
            if attr in ("__doc__",):
                return K(None)
            st.pending = st.pending or "AttributeError"
            return U(f"{obj.kind} object has no attribute {attr}")
        if isinstance(obj, S) and obj.name.startswith("kind:") and attr in ("__name__", "__qualname__"):
            return K(obj.name[5:])
        return RepoInterp.on_attr(self.ri, obj, attr, node, st)

    def on_subscript(self, obj: V, key: V, node: ast.AST, st: State) -> Optional[V]:
        if isinstance(obj, R) and obj.kind == "alias":
            args = key.v if isinstance(key, K) and isinstance(key.v, tuple) else (key,)
            return gen(obj.fields["name"].v, *args)
        if isinstance(obj, R) and obj.kind in ("cls", "any", "func", "td"):
            st.pending = st.pending or "TypeError"  # not subscriptable
            return U("not subscriptable")
        return RepoInterp.on_subscript(self.ri, obj, key, node, st)

    def call_hook(self, call: ast.Call, fname: Optional[str], fval: Optional[V], args: List[V], kwargs: Dict[str, V], st: State) -> Optional[V]:
        d = fname or ""
        meth = call.func.attr if isinstance(call.func, ast.Attribute) else None
        # ---- platform --------------------------------------------------------------
        if len(args) == 1 and not kwargs and (d == "typing.get_args" or (d == "get_args" and self.ri.cur_fi.module.imports.get("get_args") == "typing.get_args")):
            return typing_get_args(st.freeze(args[0]))
        if d in ("importlib.import_module",) and args and isinstance(args[0], K):
            name = args[0].v
            broken = getattr(self.world, "import_errors", ())
            hit_b = next((b for b in broken if name == b or str(name).startswith(b + ".")), None)
            if hit_b is not None:
                # the module file is there, but importing it fails: it imports a name that has been removed elsewhere
                from mtsa.absint import raise_exc
                raise_exc(st, "ImportError", name=K(hit_b))
                return U("import of " + str(name) + " fails")
            if name in self.world.modules:
                return R("module", name=K(name))
            # CPython: ModuleNotFoundError.name is the first component of the dotted path that cannot be found
            parts = str(name).split(".")
            missing = next((".".join(parts[:i]) for i in range(1, len(parts) + 1) if ".".join(parts[:i]) not in self.world.modules), str(name))
            from mtsa.absint import raise_exc
            raise_exc(st, "ModuleNotFoundError", name=K(missing))
            return U("no module " + str(name))
        if d == "getattr" and len(args) >= 2 and isinstance(args[1], K):
            a, n = args[0], args[1].v
            if isinstance(a, R) and a.kind in ("module", "cls") and not n.startswith("__"):
                v = self.world.lookup_attr(a, n)
                if v is not None:
                    return v if isinstance(v, V) else R("namespace")
                if len(args) > 2:
                    return args[2]
                st.pending = st.pending or "AttributeError"
                return U(f"no attribute {n}")
            before = st.pending
            v2 = self.ri.interp.eval(ast.Attribute(value=call.args[0], attr=n, ctx=ast.Load()), st)
            if st.pending == "AttributeError" and before is None:
                st.pending = None
                if len(args) > 2:
                    return args[2]
                st.pending = "AttributeError"
                return U("getattr")
            if isinstance(v2, U):
                if len(args) > 2:
                    return args[2]
                if isinstance(a, R) and a.kind in ("func", "property", "value"):
                    st.pending = st.pending or "AttributeError"
                return v2
            return v2
        if d in ("inspect.getattr_static",) and len(args) >= 2:
            return self.call_hook(call, "getattr", fval, args, kwargs, st)
        if d == "inspect.unwrap" and len(args) == 1:
            a = args[0]
            if isinstance(a, R) and a.kind == "proxy":
                # an object that answers EVERY attribute (a lazy proxy, a recording double): its __wrapped__ is another such
                # object, and inspect.unwrap gives up with ValueError("wrapper loop when unwrapping ...")
                st.pending = st.pending or "ValueError"
                return U("wrapper loop")
            # a bound method forwards attribute access to its function, so unwrap() follows the function's chain
            if isinstance(a, R) and a.kind == "boundmethod" and isinstance(a.fields["func"], R) and "__wrapped__" in a.fields["func"].fields:
                a = a.fields["func"]
            stop = kwargs.get("stop")
            while isinstance(a, R) and "__wrapped__" in a.fields:
                if stop is not None:
                    # inspect.unwrap(f, stop=pred): pred is asked about every object of the chain, a true answer ends the walk there
                    verdict = self.ri.call_value(stop, call, [a], {}, st)
                    if not isinstance(verdict, K):
                        return None
                    if verdict.v:
                        break
                a = a.fields["__wrapped__"]
            return a
        if d == "hasattr" and len(args) == 2 and isinstance(args[1], K) and isinstance(args[0], R):
            return K(args[1].v in args[0].fields)
        if d == "isinstance" and len(args) == 2:
            return self._isinstance(args[0], args[1])
        if d in ("inspect.ismodule", "inspect.isclass", "inspect.isfunction", "inspect.isbuiltin", "inspect.ismethod", "inspect.isroutine") and len(args) == 1 and isinstance(args[0], (R, K)):
            kinds = {"ismodule": ("module",), "isclass": ("cls", "td"), "isfunction": ("func",), "isbuiltin": ("builtinfunc",), "ismethod": ("boundmethod",),
                     "isroutine": ("func", "builtinfunc", "boundmethod")}[d.split(".")[1]]
            return K(isinstance(args[0], R) and args[0].kind in kinds)
        if d in ("reprlib.repr", "repr", "str") and len(args) == 1 and isinstance(args[0], R) and args[0].kind in ("value", "callable_obj", "module", "builtinfunc", "property"):
            return K(f"<{args[0].kind}>")
        if d == "callable" and len(args) == 1:
            a = args[0]
            if isinstance(a, R):
                return K(a.kind in ("func", "builtinfunc", "boundmethod", "cls", "td", "callable_obj", "proxy"))
            if isinstance(a, K):
                return K(False)
            return None
        if d == "type" and len(args) == 1:
            a = args[0]
            return S("kind:" + (a.kind if isinstance(a, R) else type(a).__name__))
        if d == "repr" and len(args) == 1:
            fa = st.freeze(args[0])
            return K(repr(fa.v)) if isinstance(fa, K) and isinstance(fa.v, (str, int)) else K(py_repr(fa))
        if d == "json.dumps" and args:
            sk = kwargs.get("sort_keys", K(False))
            doc = st.freeze(args[0])
            return R("json", of=sort_doc(doc) if sk == K(True) else doc, sort_keys=sk)
        if d == "json.loads" and args:
            a = args[0]
            if isinstance(a, R) and a.kind == "json":
                return thaw(a.fields["of"], st, a.fields.get("sort_keys") == K(True))
            if isinstance(a, K) and a.v == "null":
                return K(None)
            st.pending = st.pending or "JSONDecodeError"
            return U("malformed json")
        if meth == "get" and isinstance(fval, Ref) and args:
            dd = st.dict_of(fval)
            return dd.get(args[0], args[1] if len(args) > 1 else K(None))
        if meth == "split" and isinstance(fval, K) and isinstance(fval.v, str) and args and isinstance(args[0], K):
            return K(tuple(K(x) for x in fval.v.split(args[0].v)))
        if meth == "join" and isinstance(fval, K) and isinstance(fval.v, str) and args:
            seq = self.ri.interp.iterate(args[0], st)
            if seq is not None and all(isinstance(x, K) for x in seq):
                return K(fval.v.join(x.v for x in seq))
            return None
        if d == "tuple" and len(args) == 1:
            seq = self.ri.interp.iterate(args[0], st)
            return K(tuple(seq)) if seq is not None else None
        # mypy_extensions.TypedDict(name, fields, total=...)
        if d == "TypedDict" and len(args) >= 2:
            name = args[0]
            fields = st.freeze(args[1])
            total = kwargs.get("total", K(True))
            if isinstance(fields, R) and fields.kind == "dict":
                # CPython/mypy_extensions: the new class is stamped with the module of the CALLER of TypedDict(...)
                return R("td", __module__=K(self.ri.cur_fi.module.name), __qualname__=name, __name__=name, __total__=total, __annotations__=fields)
            return None
        # ---- compat predicates ------------------------------------------------------
        callee = self.ri.resolve(call, fval)
        if callee is None and isinstance(call.func, ast.Name) and isinstance(fval, S) and fval.name.startswith("class:"):
            fq = fval.name[len("class:"):]
            mname, _, cname = fq.rpartition(".")
            ci = self.repo.cls(mname, cname, required=False)
            if ci is not None:
                callee = self.repo.method(ci, "__init__")
        if callee is not None and callee.module.name == "monkeytype.compat":
            a0 = args[0] if args else None
            name = callee.qualname
            if name == "is_typed_dict":
                return K(isinstance(a0, R) and a0.kind == "td")
            if name == "is_any":
                return K(a0 == ANY)
            if name == "is_union":
                return K(isinstance(a0, R) and ((a0.kind == "generic" and a0.fields["origin"] == K("Union")) or (a0.kind == "alias" and a0.fields["name"] == K("Union"))))
            if name == "is_generic":
                return K(isinstance(a0, R) and a0.kind in ("generic", "alias"))
            if name in ("qualname_of_generic", "name_of_generic"):
                if isinstance(a0, R) and a0.kind == "generic":
                    return a0.fields["origin"]
                if isinstance(a0, R) and a0.kind == "alias":
                    return a0.fields["name"]
                st.pending = st.pending or "AttributeError"
                return U("not generic")
        if callee is not None and callee.cls is not None and callee.qualname.endswith(".__init__") and callee.module.name.startswith("monkeytype"):
            # construct an instance: run __init__ on a fresh heap object
            obj = st.alloc("obj", {"__class__": K(callee.cls.fq)})
            self.ri.inline_call(callee, call, obj, args, kwargs, st)
            return obj
        return None

    def _isinstance(self, a: V, c: V) -> Optional[V]:
        names = list(c.v) if isinstance(c, K) and isinstance(c.v, tuple) else [c]
        out = False
        for n in names:
            nm = n.name if isinstance(n, S) else (repr(n))
            kind = a.kind if isinstance(a, R) else None
            if nm in ("builtin:type",):
                out |= kind in ("cls", "td")
            elif nm.endswith("types.MethodType"):
                out |= kind == "boundmethod"
            elif nm.endswith("types.FunctionType"):
                out |= kind == "func"
            elif nm.endswith("types.BuiltinFunctionType"):
                out |= kind == "builtinfunc"
            elif nm in ("builtin:property",):
                out |= kind == "property"
            elif nm in ("builtin:str",):
                out |= isinstance(a, K) and isinstance(a.v, str)
            elif nm.endswith("cached_property") or nm == "K(None)":
                out |= False
            elif nm.endswith("CallTraceRow"):
                out |= isinstance(a, Ref)
            else:
                return None
        return K(out)

    last_state: Optional[State] = None

    def result(self, env: Dict[str, V], carry: Optional[State] = None) -> Tuple[str, Any]:
        """('return', frozen value) | ('raise', exception class name)"""
        outs = self.ri.run(env, carry=carry)
        self.last_state = outs[0] if outs else None
        if len(outs) != 1:
            raise AnalysisError(f"{self.fi.fq}: {len(outs)} outcomes for one scenario")
        o = outs[0]
        if o.term is None:
            return ("return", K(None))
        if o.term[0] == "raise":
            return ("raise", str(o.term[1]))
        return ("return", o.freeze(o.term[1]))


def sort_doc(v: Any) -> Any:
    """the document as json.dumps(..., sort_keys=True) writes it: the members of every object in sorted key order"""
    if isinstance(v, R) and v.kind == "dict":
        items = [(k, sort_doc(x)) for k, x in v.fields["items"]]
        if all(isinstance(k, K) and isinstance(k.v, str) for k, _ in items):
            items.sort(key=lambda kv: kv[0].v)
        return R("dict", items=tuple(items))
    if isinstance(v, R) and v.kind == "list":
        return R("list", items=tuple(sort_doc(x) for x in v.fields["items"]))
    if isinstance(v, K) and isinstance(v.v, tuple):
        return K(tuple(sort_doc(x) for x in v.v))
    return v


def thaw(v: Any, st: State, sorted_keys: bool = False) -> V:
    """json.loads: rebuild mutable dicts/lists from a frozen json document.  A document written with sort_keys=True lists
    the members of every object in sorted key order, and that is the order of the dicts that come back."""
    if isinstance(v, R) and v.kind == "dict":
        items = list(v.fields["items"])
        if sorted_keys and all(isinstance(k, K) and isinstance(k.v, str) for k, _ in items):
            items.sort(key=lambda kv: kv[0].v)
        return st.alloc("dict", {k: thaw(x, st, sorted_keys) for k, x in items})
    if isinstance(v, R) and v.kind == "list":
        return st.alloc("list", [thaw(x, st, sorted_keys) for x in v.fields["items"]])
    if isinstance(v, K) and isinstance(v.v, tuple):
        return st.alloc("list", [thaw(x, st, sorted_keys) for x in v.v])
    return v


def exception_hierarchy(repo: Repo) -> Dict[str, str]:
    """class name -> parent name, read from monkeytype/exceptions.py (and any exception class of the package)."""
    out: Dict[str, str] = {}
    for m in repo.modules.values():
        for c in m.classes.values():
            if c.bases and (c.name.endswith("Error") or c.name.endswith("Exception") or any(b.endswith(("Error", "Exception")) for b in c.bases)):
                out[c.name] = c.bases[0].split(".")[-1]
    return out


def same_type(a: Any, b: Any) -> bool:
    """Structural equality of abstract types (TypedDicts compared by name, totality and fields)."""
    if isinstance(a, R) and isinstance(b, R) and a.kind == "td" and b.kind == "td":
        if a.fields["__name__"] != b.fields["__name__"] or a.fields["__total__"] != b.fields["__total__"]:
            return False
        fa, fb = a.fields["__annotations__"].fields["items"], b.fields["__annotations__"].fields["items"]
        if [k for k, _ in fa] != [k for k, _ in fb] and sorted(map(repr, (k for k, _ in fa))) != sorted(map(repr, (k for k, _ in fb))):
            return False
        db = {repr(k): v for k, v in fb}
        return all(repr(k) in db and same_type(v, db[repr(k)]) for k, v in fa)
    if isinstance(a, R) and isinstance(b, R) and a.kind == "generic" and b.kind == "generic":
        if a.fields["origin"] != b.fields["origin"]:
            return False
        xa, xb = a.fields["args"].v, b.fields["args"].v
        return len(xa) == len(xb) and all(same_type(x, y) for x, y in zip(xa, xb))
    return a == b


def show(t: Any) -> str:
    if isinstance(t, R):
        if t.kind == "cls":
            return f"{t.fields['__module__'].v}.{t.fields['__qualname__'].v}"
        if t.kind == "alias":
            return t.fields["name"].v
        if t.kind == "any":
            return "Any"
        if t.kind == "generic":
            a = t.fields["args"].v
            return f"{t.fields['origin'].v}[{', '.join(show(x) for x in a) if a else '()'}]"
        if t.kind == "td":
            return f"TypedDict({t.fields['__name__'].v}, {{{', '.join(f'{k.v}: {show(v)}' for k, v in t.fields['__annotations__'].fields['items'])}}})"
        if t.kind == "func":
            return f"<function {t.fields['__module__'].v}.{t.fields['__qualname__'].v}>"
    return repr(t)[:120]


def type_universe() -> List[R]:
    a1 = anon_td({"a": INT, "b": gen("List", STR)})
    a2 = anon_td({"a": INT}, {"c": USER})
    nested = anon_td({"outer": a1, "n": NONE_T})
    return [
        INT, STR, NONE_T, USER, NESTED, OTHER, ANY, alias("Callable"),
        gen("List", INT), gen("Set", USER), gen("Dict", STR, INT), gen("DefaultDict", STR, gen("List", INT)),
        gen("Tuple"), gen("Tuple", INT, STR), gen("Tuple", gen("Tuple")), gen("Type", USER), gen("Type", NESTED),
        gen("Iterator", ANY), gen("Generator", INT, NONE_T, STR), gen("Union", INT, STR), gen("Union", USER, NONE_T),
        gen("List", gen("Union", INT, NONE_T)), gen("Dict", ANY, ANY), gen("List", ANY),
        a1, a2, nested, gen("List", a1), gen("Dict", STR, a2), gen("Union", a1, NONE_T), gen("Tuple", a1, a2),
        gen("DefaultDict", STR, a1), gen("Type", INT),
        REGISTRY, gen("List", REGISTRY), gen("Union", REGISTRY, NONE_T), anon_td({"r": REGISTRY}),
        SHADOW, gen("List", SHADOW), gen("Dict", STR, SHADOW),
    ]
