"""History rules over the tracer: what a call event records is computed from that event's own values.

The tracer methods are interpreted on *sequences* of events that share one tracer object (its instance containers,
and the module-level objects of tracing.py, live in the carried heap).  Program values are model records
R('val', ident, cls, kind, ver, n): `type(v)`, `id(v)`, `len(v)` and `is` are catalogued on them; get_type is the
abstract function T(v) (class for a plain instance, Type[..] for a class object, a function of the *current
contents* for a container).  A memo whose key identifies less than T depends on - the class of a class object, the
identity and length of a container that was changed in place, the code object of two live generator frames -
makes the second event of the pair record the first event's type.  A memo with a sound key passes."""
from __future__ import annotations

import ast
import builtins
import collections
from typing import Any, Dict, List, Optional, Tuple

from mtsa.absint import K, R, Ref, S, U, V, State
from mtsa.index import Repo, norm
from mtsa.report import AnalysisError, Ctx

from .tracer_model import Point, TracerScenario, corpus_points, frame_value, relevant

M = "monkeytype.tracing"


def cls_obj(name: str) -> R:
    return R("val", ident=K(name), cls=K("type"), kind=K("class"), ver=K(1), n=K(0))


def inst(ident: str, cls: str) -> R:
    return R("val", ident=K(ident), cls=K(cls), kind=K("inst"), ver=K(1), n=K(0))


def cont(ident: str, cls: str, ver: int, n: int) -> R:
    return R("val", ident=K(ident), cls=K(cls), kind=K("container"), ver=K(ver), n=K(n))


def T(v: V) -> V:
    """the abstract get_type"""
    if isinstance(v, R) and v.kind == "val":
        k = v.fields["kind"].v
        if k == "inst":
            return R("typ", name=v.fields["cls"])
        if k == "class":
            return R("typ", name=K("Type[" + v.fields["ident"].v + "]"))
        return R("typ", name=K(f"{v.fields['cls'].v}<contents of {v.fields['ident'].v} at version {v.fields['ver'].v}>"))
    return R("typeof", of=v)


def class_token(name: str) -> V:
    if hasattr(builtins, name):
        return S("builtin:" + name)
    if hasattr(collections, name):
        return S("mod:collections." + name)
    return S("class:app." + name)


PAIRS: List[Tuple[str, R, R]] = [
    ("two different class objects", cls_obj("Shape"), cls_obj("Circle")),
    ("instances of two different classes", inst("i1", "A"), inst("i2", "B")),
    ("the same list object, changed in place (same length) between the events", cont("L", "list", 1, 2), cont("L", "list", 2, 2)),
    ("the same dict object, one value replaced between the events", cont("D", "dict", 1, 1), cont("D", "dict", 2, 1)),
    ("two list objects of equal length", cont("L1", "list", 1, 2), cont("L2", "list", 1, 2)),
    ("the same tuple-holding list after an element was replaced", cont("Q", "list", 1, 3), cont("Q", "list", 2, 3)),
]


class ValueTracer(TracerScenario):
    """TracerScenario whose program values are model records"""

    def __init__(self, *a: Any, **kw: Any) -> None:
        super().__init__(*a, **kw)
        base_cmp = self.ri.interp._compare

        def compare(op: ast.cmpop, x: V, y: V) -> Optional[bool]:
            if isinstance(op, (ast.Is, ast.IsNot)) and isinstance(x, R) and isinstance(y, R) and x.kind == "val" and y.kind == "val":
                same = x.fields["ident"] == y.fields["ident"]
                return same if isinstance(op, ast.Is) else not same
            return base_cmp(op, x, y)

        self.ri.interp._compare = compare  # type: ignore[method-assign]

    def call_hook(self, call: ast.Call, fname: Optional[str], fval: Optional[V], args: List[V], kwargs: Dict[str, V], st: State) -> Optional[V]:
        d = fname or ""
        if len(args) >= 1 and isinstance(args[0], R) and args[0].kind == "val":
            v = args[0]
            if d == "type" and len(args) == 1:
                return class_token(v.fields["cls"].v)
            if d == "id" and len(args) == 1:
                return R("id", of=v.fields["ident"])
            if d == "len" and len(args) == 1:
                return v.fields["n"]
            callee = self.ri.resolve(call, fval)
            if callee is not None and callee.fq == "monkeytype.typing.get_type":
                st.effects.append(("get_type", v, kwargs.get("max_typed_dict_size", args[1] if len(args) > 1 else K("<missing>"))))
                return T(v)
        return super().call_hook(call, fname, fval, args, kwargs, st)


def _entry_point() -> Point:
    _, call_points = corpus_points()
    for p in call_points:
        if p.kind == "entry" and p.code.co_argcount >= 1 and not (p.code.co_flags & 0x2A0):
            return p
    raise AnalysisError("corpus: no plain function entry point")


def _ret_point(kind: str) -> Point:
    ret_points, _ = corpus_points()
    for p in ret_points:
        if p.kind == kind and (kind != "return" or not (p.code.co_flags & 0x2A0)):
            return p
    raise AnalysisError(f"corpus: no {kind} point")


def tracer_no_memory(ctx: Ctx, repo: Repo, rule: str) -> None:
    cls = repo.cls(M, "CallTracer")
    hc = repo.method(cls, "handle_call")
    hr = repo.method(cls, "handle_return")
    ctx.functions.update({hc.fq, hr.fq})
    fparam = hc.positional_params()[1]
    rp = hr.positional_params()
    pe = _entry_point()
    argname = pe.code.co_varnames[0]
    n = 0
    for what, v1, v2 in PAIRS:
        # --- two calls of the same function (same code object, two frames)
        carry: Optional[State] = None
        got: List[Any] = []
        for i, v in enumerate((v1, v2)):
            sc = ValueTracer(repo, "handle_call", {"sample_rate": K(None)}, trace_in_table=K(None), func_value=S("func"), cache_hit=(i > 0))
            fr = frame_value(pe, f_locals=R("dict", items=((K(argname), v),)), extra={"ident": K(f"frame{i}")})
            outs = sc.run({fparam: fr}, carry=carry)
            if len(outs) != 1:
                raise AnalysisError(f"handle_call: {len(outs)} outcomes in the history scenario")
            carry = outs[0]
            stores = [e for e in relevant(outs[0].effects) if e[0] == "setitem" and e[1] == "self.traces"]
            tr = stores[-1][3] if stores else None
            at = tr.fields.get("arg_types") if isinstance(tr, R) and tr.kind == "trace" else None
            items = dict((k.v, x) for k, x in at.fields["items"]) if isinstance(at, R) and at.kind == "dict" else None
            got.append(items.get(argname) if items is not None else None)
        n += 1
        ctx.check(got[0] == T(v1) and got[1] == T(v2), rule, hc.fq,
                  "the argument types recorded for a call are inferred from that call's own values (nothing remembered from an earlier call stands in for them)",
                  construct=f"two calls of one function, argument = {what}: second call recorded {got[1]}, its own value has {T(v2)}")
        # --- two returns (two frames of the same code, each with its own in-flight trace)
        pr = _ret_point("return")
        carry = None
        rets: List[Any] = []
        for i, v in enumerate((v1, v2)):
            trc = R("trace", id=K(f"t{i}"))
            sc = ValueTracer(repo, "handle_return", {}, trace_in_table=trc)
            fr = frame_value(pr, extra={"ident": K(f"frame{i}")})
            outs = sc.run({rp[1]: fr, rp[2]: v}, carry=carry)
            if len(outs) != 1:
                raise AnalysisError(f"handle_return: {len(outs)} outcomes in the history scenario")
            carry = outs[0]
            sets = [e for e in outs[0].effects if e[0] == "setattr" and e[2] == "return_type"]
            rets.append(sets[-1][3] if sets else None)
        n += 1
        ctx.check(rets[0] == T(v1) and rets[1] == T(v2), rule, hr.fq,
                  "the return type recorded for a call is inferred from the value that call returned",
                  construct=f"two returns, value = {what}: second return recorded {rets[1]}, its own value has {T(v2)}")
    # --- two live frames of one generator function: every yield event reaches its own frame's trace
    py = _ret_point("yield")
    for what, a, b in (("instances of one class", inst("y1", "A"), inst("y2", "A")), ("values of two classes", inst("y1", "A"), inst("y2", "B"))):
        carry = None
        seq = [(0, a), (1, a), (0, b), (1, b)]
        added: Dict[int, List[Any]] = {0: [], 1: []}
        want: Dict[int, List[Any]] = {0: [], 1: []}
        for step, (fidx, v) in enumerate(seq):
            trc = R("trace", id=K(f"t{fidx}"))
            sc = ValueTracer(repo, "handle_return", {}, trace_in_table=trc)
            fr = frame_value(py, extra={"ident": K(f"gen{fidx}")})
            outs = sc.run({rp[1]: fr, rp[2]: v}, carry=carry)
            if len(outs) != 1:
                raise AnalysisError(f"handle_return: {len(outs)} outcomes in the generator history")
            carry = outs[0]
            for e in outs[0].effects:
                if e[0] == "trace.add_yield_type" and e[1] and e[1][0] not in added[fidx]:
                    added[fidx].append(e[1][0])
            if T(v) not in want[fidx]:
                want[fidx].append(T(v))
        n += 1
        ok = all(sorted(map(repr, added[f])) == sorted(map(repr, want[f])) for f in (0, 1))
        ctx.check(ok, rule, hr.fq,
                  "every type a generator frame yields reaches that frame's own trace, whatever other live frames of the same function yielded",
                  construct=f"two interleaved frames of one generator yielding {what}: frame 1 got {[str(x) for x in added[1]]}, yielded {[str(x) for x in want[1]]}")
    ctx.floor(rule, "event histories interpreted on one tracer object", n, 14)


def infer_no_memory(ctx: Ctx, repo: Repo, rule: str) -> None:
    """get_type is a function of (value as it is now, limit): interpreted twice in one process - the module-level
    objects of typing.py and any container handed in through an optional extra parameter are shared by both calls -
    the second result must be what a fresh process computes for the second value."""
    from . import infer_model as IM
    gt = repo.fn(IM.TY, "get_type")
    ctx.functions.add(gt.fq)
    ps = gt.positional_params()
    if len(ps) < 2:
        raise AnalysisError("get_type signature changed")
    extra = [p for p in gt.params[2:] if p in gt.defaults()]
    pairs = [
        ("two different class objects", IM.val("builtin:type", "Shape"), IM.val("builtin:type", "Circle")),
        ("two classes with a metaclass", IM.val("class:Meta", "K1"), IM.val("class:Meta", "K2")),
        ("one list object changed in place (same length)", IM.val("builtin:list", "L#1", n=2), IM.val("builtin:list", "L#2", n=2)),
        ("one set object changed in place", IM.val("builtin:set", "S#1", n=2), IM.val("builtin:set", "S#2", n=2)),
        ("one str-keyed dict whose value was replaced", IM.val("builtin:dict", "D#1", n=1, keykind="str"), IM.val("builtin:dict", "D#2", n=1, keykind="str")),
        ("one defaultdict whose value was replaced", IM.val("mod:collections.defaultdict", "DD#1", n=1), IM.val("mod:collections.defaultdict", "DD#2", n=1)),
        ("one tuple-valued list", IM.val("builtin:list", "Q#1", n=3), IM.val("builtin:list", "Q#2", n=3)),
        ("two lists of equal length", IM.val("builtin:list", "A", n=2), IM.val("builtin:list", "B", n=2)),
        ("two instances of one user class", IM.val("class:User", "u1"), IM.val("class:User", "u2")),
    ]
    n = 0
    defaults = gt.defaults()
    modes: List[Any] = [None]
    for p_ in extra:
        dflt = defaults[p_]
        if isinstance(dflt, ast.Constant) and dflt.value is None:
            modes.append(p_)
        elif isinstance(dflt, ast.Constant) and isinstance(dflt.value, int) and not isinstance(dflt.value, bool):
            # a numeric extra parameter (a depth, a budget): whatever value a nested call hands down, the type
            # inferred for a value must be the one inferred for it at top level
            for delta in (1, 7, 1000):
                for what, v1, v2 in pairs:
                    for limit in (0, 2):
                        want = IM.InferScenario(repo, "get_type", all_str=True, any_str=True).result({ps[0]: v2, ps[1]: K(limit)})
                        got = IM.InferScenario(repo, "get_type", all_str=True, any_str=True).result({ps[0]: v2, ps[1]: K(limit), p_: K(dflt.value + delta)})
                        n += 1
                        ctx.check(got == want, rule, gt.fq,
                                  "the type inferred for a value is the same at every nesting position (no extra parameter changes it)",
                                  construct=f"{what.split(',')[0]} (limit {limit}, {p_}={dflt.value + delta}): {str(got)[:100]}, at top level {str(want)[:100]}")
    for limit in (0, 2):
        for mode in modes:
            for what, v1, v2 in pairs:
                def scen() -> Any:
                    sc = IM.InferScenario(repo, "get_type", all_str=True, any_str=True)
                    return sc
                want = scen().result({ps[0]: v2, ps[1]: K(limit)})
                st0 = State()
                env1: Dict[str, V] = {ps[0]: v1, ps[1]: K(limit)}
                env2: Dict[str, V] = {ps[0]: v2, ps[1]: K(limit)}
                if mode is not None:
                    shared = st0.alloc("dict", {})
                    env1[mode] = shared
                    env2[mode] = shared
                s1 = scen()
                s1.result(env1, carry=st0)
                s2 = scen()
                got = s2.result(env2, carry=s1.last_state)
                n += 1
                lab = f"limit {limit}" + (f", caller-supplied `{mode}` container shared by both calls" if mode else "")
                ctx.check(got == want, rule, gt.fq,
                          "the type inferred for a value depends on that value as it is now, not on values inferred earlier in the process",
                          construct=f"{what} ({lab}): second call gives {str(got)[:110]}, a fresh process gives {str(want)[:110]}")
    # a first call that FAILS while an element is being typed (a value nested too deeply: RecursionError - contained by the tracer),
    # then the same container object again: whatever the first call had noted about the container must be gone
    for what, v in (("a list", IM.val("builtin:list", "F#1", n=2)), ("a set", IM.val("builtin:set", "F#2", n=2)), ("a dict", IM.val("builtin:dict", "F#3", n=2, keykind="mixed")),
                    ("a defaultdict", IM.val("mod:collections.defaultdict", "F#4", n=1)), ("a tuple", IM.val("builtin:tuple", "F#5", n=2))):
        for limit in (0, 2):
            want = IM.InferScenario(repo, "get_type", all_str=False, any_str=True).result({ps[0]: v, ps[1]: K(limit)})
            s1 = IM.InferScenario(repo, "get_type", all_str=False, any_str=True)
            s1.fail_nested = "RecursionError"  # type: ignore[attr-defined]
            st_f = State()
            outs_f = s1.run({ps[0]: v, ps[1]: K(limit)}, carry=st_f)
            if len(outs_f) != 1:
                raise AnalysisError(f"get_type: {len(outs_f)} outcomes with a failing element")
            first = outs_f[0]
            failed = first.term is not None and first.term[0] == "raise"
            first.term = None
            first.pending = None
            got = IM.InferScenario(repo, "get_type", all_str=False, any_str=True).result({ps[0]: v, ps[1]: K(limit)}, carry=first)
            n += 1
            ctx.check(got == want, rule, gt.fq,
                      "a failed inference leaves nothing behind: the next inference of the same object gives what a fresh process gives",
                      construct=f"{what} whose element could not be typed ({'the first call raised RecursionError' if failed else 'the first call did not fail'}), then the same object again (limit {limit}): "
                                f"{str(got)[:110]}, a fresh process gives {str(want)[:110]}")
    # concrete values that COMPARE EQUAL (and hash alike) although their elements have different classes: a memo keyed by the value
    # (functools.lru_cache on a helper that takes the tuple) answers the second with the first one's type
    from . import concrete_infer as CI
    eq_pairs = [("(1, 0) then (True, False)", CI.tup("t1", K(1), K(0)), CI.tup("t2", K(True), K(False))),
                ("(True, False) then (1.0, 0.0)", CI.tup("t3", K(True), K(False)), CI.tup("t4", K(1.0), K(0.0))),
                ("[(1, 0)] then [(1.0, 0.0)] (the tuples inside lists)", CI.lst("l1", CI.tup("t5", K(1), K(0))), CI.lst("l2", CI.tup("t6", K(1.0), K(0.0))))]
    for what, v1, v2 in eq_pairs:
        for limit in (0, 2):
            want = CI.infer(repo, v2, limit)
            s1 = CI.ConcreteInfer(repo, "get_type")
            st1 = State()
            s1.result({ps[0]: v1, ps[1]: K(limit)}, carry=st1)
            s2 = CI.ConcreteInfer(repo, "get_type")
            got = s2.result({ps[0]: v2, ps[1]: K(limit)}, carry=s1.last_state)
            n += 1
            ctx.check(got == want, rule, gt.fq,
                      "the type inferred for a value depends on that value as it is now, not on an EQUAL value inferred earlier (1 == 1.0 == True, and so are tuples of them)",
                      construct=f"{what} (limit {limit}): second call gives {CI.short(got)}, a fresh process gives {CI.short(want)}")
    ctx.floor(rule, "two-call inference histories", n, 18)


def tracer_attribution_history(ctx: Ctx, repo: Repo, rule: str) -> None:
    """Two frames whose code objects are equal but not identical (CPython does not compare co_filename: the same
    function text at the same lines of two modules) and belong to two different functions: each call must be
    attributed to the function of its own frame.  The tracer's function cache is a real dict here."""
    cls = repo.cls(M, "CallTracer")
    hc = repo.method(cls, "handle_call")
    ctx.functions.add(hc.fq)
    fparam = hc.positional_params()[1]
    pe = _entry_point()
    argname = pe.code.co_varnames[0]
    variants = [
        ("an equal code object (same text, same lines) of another module", "the resolved function is remembered per code object, and code objects of different files compare equal",
         [{"co_filename": K("/src/app/a/mod.py")}, {"co_filename": K("/src/app/b/mod.py")}]),
        ("a function of the same name defined elsewhere in the same file", "the resolved function is remembered under a key coarser than the code object",
         [{"co_firstlineno": K(10), "co_qualname": K("A.f")}, {"co_firstlineno": K(40), "co_qualname": K("B.f"), "co_code": K(b"\x97\x00d\x01S\x00")}]),
        ("generated code: two functions of the same name at the same line of the same pseudo-file (every @dataclass __init__ is `<string>`, line 2; functions exec'd from one template)",
         "the resolved function is remembered under (file, line, name) or something as coarse: generated functions share all three",
         [{"co_filename": K("<string>"), "co_firstlineno": K(2), "co_name": K("__init__"), "co_qualname": K("Point.__init__")},
          {"co_filename": K("<string>"), "co_firstlineno": K(2), "co_name": K("__init__"), "co_qualname": K("Label.__init__"), "co_code": K(b"\x97\x00d\x01S\x00")}]),
        ("generated code that is EQUAL: the __init__ of two dataclasses with the same fields (same pseudo-file `<string>`, same line, same name, same bytecode and constants - two code objects that compare equal and are not the same object)",
         "the resolved function is remembered under a key that compares code objects by VALUE: equal code objects of two different functions share the entry",
         [{"co_filename": K("<string>"), "co_firstlineno": K(2), "co_name": K("__init__"), "co_qualname": K("__create_fn__.<locals>.__init__"), "ident": K("code of Point.__init__")},
          {"co_filename": K("<string>"), "co_firstlineno": K(2), "co_name": K("__init__"), "co_qualname": K("__create_fn__.<locals>.__init__"), "ident": K("code of Label.__init__")}]),
        ("the same function again (a third call, after the other one)", "the remembered function is not the one resolved for this code object",
         [{"co_filename": K("/src/app/a/mod.py")}, {"co_filename": K("/src/app/b/mod.py")}, {"co_filename": K("/src/app/a/mod.py")}]),
    ]
    n = 0
    for what, construct, codes in variants:
        st0 = State()
        cache = st0.alloc("dict", {})
        carry: Optional[State] = st0
        got: List[Any] = []
        want: List[Any] = []
        for i, over in enumerate(codes):
            fid = "|".join(f"{k}={v.v!r}" for k, v in sorted(over.items()) if k != "co_code")
            sc = ValueTracer(repo, "handle_call", {"sample_rate": K(None), "cache": cache}, trace_in_table=K(None), func_value=S(f"func:{fid}"), cache_hit=None)
            fr = frame_value(pe, f_locals=R("dict", items=((K(argname), inst("v", "A")),)), extra={"ident": K(f"frame{i}")})
            fr = fr.replace(f_code=fr.fields["f_code"].replace(**over))
            outs = sc.run({fparam: fr}, carry=carry)
            if len(outs) != 1:
                raise AnalysisError(f"handle_call: {len(outs)} outcomes in the attribution history")
            carry = outs[0]
            stores = [e for e in relevant(outs[0].effects) if e[0] == "setitem" and e[1] == "self.traces"]
            tr = stores[-1][3] if stores else None
            got.append(tr.fields.get("func") if isinstance(tr, R) and tr.kind == "trace" else None)
            want.append(S(f"func:{fid}"))
        n += 1
        ctx.check(got == want, rule, hc.fq,
                  "a call is attributed to the function of its own frame, whatever was resolved before: " + what,
                  construct=construct, history=f"attributed to {[str(x) for x in got]}, expected {[str(x) for x in want]}")
    # a function that cannot be resolved at its first call (its name is not bound yet: a function called while its module is
    # still being imported, a closure found only through the locals of one particular caller) and can at the next one
    st1 = State()
    cache1 = st1.alloc("dict", {})
    carry1: Optional[State] = st1
    got1: List[Any] = []
    for i, fv in enumerate((K(None), S("func:late"))):
        sc = ValueTracer(repo, "handle_call", {"sample_rate": K(None), "cache": cache1}, trace_in_table=K(None), func_value=fv, cache_hit=None)
        fr = frame_value(pe, f_locals=R("dict", items=((K(argname), inst("v", "A")),)), extra={"ident": K(f"late{i}")})
        outs = sc.run({fparam: fr}, carry=carry1)
        if len(outs) != 1:
            raise AnalysisError(f"handle_call: {len(outs)} outcomes in the late-binding history")
        carry1 = outs[0]
        stores = [e for e in relevant(outs[0].effects) if e[0] == "setitem" and e[1] == "self.traces"]
        tr = stores[-1][3] if stores else None
        got1.append(tr.fields.get("func") if isinstance(tr, R) and tr.kind == "trace" else None)
    n += 1
    ctx.check(got1 == [None, S("func:late")], rule, hc.fq,
              "a call of a resolvable function is traced whatever an earlier look-up for the same code object gave: a failed look-up is not remembered",
              construct="the function cache stores the result of a FAILED look-up (None) under the code object: once a function was not resolvable at one call, no later call of it is traced",
              history=f"first call: not resolvable; second call: resolvable - attributed to {[str(x) for x in got1]}")
    ctx.floor(rule, "attribution histories", n, 4)
