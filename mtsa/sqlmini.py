"""A small parser for the SQL subset embedded in monkeytype/db/sqlite.py
(CREATE TABLE / CREATE INDEX / INSERT ... VALUES / SELECT ... FROM ... WHERE ... GROUP BY ... ORDER BY ... LIMIT)."""
from __future__ import annotations

import re
from dataclasses import dataclass, field
from typing import Any, Dict, List, Optional, Tuple

from .report import AnalysisError

TOKEN = re.compile(
    r"\s+|--[^\n]*|(?P<str>'(?:[^']|'')*')|(?P<num>\d+)|(?P<id>[A-Za-z_][A-Za-z_0-9]*)|(?P<op>==|<>|!=|<=|>=|\|\||[=<>(),;?*.+\-/])"
)
KEYWORDS = {"SELECT", "DISTINCT", "FROM", "WHERE", "GROUP", "BY", "ORDER", "LIMIT", "AND", "OR", "NOT", "LIKE", "GLOB", "ESCAPE",
            "INSERT", "INTO", "VALUES", "CREATE", "TABLE", "INDEX", "IF", "EXISTS", "ON", "DESC", "ASC", "AS", "IN", "IS", "NULL",
            "COLLATE", "OFFSET", "HAVING", "UNIQUE", "REPLACE", "IGNORE", "REGEXP", "MATCH", "BETWEEN"}


def tokenize(sql: str) -> List[Tuple[str, str]]:
    out: List[Tuple[str, str]] = []
    pos = 0
    while pos < len(sql):
        m = TOKEN.match(sql, pos)
        if not m:
            raise AnalysisError(f"SQL: cannot tokenize at {sql[pos:pos+20]!r}")
        pos = m.end()
        if m.lastgroup == "str":
            out.append(("str", m.group("str")))
        elif m.lastgroup == "num":
            out.append(("num", m.group("num")))
        elif m.lastgroup == "id":
            w = m.group("id")
            out.append(("kw", w.upper()) if w.upper() in KEYWORDS else ("id", w))
        elif m.lastgroup == "op":
            out.append(("op", m.group("op")))
    return out


@dataclass
class Select:
    distinct: bool = False
    columns: List[str] = field(default_factory=list)
    table: str = ""
    where: List[List[Tuple[str, str]]] = field(default_factory=list)  # top-level AND conjuncts, as token lists
    where_has_or: bool = False
    group_by: List[str] = field(default_factory=list)
    order_by: List[Tuple[str, str]] = field(default_factory=list)
    limit: Optional[List[Tuple[str, str]]] = None
    offset: Optional[List[Tuple[str, str]]] = None
    having: bool = False
    n_params: int = 0
    param_sites: List[str] = field(default_factory=list)  # clause in which each ? occurs, in order


@dataclass
class Insert:
    table: str = ""
    columns: Optional[List[str]] = None
    values: List[List[Tuple[str, str]]] = field(default_factory=list)
    modifier: str = ""


@dataclass
class CreateTable:
    table: str = ""
    columns: List[Tuple[str, str]] = field(default_factory=list)


def _split_top(tokens: List[Tuple[str, str]], sep: Tuple[str, str]) -> List[List[Tuple[str, str]]]:
    out, cur, depth = [], [], 0
    for t in tokens:
        if t == ("op", "("):
            depth += 1
        elif t == ("op", ")"):
            depth -= 1
        if depth == 0 and t == sep:
            out.append(cur)
            cur = []
        else:
            cur.append(t)
    out.append(cur)
    return out


def text(tokens: List[Tuple[str, str]]) -> str:
    return " ".join(v for _, v in tokens)


def parse(sql: str) -> Any:
    toks = [t for t in tokenize(sql) if t != ("op", ";")]
    if not toks:
        raise AnalysisError("SQL: empty statement")
    head = toks[0]
    if head == ("kw", "SELECT"):
        return _select(toks)
    if head == ("kw", "INSERT") or head == ("kw", "REPLACE"):
        return _insert(toks)
    if head == ("kw", "CREATE"):
        return _create(toks)
    raise AnalysisError(f"SQL: unsupported statement {text(toks[:4])}")


def _clauses(toks: List[Tuple[str, str]], names: List[str]) -> Dict[str, List[Tuple[str, str]]]:
    """Split at top-level clause keywords (GROUP BY / ORDER BY are two tokens)."""
    out: Dict[str, List[Tuple[str, str]]] = {}
    cur = "HEAD"
    out[cur] = []
    depth = 0
    i = 0
    while i < len(toks):
        t = toks[i]
        if t == ("op", "("):
            depth += 1
        elif t == ("op", ")"):
            depth -= 1
        if depth == 0 and t[0] == "kw" and t[1] in names:
            cur = t[1]
            if t[1] in ("GROUP", "ORDER") and i + 1 < len(toks) and toks[i + 1] == ("kw", "BY"):
                i += 1
            if cur in out:
                raise AnalysisError(f"SQL: duplicate clause {cur}")
            out[cur] = []
        else:
            out[cur].append(t)
        i += 1
    return out


def _select(toks: List[Tuple[str, str]]) -> Select:
    s = Select()
    cl = _clauses(toks[1:], ["FROM", "WHERE", "GROUP", "HAVING", "ORDER", "LIMIT", "OFFSET"])
    head = cl["HEAD"]
    if head and head[0] == ("kw", "DISTINCT"):
        s.distinct = True
        head = head[1:]
    s.columns = [text(c) for c in _split_top(head, ("op", ","))]
    s.table = text(cl.get("FROM", []))
    if "WHERE" in cl:
        w = cl["WHERE"]
        depth = 0
        for t in w:
            depth += t == ("op", "(")
            depth -= t == ("op", ")")
            if depth == 0 and t == ("kw", "OR"):
                s.where_has_or = True
        s.where = _split_top(w, ("kw", "AND"))
    if "GROUP" in cl:
        s.group_by = [text(c) for c in _split_top(cl["GROUP"], ("op", ","))]
    s.having = "HAVING" in cl
    if "ORDER" in cl:
        for c in _split_top(cl["ORDER"], ("op", ",")):
            d = "ASC"
            if c and c[-1] in (("kw", "DESC"), ("kw", "ASC")):
                d = c[-1][1]
                c = c[:-1]
            s.order_by.append((text(c), d))
    s.limit = cl.get("LIMIT")
    s.offset = cl.get("OFFSET")
    order = ["HEAD", "FROM", "WHERE", "GROUP", "HAVING", "ORDER", "LIMIT", "OFFSET"]
    for name in order:
        for t in cl.get(name, []):
            if t == ("op", "?"):
                s.param_sites.append(name)
    s.n_params = len(s.param_sites)
    return s


def _insert(toks: List[Tuple[str, str]]) -> Insert:
    ins = Insert()
    i = 1
    if toks[i] == ("kw", "OR"):
        ins.modifier = toks[i + 1][1]
        i += 2
    if toks[i] != ("kw", "INTO"):
        raise AnalysisError("SQL: INSERT without INTO")
    i += 1
    ins.table = toks[i][1]
    i += 1
    if toks[i] == ("op", "("):
        j = toks.index(("op", ")"), i)
        ins.columns = [text(c) for c in _split_top(toks[i + 1:j], ("op", ","))]
        i = j + 1
    if toks[i] != ("kw", "VALUES"):
        raise AnalysisError("SQL: INSERT without VALUES")
    i += 1
    if toks[i] != ("op", "(") or toks[-1] != ("op", ")"):
        raise AnalysisError("SQL: malformed VALUES")
    ins.values = _split_top(toks[i + 1:-1], ("op", ","))
    return ins


def _create(toks: List[Tuple[str, str]]) -> Any:
    i = 1
    if toks[i] == ("kw", "UNIQUE"):
        i += 1
    if toks[i] == ("kw", "INDEX"):
        return ("index", text(toks))
    if toks[i] != ("kw", "TABLE"):
        raise AnalysisError("SQL: unsupported CREATE")
    i += 1
    if toks[i:i + 3] == [("kw", "IF"), ("kw", "NOT"), ("kw", "EXISTS")]:
        i += 3
    ct = CreateTable(table=toks[i][1])
    i += 1
    if toks[i] != ("op", "(") or toks[-1] != ("op", ")"):
        raise AnalysisError("SQL: malformed CREATE TABLE")
    for c in _split_top(toks[i + 1:-1], ("op", ",")):
        if c:
            ct.columns.append((c[0][1], text(c[1:])))
    return ct
