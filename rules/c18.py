"""C18 - sampling thins traces without distorting them (static clauses).

R-C18.1  the draw is a uniform 1-in-N gate placed before any effect; unset rate => no draw, always trace
R-C18.2  the draw influences nothing but the gate
R-C18.3  frames without an in-flight trace are ignored at return (checked with C02's table too)
R-C18.4  a trace is only ever started at the *first entry* of a frame (never at a resumption)
R-C18.5  the rate is forwarded unchanged Config.sample_rate() -> trace() -> trace_calls -> CallTracer
"""
from __future__ import annotations

import ast
from typing import Any, Dict, List, Tuple

from mtsa.absint import K, R, S, U, V
from mtsa.index import Repo, dotted, norm
from mtsa.report import AnalysisError, Ctx

from .common import attr_is_param, bound_argument, call_sites, cfg_of, is_call_to, returns_of
from .tracer_model import TRUSTED, TracerScenario, corpus_points, frame_value, relevant

LEVEL = "other"
EXPLANATION = (
    "Static decision of the structural clauses of C18: CallTracer.handle_call is interpreted abstractly for every "
    "(call-event point of the compiled corpus: first entry or resumption after yield/yield from/await) x sample rate "
    "{unset, 1, 3} x every value of the draw x {function resolvable or not} x {frame already traced or not}. The rules "
    "require: no draw and always a trace when the rate is unset; exactly one draw uniform over N values of which exactly "
    "one opens the gate; nothing but the draw happens on the skip path (no write to self.traces / self.cache, no type "
    "collection); a trace is created only at the first entry of a frame, never when a generator or coroutine is resumed; "
    "the draw does not flow into the recorded trace; handle_return ignores frames without an in-flight trace; the rate is "
    "forwarded unchanged from Config.sample_rate(). Not decided: the traced fraction on real runs (a statistic)."
)

M = "monkeytype.tracing"


def rule_gate(ctx: Ctx, repo: Repo) -> None:
    _, call_points = corpus_points()
    fi = repo.method(repo.cls(M, "CallTracer"), "handle_call")
    ctx.functions.add(fi.fq)
    w = fi.fq
    fparam = fi.positional_params()[1]
    locs = R("dict", items=((K("x"), S("val:x")), (K("y"), S("val:y")), (K("i"), S("val:i"))))
    n_entry = n_resume = 0
    reference: Dict[Any, Any] = {}
    for p in call_points:
        n_entry += p.kind == "entry"
        n_resume += p.kind == "resume"
        for rate in ((None, 1, 2, 3, 5) if TIER == "thorough" else (None, 1, 3)):
            draws = [None] if rate is None else list(range(rate))
            for func in (S("func"), K(None)):
                for in_traces in (False, True):
                    created_for: List[int] = []
                    for draw in draws:
                        sc = TracerScenario(
                            repo, "handle_call", {"sample_rate": K(rate)},
                            trace_in_table=R("trace", id=K("in-flight")) if in_traces else K(None),
                            func_value=func, draw=K(draw) if draw is not None else None, cache_hit=False,
                        )
                        outs = sc.run({fparam: frame_value(p, f_locals=locs)})
                        if len(outs) != 1:
                            raise AnalysisError(f"handle_call: {len(outs)} outcomes for one scenario")
                        effs = relevant(outs[0].effects)
                        dr = [e for e in effs if e[0] == "draw"]
                        rs = [e for e in effs if e[0] == "rng-state"]
                        ctx.check(not rs, "R-C18.1", w,
                                  "the generator's state is neither saved/restored nor re-seeded around the draw (successive draws must be independent; a restored state repeats the same draw for every call)",
                                  construct=f"{sorted(set(e[1] for e in rs))}", scenario=f"{p.label()} rate={rate}")
                        stores = [e for e in effs if e[0] == "setitem" and e[1] == "self.traces"]
                        others = [e for e in effs if e[0] not in ("draw", "rng-state")]
                        lab = f"{p.label()} rate={rate} draw={draw} func={'yes' if isinstance(func, S) else 'None'} traced={in_traces}"
                        if rate is None:
                            ctx.check(not dr, "R-C18.1", w, "no sampling draw when the rate is unset",
                                      construct=f"rate unset: draw {[d[1] for d in dr]}", scenario=lab)
                        else:
                            ok = len(dr) <= 1 and all(d[1] in ("random.randrange", "own.randrange") and d[2] == (K(rate),) for d in dr)
                            if dr:
                                # the draw comes from a generator the traced program cannot reach: a program that seeds or
                                # consumes the global generator (random.seed(0) at the top of a request handler) would otherwise
                                # decide which calls are sampled - e.g. none, or all of them
                                ctx.check(all(d[1].startswith("own.") for d in dr), "R-C18.6", w,
                                          "the sampling draw is independent of the traced program's use of the global random generator (the tracer draws from a generator of its own)",
                                          construct="random.randrange(self.sample_rate) draws from the module-level generator the traced program shares" if any(not d[1].startswith("own.") for d in dr) else "own generator",
                                          scenario=lab)
                            ctx.check(ok, "R-C18.1", w, "at most one draw per call event, uniform over range(rate)",
                                      construct=f"draws {[(d[1], d[2]) for d in dr]}", scenario=lab)
                        if stores:
                            created_for.append(-1 if draw is None else draw)
                            tr = stores[0][3]
                            ref = reference.setdefault((id(p), repr(func), in_traces), tr)
                            ctx.check(tr == ref, "R-C18.2", w,
                                      "the recorded trace is the same whatever the rate and the draw (the draw only gates)",
                                      construct=f"rate={rate} draw={draw}: {tr} differs from {ref}")
                        else:
                            # skip path: nothing but the draw (and, at most, the function lookup once the gate is open)
                            gate_open = rate is None or (rate is not None and draw == 0)
                            if not gate_open or p.kind == "resume":
                                ctx.check(not [e for e in others if e[0] in ("setitem", "get_type", "CallTrace", "delitem")],
                                          "R-C18.1", w, "an unsampled (or resumed) call leaves no residue and collects no types",
                                          construct=f"skip path effects {[e[0] for e in others]}", scenario=lab)
                        if p.kind == "resume":
                            ctx.check(not stores, "R-C18.4", w,
                                      "no trace is started when a generator/coroutine frame is resumed",
                                      construct=f"resumption after `{p.src.strip().splitlines()[1].strip()}`: trace created (rate={rate}, draw={draw}, already traced={in_traces})",
                                      scenario=lab)
                    # per (point, rate, func, in_traces): how many draw values created a trace
                    should = p.kind == "entry" and isinstance(func, S) and not in_traces
                    if rate is None:
                        ctx.check((len(created_for) == 1) == should, "R-C18.1", w,
                                  "rate unset: every first entry of a resolvable, untraced frame is traced",
                                  construct=f"{p.kind} rate=None func={'yes' if isinstance(func, S) else 'None'} traced={in_traces}: created={len(created_for)}")
                    else:
                        want = 1 if should else 0
                        ctx.check(len(created_for) == want, "R-C18.1", w,
                                  f"exactly one of the {rate} equally likely draws opens the gate (rate 1 traces every call)",
                                  construct=f"{p.kind} rate={rate} func={'yes' if isinstance(func, S) else 'None'} traced={in_traces}: {len(created_for)} of {rate} draws create a trace")
    ctx.floor("R-C18.4", "first-entry call points in corpus", n_entry, 10)
    ctx.floor("R-C18.4", "resumption call points in corpus", n_resume, 8)


def rule_return_ignores_untracked(ctx: Ctx, repo: Repo) -> None:
    ret_points, _ = corpus_points()
    fi = repo.method(repo.cls(M, "CallTracer"), "handle_return")
    ctx.functions.add(fi.fq)
    ps = fi.positional_params()
    for p in ret_points:
        sc = TracerScenario(repo, "handle_return", {}, trace_in_table=K(None))
        outs = sc.run({ps[1]: frame_value(p), ps[2]: S("arg")})
        effs = [e for o in outs for e in relevant(o.effects) if e[0] not in ("get_type",)]
        ctx.check(not effs, "R-C18.3", fi.fq, f"an unsampled frame is ignored at its {p.kind} event",
                  construct=f"untracked {p.kind}@{p.opname}: {[e[0] for e in effs]}")


def rule_forwarding(ctx: Ctx, repo: Repo) -> None:
    ci = repo.cls(M, "CallTracer")
    ok, why = attr_is_param(repo, ci, "sample_rate", "sample_rate")
    ctx.check(ok, "R-C18.5", ci.fq, "CallTracer.sample_rate is the constructor's sample_rate parameter, stored once", construct=why)
    init = repo.method(ci, "__init__")
    d = init.defaults().get("sample_rate")
    ctx.check(d is not None and isinstance(d, ast.Constant) and d.value is None, "R-C18.5", init.fq,
              "the tracer's default sample rate is None (trace everything)", construct=f"default {norm(d)}")
    from . import glue_model as GM
    GM.check_tracer_forwarding(ctx, repo, "R-C18.5", "sample_rate", "sample_rate", "trace_calls forwards its sample_rate to the tracer")
    GM.check_forwarding(ctx, repo, "R-C18.5", "sample_rate", "sample_rate", "trace() passes config.sample_rate() to trace_calls")
    cfgc = repo.cls("monkeytype.config", "Config")
    for c in [cfgc] + repo.subclasses(cfgc):
        m = c.methods.get("sample_rate")
        if m is None:
            continue
        ctx.functions.add(m.fq)
        rets = returns_of(m)
        ctx.check(len(rets) == 1 and rets[0][1] is not None and isinstance(rets[0][1], ast.Constant) and rets[0][1].value is None,
                  "R-C18.5", m.fq, "shipped configurations do not sample (rate None)", construct=norm(m.node.body[-1]))


TIER = "quick"


def run(ctx: Ctx, repo: Repo, tier: str) -> None:
    global TIER
    TIER = tier
    ctx.trust(*TRUSTED)
    ctx.trust("random.randrange(n) is uniform over range(n)")
    ctx.attempt(rule_gate, ctx, repo)
    ctx.attempt(rule_return_ignores_untracked, ctx, repo)
    ctx.attempt(rule_forwarding, ctx, repo)
    ctx.settle()
