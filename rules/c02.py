"""C02 - every completed call yields exactly one faithful call trace (static clauses).

R-C02.1  exit-opcode table agreement (CPython compiler vs handle_return) over a compiled corpus
R-C02.2  an await suspension is not a yield
R-C02.3  exactly-once / no residue typestate of self.traces + who-may-write
R-C02.4  attribution by code identity (provenance of every value get_func can return)
R-C02.5  argument names and values (handle_call on a structured scenario)
R-C02.6  the recorded return/yield type is get_type(arg) of the event's own value
R-C02.7  event dispatch: handle_call only on 'call', handle_return only on 'return'
R-C02.8  histories on one tracer object: a call records types inferred from its own values (no stale memo), every
         yield reaches its own frame's trace
R-C02.13 a resumption (also by throw()/close(), which arrives at YIELD_VALUE) of a frame without an in-flight trace starts
         no trace: the locals of that moment are not the values bound when the call started
"""
from __future__ import annotations

import ast
from typing import Any, Dict, List, Optional, Tuple

from mtsa.absint import K, R, S, U, V, State
from mtsa.cfg import CFG
from mtsa.index import FunctionInfo, Repo, calls_in, dotted, norm, walk_no_nested
from mtsa.report import AnalysisError, Ctx

from .common import cfg_of, code_selector, guard_texts, has_guard, is_call_to, is_none, returns_of
from .tracer_model import TRUSTED, Point, TracerScenario, corpus_points, frame_value, relevant

LEVEL = "other"
EXPLANATION = (
    "Static decision of the structural clauses of C02: the bodies of CallTracer.handle_return/handle_call/__call__ are "
    "interpreted abstractly (no repository code runs) for every event point of a corpus of compiled function forms "
    "(return of expression/constant/implicit None, exits by exception, generator yield, yield from, await, async for/with, "
    "async-generator yield) x tracer state; the effect sequence on self.traces / the logger / the CallTrace is compared "
    "with the property (logged exactly once, entry deleted before logging, return type present iff a value was returned, "
    "yield type only for yields, await is not a yield). Provenance rules show every function get_func can return was "
    "selected by identity of its __code__ with the frame's code. Not decided: order of completion across interleaved "
    "frames, what sys.setprofile delivers, contents of f_locals for cell variables."
)

M = "monkeytype.tracing"


def _trace(yielded: bool = False) -> R:
    """the in-flight trace of a frame: nothing returned yet; `yielded`: a yield type has been recorded already"""
    return R("trace", id=K("in-flight"), return_type=K(None), yield_type=S("type:earlier-yield") if yielded else K(None))


def _kinds(effs: List[Tuple[Any, ...]]) -> List[str]:
    return [str(e[0]) for e in effs]


def rule_return_table(ctx: Ctx, repo: Repo) -> None:
    """R-C02.1/2/3/6 + R-C18.3 by abstract interpretation of handle_return."""
    ret_points, _ = corpus_points()
    fi = repo.method(repo.cls(M, "CallTracer"), "handle_return")
    ctx.functions.add(fi.fq)
    w = fi.fq
    by_kind: Dict[str, int] = {}
    for p in ret_points:
        by_kind[p.kind] = by_kind.get(p.kind, 0) + 1
        for tracked in (True, False):
            sc = TracerScenario(repo, "handle_return", {}, trace_in_table=_trace() if tracked else K(None))
            params = fi.positional_params()
            if len(params) < 3:
                raise AnalysisError("handle_return no longer takes (self, frame, arg)")
            import inspect as _insp
            is_asyncgen = bool(p.code.co_flags & _insp.CO_ASYNC_GENERATOR)
            arg_v: V = S("arg")
            if p.kind == "unwind":
                arg_v = K(None)  # what the profile function is handed while the frame unwinds
            elif p.kind == "yield" and is_asyncgen:
                arg_v = S("val:async_generator_wrapped_value box")  # the interpreter's box around the yielded value
            outs = sc.run({params[1]: frame_value(p), params[2]: arg_v})
            if len(outs) != 1:
                raise AnalysisError(f"handle_return: {len(outs)} outcomes for one scenario")
            effs = relevant(outs[0].effects)
            kinds = _kinds(effs)
            logs = [e for e in effs if e[0] == "logger.log"]
            dels = [e for e in effs if e[0] == "delitem" and e[1] == "self.traces"]
            sets = [e for e in effs if e[0] == "setattr" and e[2] == "return_type"]
            ylds = [e for e in effs if e[0] == "trace.add_yield_type"]
            stores = [e for e in effs if e[0] == "setitem" and e[1] == "self.traces"]
            other_trace = [e for e in effs if e[0].startswith("trace.") and e[0] != "trace.add_yield_type"] + [
                e for e in effs if e[0] == "setattr" and e[2] not in ("return_type",)
            ]
            lab = p.label() + (" tracked" if tracked else " untracked")
            typ_ok = R("typeof", of=S("arg"))
            if not tracked:
                ctx.check(
                    not (logs or dels or sets or ylds or stores),
                    "R-C02.3", w, f"frame without in-flight trace is ignored at {p.kind} events",
                    construct=f"untracked frame at {p.kind}@{p.opname}: effects {kinds}",
                    point=lab,
                )
                continue
            if p.kind == "return":
                ok = len(logs) == 1 and len(dels) == 1 and len(sets) == 1 and not ylds and not stores
                ctx.check(ok, "R-C02.1", w, f"value return at {p.opname}: return type set, entry deleted, logged exactly once",
                          construct=f"return@{p.opname}: effects {kinds}", point=lab)
                if ok:
                    ctx.check(kinds.index("delitem") < kinds.index("logger.log"), "R-C02.3", w,
                              "the in-flight entry is deleted before the logger is called (a raising logger leaves no residue)",
                              construct=f"return@{p.opname}: order {kinds}")
                    ctx.check(kinds.index("setattr") < kinds.index("logger.log"), "R-C02.1", w,
                              "return type is stored before the trace is handed to the logger",
                              construct=f"return@{p.opname}: order {kinds}")
                    ctx.check(sets[0][3] == typ_ok, "R-C02.6", w, "return_type is get_type(arg) of the event's own value",
                              construct=f"return_type = {sets[0][3]}")
                    ctx.check(logs[0][1] and isinstance(logs[0][1][0], R) and logs[0][1][0].kind == "trace"
                              and logs[0][1][0].fields.get("id") == K("in-flight"),
                              "R-C02.3", w, "the logged object is the frame's in-flight trace", construct=f"log({logs[0][1]})")
            elif p.kind == "unwind":
                # a generator / coroutine that finishes because an exception thrown into it leaves the frame has FINISHED by
                # raising: logged once without a return type, entry deleted, and the None the event carries is not a yield
                ok = len(logs) == 1 and len(dels) == 1 and not sets and not ylds and not stores
                ctx.check(ok, "R-C02.9", w,
                          "a suspended generator or coroutine that finishes by an exception thrown into it (close(), uncaught throw(), cancellation) is logged once without a return type, its entry is deleted, and nothing is added to its yield type",
                          construct="the unwinding 'return' event of a suspended frame (arg None, f_lasti at the YIELD_VALUE) is taken for a " +
                                    ("yield of None" if ylds else "suspension") + ": nothing is logged and the entry stays in self.traces",
                          point=lab, effects=str(kinds))
            elif p.kind == "yield" and is_asyncgen:
                typ_box = R("typeof", of=arg_v)
                bad_box = [y for y in ylds if y[1] == (typ_box,)]
                ctx.check(not bad_box and not logs and not dels and not sets and not stores, "R-C02.6", w,
                          "the yield type of an async generator covers the values it yielded (the event's arg there is the interpreter's internal box around the value, not the value)",
                          construct="at an async generator's yield get_type(arg) is the class of CPython's async_generator_wrapped_value box, recorded as the yield type",
                          point=lab)
            elif p.kind == "yield":
                ok = len(ylds) == 1 and not logs and not dels and not sets and not stores
                ctx.check(ok, "R-C02.1", w, "generator yield: yield type added, nothing logged, entry kept",
                          construct=f"yield@{p.opname}: effects {kinds}", point=lab)
                if ok:
                    ctx.check(ylds[0][1] == (typ_ok,), "R-C02.6", w, "yield type is get_type(arg) of the yielded value",
                              construct=f"add_yield_type{ylds[0][1]}")
            elif p.kind == "await":
                ctx.check(not (ylds or logs or dels or sets or stores), "R-C02.2", w,
                          "await suspension: not a yield, nothing logged, entry kept",
                          construct=f"await suspension at {p.opname} (next RESUME) : effects {kinds}", point=lab)
            else:  # exception exit
                ok = len(logs) == 1 and len(dels) == 1 and not sets and not ylds and not stores
                ctx.check(ok, "R-C02.1", w, "exception exit: logged exactly once without a return type, entry deleted",
                          construct=f"exception@{p.opname}: effects {kinds}", point=lab)
                if ok:
                    ctx.check(kinds.index("delitem") < kinds.index("logger.log"), "R-C02.3", w,
                              "entry deleted before logging on exception exit", construct=f"exception@{p.opname}: order {kinds}")
            ctx.check(not other_trace, "R-C02.6", w, "no other mutation of the trace", construct=f"{other_trace}")
            # the type must be collected with the tracer's own limit
            gts = [e for e in effs if e[0] == "get_type"]
            for g in gts:
                ctx.check(g[2] == S("self.max_typed_dict_size"), "R-C02.6", w,
                          "get_type receives the tracer's max_typed_dict_size", construct=f"get_type(.., {g[2]})")
    for k, minimum in (("return", 10), ("yield", 5), ("await", 4), ("exception", 20), ("unwind", 8)):
        ctx.floor("R-C02.1", f"corpus points of kind {k}", by_kind.get(k, 0), minimum)


def rule_who_may_write(ctx: Ctx, repo: Repo) -> None:
    """R-C02.3: stores into self.traces only in handle_call, deletes only in handle_return,
    logger.log only in handle_return (tracing.py)."""
    mod = repo.module(M)
    n_store = n_del = n_log = 0
    tracer_methods = [f for f in mod.functions.values() if f.cls is not None and f.cls.name == "CallTracer"]

    def only_from(fi, root: str, seen=None) -> bool:
        """fi is `root` itself or a helper that is called from nowhere but (helpers of) `root`."""
        seen = seen or set()
        if fi.qualname == root:
            return True
        if fi.qualname in seen:
            return False
        seen.add(fi.qualname)
        short = fi.qualname.split(".")[-1]
        callers = [g for g in tracer_methods for c in ast.walk(g.node)
                   if isinstance(c, ast.Call) and isinstance(c.func, ast.Attribute) and c.func.attr == short and dotted(c.func.value) == "self"]
        # ... or reached through a class-level dispatch table that names the method: whoever reads the table may call it
        ci_t = fi.cls
        tables = [a for a, v in (ci_t.attrs.items() if ci_t is not None else []) if any(isinstance(x, ast.Name) and x.id == short for x in ast.walk(v))]
        for g in tracer_methods:
            if g is fi:
                continue
            for x in ast.walk(g.node):
                if isinstance(x, ast.Attribute) and x.attr in tables and (dotted(x.value) or "") in ("self", "cls", ci_t.name if ci_t is not None else ""):
                    callers.append(g)
        return bool(callers) and all(only_from(g, root, seen) for g in callers)

    class _Q:
        def __init__(self, fi, root):
            self.ok = only_from(fi, root)

    for fi in mod.functions.values():
        if fi.cls is None or fi.cls.name != "CallTracer":
            continue
        ctx.functions.add(fi.fq)
        for x in walk_no_nested(fi.node):
            # stores
            tgt = None
            if isinstance(x, (ast.Assign, ast.AugAssign, ast.AnnAssign)):
                tgts = x.targets if isinstance(x, ast.Assign) else [x.target]
                for t in tgts:
                    if isinstance(t, ast.Subscript) and dotted(t.value) == "self.traces":
                        n_store += 1
                        ctx.check(only_from(fi, "CallTracer.handle_call"), "R-C02.3", fi.fq,
                                  "self.traces entries are created only by handle_call", construct=norm(x), node=x)
                    if dotted(t) == "self.traces" and fi.qualname != "CallTracer.__init__":
                        ctx.violate("R-C02.3", fi.fq, norm(x), "self.traces is rebound outside __init__", node=x)
            if isinstance(x, ast.Delete):
                for t in x.targets:
                    if isinstance(t, ast.Subscript) and dotted(t.value) == "self.traces":
                        n_del += 1
                        ctx.check(only_from(fi, "CallTracer.handle_return"), "R-C02.3", fi.fq,
                                  "self.traces entries are removed only by handle_return", construct=norm(x), node=x)
            if isinstance(x, ast.Call) and isinstance(x.func, ast.Attribute) and dotted(x.func.value) == "self.traces":
                if x.func.attr in ("pop", "popitem", "clear"):
                    n_del += 1
                    ctx.check(only_from(fi, "CallTracer.handle_return"), "R-C02.3", fi.fq,
                              "self.traces entries are removed only by handle_return", construct=norm(x), node=x)
                elif x.func.attr in ("setdefault", "update", "__setitem__"):
                    n_store += 1
                    ctx.check(only_from(fi, "CallTracer.handle_call"), "R-C02.3", fi.fq,
                              "self.traces entries are created only by handle_call", construct=norm(x), node=x)
            if isinstance(x, ast.Call) and isinstance(x.func, ast.Attribute) and x.func.attr == "log" and dotted(x.func.value) == "self.logger":
                n_log += 1
                ctx.check(only_from(fi, "CallTracer.handle_return"), "R-C02.3", fi.fq,
                          "the trace logger is invoked only by handle_return", construct=norm(x), node=x)
    ctx.floor("R-C02.3", "store into self.traces", n_store, 1)
    ctx.floor("R-C02.3", "removal from self.traces", n_del, 1)
    ctx.floor("R-C02.3", "self.logger.log call", n_log, 1)


def _is_code_of(e: ast.AST, g: CFG, at: int, var: str) -> bool:
    """e denotes `<var>.__code__` (directly, via getattr, via a local)."""
    for root, kind, _ in g.origins(e, at):
        if isinstance(root, ast.Attribute) and root.attr == "__code__" and dotted(root.value) == var:
            continue
        if is_call_to(root, "getattr") and len(root.args) >= 2 and dotted(root.args[0]) == var and isinstance(root.args[1], ast.Constant) and root.args[1].value == "__code__":
            continue
        return False
    return True


def rule_attribution(ctx: Ctx, repo: Repo) -> None:
    """R-C02.4: every function get_func can return was selected by `its __code__ is code`."""
    # get_func and whatever it delegates to (helpers, strategy tables, a search object): interpreted on worlds of program
    # objects - the function under the name in globals, methods of every kind on the first argument's class, static methods
    # of global classes, closures held by calling frames, decorator chains - each with a same-named function of ANOTHER code
    # object placed where it is met first.  The value returned is the function whose __code__ IS the frame's code, or None
    # where no such function can be reached.
    from . import lookup_model as LM
    try:
        results = LM.attribution_results(repo)
    except AnalysisError as e:
        ctx.note(f"R-C02.4: the look-up is not interpretable here ({str(e)[:120]}); decided by provenance of the returned values instead")
        results = None
    if results is not None:
        fns, _ = LM.lookup_closure(repo)
        ctx.functions.update(fns)
        n_found = 0
        for what, want, kind, res, _t in results:
            ok = kind == "return" and (res == want if want is not None else (isinstance(res, K) and res.v is None))
            if want is not None and ok:
                n_found += 1
            got = "an exception " + str(res)[:60] if kind != "return" else ("None" if isinstance(res, K) and res.v is None else
                                                                            (res.fields["ident"].v if hasattr(res, "fields") and "ident" in res.fields else str(res)[:60]))
            ctx.check(ok, "R-C02.4", repo.fn(M, "get_func").fq, f"the look-up attributes a frame to the function whose code it runs: {what}",
                      construct=f"{what}: got {got}", reason=f"expected {'the function whose __code__ is the frame code' if want is not None else 'None'}, got {got}")
        ctx.count("R-C02.4:look-up worlds", len(results))
        ctx.floor("R-C02.4", "worlds in which the running function is found", n_found, 10)
        return
    # ---- the look-up is not interpretable: the former dataflow form of the rule ----
    hc = code_selector(repo, ctx)
    g = cfg_of(hc)
    ctx.functions.add(hc.fq)
    params = hc.positional_params()
    if len(params) != 2:
        raise AnalysisError("_has_code signature changed")
    fparam, cparam = params
    n_nonnull = 0
    for n, val in returns_of(hc):
        if is_none(val):
            continue
        n_nonnull += 1
        v = dotted(val)
        ok = False
        if v is not None:
            for cn, pol in g.guards(n.id):
                a = cn.ast
                if pol and isinstance(a, ast.Compare) and len(a.ops) == 1 and isinstance(a.ops[0], ast.Is):
                    l, r = a.left, a.comparators[0]
                    for x, y in ((l, r), (r, l)):
                        if dotted(y) == cparam and _is_code_of(x, g, cn.id, v) and g.same_value(ast.Name(id=v), cn.id, n.id):
                            # the compared code object must be the parameter itself
                            if all(k == "param" for _, k, _ in g.origins(y, cn.id)):
                                ok = True
        ctx.check(ok, "R-C02.4", hc.fq, "_has_code returns a function only under `<that function>.__code__ is code`",
                  construct=norm(n.ast), node=n.ast)
    ctx.floor("R-C02.4", "non-None return of _has_code", n_nonnull, 1)

    # get_func_in_mro / get_func (and any helper they delegate to): every returned value is None or was selected by
    # _has_code(<candidate>, <the code object in question>)
    memo: Dict[Tuple[str, str, str], Tuple[bool, str]] = {}

    def denotes_code(fi: FunctionInfo, g: Any, e: ast.AST, at: int, desc: Tuple[str, str]) -> bool:
        roots = g.origins(e, at)
        if not roots:
            return False
        for r, kind, _ in roots:
            if desc[0] == "param":
                if not (kind == "param" and isinstance(r, ast.Name) and r.id == desc[1]):
                    return False
            else:
                if not (isinstance(r, ast.Attribute) and r.attr == "f_code" and denotes_frame(fi, g, r.value, at, desc[1])):
                    return False
        return True

    def denotes_frame(fi: FunctionInfo, g: Any, e: ast.AST, at: int, fname: str) -> bool:
        roots = g.origins(e, at)
        return bool(roots) and all(kind == "param" and isinstance(r, ast.Name) and r.id == fname for r, kind, _ in roots)

    def selected(fi: FunctionInfo, desc: Tuple[str, str], depth: int = 0) -> Tuple[bool, str]:
        key = (fi.fq, desc[0], desc[1])
        if key in memo:
            return memo[key]
        memo[key] = (True, "")  # recursion: assume, then confirm
        if fi is hc:
            res = (desc == ("param", cparam), "" if desc == ("param", cparam) else "_has_code is given the code object in another position")
            memo[key] = res
            return res
        if depth > 4:
            memo[key] = (False, "delegation deeper than 4 calls")
            return memo[key]
        g = cfg_of(fi)
        ctx.functions.add(fi.fq)
        for n, val in returns_of(fi):
            if val is None or is_none(val):
                continue
            for root, kind, at in g.origins(val, n.id):
                if is_none(root):
                    continue
                if not isinstance(root, ast.Call):
                    memo[key] = (False, f"`{norm(root)}` ({kind}) is returned without going through _has_code")
                    return memo[key]
                callee = repo.resolve_callee(fi, root)
                if callee is None or not callee.fq.startswith("monkeytype."):
                    memo[key] = (False, f"`{norm(root)[:60]}` is returned without going through _has_code")
                    return memo[key]
                from mtsa.index import bind_args
                b = bind_args(callee, root, skip_self=callee.cls is not None and "staticmethod" not in callee.decorators())
                sub: Optional[Tuple[str, str]] = None
                for pn, a in b.items():
                    if pn.startswith("*"):
                        continue
                    if denotes_code(fi, g, a, at, desc):
                        sub = ("param", pn)
                        break
                if sub is None and desc[0] == "frame":
                    for pn, a in b.items():
                        if not pn.startswith("*") and denotes_frame(fi, g, a, at, desc[1]):
                            sub = ("frame", pn)
                            break
                if sub is None:
                    memo[key] = (False, f"`{norm(root)[:80]}` is not given the code object in question")
                    return memo[key]
                ok, why = selected(callee, sub, depth + 1)
                if not ok:
                    memo[key] = (False, why)
                    return memo[key]
        return memo[key]

    gm = repo.fn(M, "get_func_in_mro")
    ok, why = selected(gm, ("param", gm.positional_params()[1]))
    ctx.check(ok, "R-C02.4", gm.fq, "get_func_in_mro returns only _has_code(candidate, code) or None", construct=why or "all value returns", reason=why)
    gf = repo.fn(M, "get_func")
    n_ret = sum(1 for _, v in returns_of(gf) if v is not None and not is_none(v))
    ok, why = selected(gf, ("frame", gf.positional_params()[0]))
    ctx.check(ok, "R-C02.4", gf.fq, "every value get_func returns comes from _has_code/get_func_in_mro applied to frame.f_code",
              construct=why or "all value returns", reason=why)
    ctx.floor("R-C02.4", "value return of get_func", n_ret, 1)

    # _get_func's cache: decided on histories with real dict semantics (tracer_attribution_history): the function a
    # call is attributed to is the one of its own frame, whatever equal-looking code object was resolved before


def rule_arg_capture(ctx: Ctx, repo: Repo) -> None:
    """R-C02.5: handle_call on a structured first-entry scenario records exactly the named
    parameters (co_varnames[:argcount+kwonlyargcount]) that are bound, with get_type of the
    frame's own locals, and stores CallTrace(func, arg_types) under the frame."""
    import types as _t
    src = "def f(p, /, a, *args, k, **kwargs):\n    local = 1\n    return local\n"
    code = [c for c in compile(src, "<corpus>", "exec").co_consts if isinstance(c, _t.CodeType)][0]
    import dis
    entry = [i for i in dis.get_instructions(code) if i.opname == "RESUME"][0]
    p = Point(src, code, entry.offset, "RESUME", "entry")
    fi = repo.method(repo.cls(M, "CallTracer"), "handle_call")
    ctx.functions.add(fi.fq)
    fname = fi.positional_params()[1]
    named = ("p", "a", "k")
    variadic = ("args", "kwargs")
    for missing, extras in ((None, False), ("k", False), (None, True)):
        # the variadic collectors hold what they hold in a real frame: a tuple / a dict (with extra arguments in the last scenario)
        coll = {"args": K((S("val:x1"), S("val:x2")) if extras else ()), "kwargs": R("dict", items=((K("kw1"), S("val:kw1")),) if extras else ())}
        items = tuple((K(nm), coll.get(nm, S("val:" + nm))) for nm in code.co_varnames if nm != missing)
        sc = TracerScenario(repo, "handle_call", {"sample_rate": K(None)}, trace_in_table=K(None),
                            func_value=S("func"), cache_hit=False)
        outs = sc.run({fname: frame_value(p, f_locals=R("dict", items=items))})
        if len(outs) != 1:
            raise AnalysisError(f"handle_call: {len(outs)} outcomes in the capture scenario")
        effs = relevant(outs[0].effects)
        crashes = [e for e in effs if e[0] in ("KeyError", "IndexError")]
        ctx.check(not crashes, "R-C02.5", fi.fq, "a named parameter absent from f_locals is skipped, not fatal",
                  construct=f"{crashes}")
        stores = [e for e in effs if e[0] == "setitem" and e[1] == "self.traces"]
        if not ctx.check(len(stores) == 1, "R-C02.5", fi.fq, "first entry of a resolvable, sampled call creates exactly one in-flight trace",
                         construct=f"stores into self.traces: {len(stores)}"):
            continue
        _, _, key, tr = stores[0]
        ctx.check(isinstance(key, R) and key.kind == "frame", "R-C02.5", fi.fq, "in-flight trace is keyed by the frame", construct=f"key {key}")
        if not ctx.check(isinstance(tr, R) and tr.kind == "trace" and tr.fields.get("new") == K(True), "R-C02.5", fi.fq,
                         "the stored value is a new CallTrace", construct=f"value {tr}"):
            continue
        ctx.check(tr.fields["func"] == S("func"), "R-C02.4", fi.fq,
                  "the trace is attributed to the function resolved for this frame's code", construct=f"func={tr.fields['func']}")
        at = tr.fields["arg_types"]
        if not ctx.check(isinstance(at, R) and at.kind == "dict", "R-C02.5", fi.fq, "arg_types is a dict built from the frame", construct=f"{at}"):
            continue
        got = {k.v: v for k, v in at.fields["items"] if isinstance(k, K)}
        expected = [n for n in named if n != missing]
        for nm in expected:
            ctx.check(nm in got and got[nm] == R("typeof", of=S("val:" + nm)), "R-C02.5", fi.fq,
                      f"named parameter `{nm}` (positional-only / regular / keyword-only) is recorded with get_type of its own local",
                      construct=f"arg_types[{nm!r}] = {got.get(nm)}")
        extra = set(got) - set(expected)
        # *args / **kwargs are not named parameters: a type recorded under their name would be rendered as the annotation
        # of every extra argument (`*args: Tuple[int, int]`), which the observed extra arguments do not belong to
        ctx.check(not extra, "R-C02.5", fi.fq, "nothing but the named parameters is recorded as an argument (no variadic collector, no local)",
                  construct=f"extra names {sorted(extra)}" + (" (variadic collectors)" if extra and extra <= set(variadic) else ""))
        for e in effs:
            if e[0] == "get_type":
                ctx.check(e[2] == S("self.max_typed_dict_size"), "R-C02.5", fi.fq,
                          "get_type receives the tracer's max_typed_dict_size", construct=f"get_type(.., {e[2]})")


def rule_no_overwrite(ctx: Ctx, repo: Repo) -> None:
    """R-C02.3: a 'call' event of a frame that already has an in-flight trace (resumption after a yield / await,
    or an exception thrown into the suspended frame) never replaces or mutates that trace."""
    _, call_points = corpus_points()
    fi = repo.method(repo.cls(M, "CallTracer"), "handle_call")
    fname = fi.positional_params()[1]
    locs = R("dict", items=((K("x"), S("val:x")), (K("y"), S("val:y")), (K("i"), S("val:i"))))
    n = 0
    for p in call_points:
        for rate, draw in ((None, None), (1, 0), (3, 0)):
            sc = TracerScenario(repo, "handle_call", {"sample_rate": K(rate)}, trace_in_table=_trace(), func_value=S("func"),
                                draw=K(draw) if draw is not None else None, cache_hit=True)
            outs = sc.run({fname: frame_value(p, f_locals=locs)})
            if len(outs) != 1:
                raise AnalysisError("handle_call forked")
            effs = relevant(outs[0].effects)
            bad = [e for e in effs if (e[0] in ("setitem", "delitem") and e[1] == "self.traces") or e[0].startswith("trace.") or e[0] == "setattr" or e[0].startswith("logger.")]
            n += 1
            ctx.check(not bad, "R-C02.3", fi.fq, "a call event of a frame with an in-flight trace leaves that trace untouched",
                      construct=f"{p.kind} at {p.opname} (rate={rate}): {[e[0] for e in bad]}")
    ctx.floor("R-C02.3", "call events of already-traced frames", n, 60)


def rule_no_late_start(ctx: Ctx, repo: Repo) -> None:
    """R-C02.13: a 'call' event that is a *resumption* (after a yield / await, or an exception thrown into / close() of the
    suspended frame, which arrives at YIELD_VALUE) of a frame WITHOUT an in-flight trace - entered before tracing began, or
    not admitted at its first entry - starts no trace: the frame's locals at that moment are not the values bound to the
    parameters when the call started, and the call was never admitted."""
    _, call_points = corpus_points()
    fi = repo.method(repo.cls(M, "CallTracer"), "handle_call")
    fname = fi.positional_params()[1]
    locs = R("dict", items=((K("x"), S("val:x")), (K("y"), S("val:y")), (K("i"), S("val:i"))))
    n = 0
    for p in call_points:
        if p.kind != "resume":
            continue
        for rate, draw in ((None, None), (1, 0), (3, 0)):
            sc = TracerScenario(repo, "handle_call", {"sample_rate": K(rate)}, trace_in_table=K(None), func_value=S("func"),
                                draw=K(draw) if draw is not None else None, cache_hit=False)
            outs = sc.run({fname: frame_value(p, f_locals=locs)})
            if len(outs) != 1:
                raise AnalysisError("handle_call forked")
            effs = relevant(outs[0].effects)
            bad = [e for e in effs if (e[0] == "setitem" and e[1] == "self.traces") or e[0] in ("CallTrace", "get_type")]
            n += 1
            ctx.check(not bad, "R-C02.13", fi.fq,
                      "a resumption of a frame without an in-flight trace starts no trace (its locals are no longer the values bound when the call started)",
                      construct=f"resume at {p.opname} after `{p.src.strip().splitlines()[1].strip()}` (rate={rate}): {sorted(set(e[0] for e in bad))}")
    ctx.floor("R-C02.13", "resumptions of untraced frames", n, 24)


def rule_dispatch(ctx: Ctx, repo: Repo) -> None:
    """R-C02.7: __call__ dispatches `call` events to handle_call only and `return` events to
    handle_return only, with the event's own frame and arg."""
    fi = repo.method(repo.cls(M, "CallTracer"), "__call__")
    ctx.functions.add(fi.fq)
    ps = fi.positional_params()
    if len(ps) != 4:
        raise AnalysisError("CallTracer.__call__ signature changed")
    _, pframe, pevent, parg = ps
    mod = fi.module
    ev_call = mod.constants.get("EVENT_CALL")
    ev_ret = mod.constants.get("EVENT_RETURN")
    for event, expect in (("call", "handle_call"), ("return", "handle_return"), ("c_call", None), ("exception", None), ("c_return", None)):
        sc = TracerScenario(repo, "__call__", {"should_trace": K(None)}, may_fork=())
        calls: List[Tuple[str, Tuple[V, ...]]] = []

        def hook(call, fname, fval, args, kwargs, st, _calls=calls, _sc=sc):
            if isinstance(fval, S) and fval.name == "self" and isinstance(call.func, ast.Attribute) and call.func.attr in ("handle_call", "handle_return"):
                _calls.append((call.func.attr, tuple(args)))
                return K(None)
            return TracerScenario.call_hook(_sc, call, fname, fval, args, kwargs, st)

        sc.ri.call_hook = hook
        fr = R("frame", f_code=R("code", co_name=K("f"), co_filename=K("/src/app.py")))
        outs = sc.run({pframe: fr, pevent: K(event), parg: S("arg")})
        if len(outs) != 1:
            raise AnalysisError("__call__: forked")
        if expect is None:
            ctx.check(not calls, "R-C02.7", fi.fq, f"event {event!r} is ignored", construct=f"{event}: {calls}")
        else:
            want_args = (fr,) if expect == "handle_call" else (fr, S("arg"))
            ctx.check(calls == [(expect, want_args)], "R-C02.7", fi.fq,
                      f"event {event!r} is dispatched to {expect} once with the event's frame{'' if expect == 'handle_call' else ' and value'}",
                      construct=f"{event}: {calls}")
        term = outs[0].term
        ctx.check(term is not None and term[0] == "return" and term[1] == S("self"), "R-C02.7", fi.fq,
                  "the profile function returns itself (stays installed)", construct=f"{event}: returns {term}")


def rule_no_residue_on_failure(ctx: Ctx, repo: Repo) -> None:
    """R-C02.11: "afterwards the tracer keeps no per-call state" also when collecting the type of the returned value fails (a
    container that holds itself: RecursionError; a class whose introspection raises): at every event that ENDS a frame -
    value return, exception exit - the in-flight entry of the frame is gone when handle_return is left, whether get_type
    returned or raised.  (The failure itself is contained by the profile function, R-C03.2; the frame never comes back, so an
    entry left behind stays for the life of the tracer, together with the frame and everything it references.)"""
    from mtsa.absint import raise_exc
    ret_points, _ = corpus_points()
    fi = repo.method(repo.cls(M, "CallTracer"), "handle_return")
    ctx.functions.add(fi.fq)
    params = fi.positional_params()
    n = 0
    for p in ret_points:
        if p.kind not in ("return", "exception"):
            continue
        sc = TracerScenario(repo, "handle_return", {}, trace_in_table=_trace())
        base = sc.ri.call_hook

        def hook(call, fname, fval, args, kwargs, st, _b=base, _sc=sc):
            callee = None
            try:
                callee = _sc.ri.resolve(call, fval)
            except Exception:
                callee = None
            if callee is not None and callee.qualname.split(".")[-1] == "get_type":
                raise_exc(st, "RecursionError")
                return U("get_type failed")
            return _b(call, fname, fval, args, kwargs, st)

        sc.ri.call_hook = hook
        outs = sc.run({params[1]: frame_value(p), params[2]: S("arg")})
        if len(outs) != 1:
            raise AnalysisError(f"handle_return: {len(outs)} outcomes with a failing get_type")
        effs = relevant(outs[0].effects)
        dels = [e for e in effs if e[0] == "delitem" and e[1] == "self.traces"]
        n += 1
        ctx.check(len(dels) == 1, "R-C02.11", fi.fq,
                  "when a frame ends, its in-flight entry is removed whether or not the type of the returned value could be collected",
                  construct=f"{p.kind}@{p.opname}: get_type raises RecursionError (the value holds itself): {'the entry stays in self.traces' if not dels else dels}; effects {_kinds(effs)}",
                  point=p.label())
    ctx.floor("R-C02.11", "frame-ending events with a failing type collection", n, 20)


def rule_yield_accumulation(ctx: Ctx, repo: Repo) -> None:
    """R-C02.12: "the yield type covers every value the function yielded and nothing else": CallTrace.add_yield_type is
    interpreted over sequences of yielded types (plain classes, containers whose PARAMETERS are classes that are yielded later,
    `Type[C]` then `C`, repetitions, None) on one trace object; the result must be the union of exactly the distinct types
    added - typing.Union's own normal form (flattened, duplicates dropped)."""
    from . import rw_model as RW
    from .rw_model import g, union, members, show
    ci = repo.cls(M, "CallTrace")
    fi = repo.method(ci, "add_yield_type")
    if fi is None:
        raise AnalysisError("CallTrace.add_yield_type not found")
    ctx.functions.add(fi.fq)
    i, s_, n_, b_ = RW.INT, RW.STR, RW.NONE_T, RW.BASE
    seqs = [
        [i], [i, i], [i, s_], [i, s_, i], [i, s_, n_], [n_, i],
        [g("List", i), i], [g("Tuple", s_, i), s_], [g("Dict", i, RW.FLT), RW.FLT], [g("Type", b_), b_], [g("List", i), g("List", s_), i, s_],
        [union(i, s_), s_], [g("List", union(i, s_)), i, s_], [i, g("List", i)], [g("Set", i), g("Set", i), i],
        [RW.cls("class:Registry"), i], [i, RW.cls("class:Registry")],
    ]

    class _Sc(RW.RewriterScenario):
        def __init__(self, repo_: Repo) -> None:  # the rewriter model's typing algebra (Union[...], __args__, generics) around another class
            self.repo = repo_
            self.ci = ci
            self.fi = fi
            self.attrs = {}
            from .common import RepoInterp
            self.ri = RepoInterp(repo_, fi, inline={f.fq for f in ci.methods.values()}, call_hook=self.call_hook, may_fork=(), heap=True, max_depth=8)
            self.ri.self_class = ci
            self.ri.on_attr = self.on_attr  # type: ignore[method-assign]
            self.ri.interp.on_attr = self.on_attr
            self.ri.on_subscript = self.on_subscript  # type: ignore[method-assign]
            self.ri.interp.on_subscript = self.on_subscript

        def call_hook(self, call, fname, fval, args, kwargs, st):  # type: ignore[override]
            if (fname or "").split(".")[-1] == "cast" and len(args) == 2:
                return args[1]
            return RW.RewriterScenario.call_hook(self, call, fname, fval, args, kwargs, st)

    n = 0
    for seq in seqs:
        st0 = State()
        obj = st0.alloc("obj", {"__class__": K(ci.fq), "func": S("func"), "arg_types": K(()), "return_type": K(None), "yield_type": K(None)})
        carry: Optional[State] = st0
        for t in seq:
            sc = _Sc(repo)
            outs = sc.ri.run({"self": obj, fi.positional_params()[1]: t}, carry=carry)
            if len(outs) != 1:
                raise AnalysisError(f"add_yield_type: {len(outs)} outcomes")
            carry = outs[0]
            if carry.term is not None and carry.term[0] == "raise":
                break
            carry.term = None
        n += 1
        got = carry.freeze(carry.deref(obj)["yield_type"]) if carry is not None else None
        want = union(*seq)
        lab = " then ".join(show(t) for t in seq)
        raised = carry is not None and carry.term is not None and carry.term[0] == "raise"
        ok = not raised and got is not None and sorted(map(repr, members(got))) == sorted(map(repr, members(want)))
        ctx.check(ok, "R-C02.12", fi.fq, "the yield type of a trace is the union of exactly the types of the values yielded so far",
                  construct=f"yields typed {lab}: recorded {show(got) if got is not None and not raised else (carry.term if carry else None)}, expected {show(want)}")
    ctx.floor("R-C02.12", "sequences of yielded types", n, 12)


def run(ctx: Ctx, repo: Repo, tier: str) -> None:
    ctx.trust(*TRUSTED)
    ctx.assume("sys.setprofile delivers one 'call' per frame entry/resumption and one 'return' per exit/suspension")
    ctx.attempt(rule_return_table, ctx, repo)
    ctx.attempt(rule_who_may_write, ctx, repo)
    ctx.attempt(rule_attribution, ctx, repo)
    ctx.attempt(rule_arg_capture, ctx, repo)
    ctx.attempt(rule_no_overwrite, ctx, repo)
    ctx.attempt(rule_no_late_start, ctx, repo)
    ctx.attempt(rule_no_residue_on_failure, ctx, repo)
    ctx.attempt(rule_yield_accumulation, ctx, repo)
    ctx.attempt(rule_dispatch, ctx, repo)
    from .memo_rules import tracer_no_memory
    ctx.attempt(tracer_no_memory, ctx, repo, "R-C02.8")
    from .memo_rules import infer_no_memory
    ctx.attempt(infer_no_memory, ctx, repo, "R-C02.8")
    from .memo_rules import tracer_attribution_history
    ctx.attempt(tracer_attribution_history, ctx, repo, "R-C02.4")
    # the last link of "logged exactly once" in the shipped configuration: the store logger keeps every trace it is handed
    # (R-C17.2, whatever was observed for the call; only __main__ is dropped, which is C17's business)
    from . import c17 as _c17
    ctx.attempt(_c17.rule_main_gate, ctx, repo)
    # nested / sequential tracing blocks with real tracer objects: a call is logged exactly once, to the innermost block's logger
    from .blocks_model import rule_blocks
    ctx.attempt(rule_blocks, ctx, repo, "R-C06.7", "R-C02.10")
    ctx.settle()
