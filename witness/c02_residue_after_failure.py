"""Witness (run by hand): a function returns a list that contains itself; typing the value raises RecursionError inside
handle_return BEFORE the in-flight entry is removed: the entry (with the frame and everything it references) stays in
tracer.traces although the call is over.
    cd /verif/witness && PYTHONPATH=/repo /venv/bin/python c02_residue_after_failure.py      (exit 1 while the defect is present)"""
import sys, logging
logging.disable(logging.CRITICAL)
from monkeytype.tracing import CallTracer, CallTraceLogger


class L(CallTraceLogger):
    def __init__(self): self.n = 0
    def log(self, trace): self.n += 1


def cyclic(x):
    lst = [x]
    lst.append(lst)
    return lst


lg = L()
tracer = CallTracer(lg, 0)
sys.setprofile(tracer)
cyclic(1)
sys.setprofile(None)
left = len(tracer.traces)
print("entries left in tracer.traces after the call ended:", left, "- logged:", lg.n)
print("WITNESSED: per-call state stays behind" if left else "not present")
sys.exit(1 if left else 0)
