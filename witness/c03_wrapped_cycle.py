"""C03: `_has_code` follows `__wrapped__` until it finds None.  A chain that never ends - a function that is its own `__wrapped__`
(`f.__wrapped__ = f`, what a careless decorator stack or a mock produces), or a proxy object that answers every attribute with
another proxy - makes the tracer loop forever inside the profile callback: the traced program hangs at the first call whose
look-up meets the object (inspect.unwrap raises ValueError on such cycles).

Run by hand:  /venv/bin/python /verif/witness/c03_wrapped_cycle.py   (exit 0 = the traced program finishes)"""
import os, signal, sys
sys.path.insert(0, os.environ.get("MT_REPO", "/repo"))
from monkeytype.tracing import trace_calls, CallTraceLogger


class L(CallTraceLogger):
    def log(self, t): pass


def run(): return 0
run.__wrapped__ = run          # a cycle of length one; the global is named like the method below


class C:
    def run(self): return 1


class Proxy:                   # answers everything, like unittest.mock.MagicMock or a lazy-import proxy
    def __getattr__(self, name): return Proxy()
    def __call__(self, *a): return None


def go(self): return 2


def timeout(sig, frm):
    print("HANG: the traced program did not get past the first call (tracer loops in _has_code)")
    os._exit(1)


signal.signal(signal.SIGALRM, timeout)
signal.alarm(5)
with trace_calls(L(), 0):
    assert C().run() == 1
globals()["go2"] = Proxy()
class D:
    def go2(self): return 3
with trace_calls(L(), 0):
    assert D().go2() == 3
signal.alarm(0)
print("ok")
