"""Witness for the known finding R-C17.3 (run by hand: /venv/bin/python witness/c17_code_equality.py).

CPython code objects compare equal (and hash alike) when they differ only in co_filename.
monkeytype.config.default_code_filter is wrapped in functools.lru_cache keyed by the code object,
so the verdict for a function of one file is handed out for the same function text at the same
lines of ANOTHER file: a vendored / generated / checked-out copy of a library module is rejected
(or a library copy of user code admitted), depending on which was seen first."""
import importlib.util, os, sys, tempfile, pathlib
import monkeytype.config as config

tmp = pathlib.Path(tempfile.mkdtemp()).resolve()
lib, user = tmp / "lib" / "pkg", tmp / "user" / "pkg"
for d in (lib, user):
    d.mkdir(parents=True)
    (d / "mod.py").write_text("def f(x):\n    return x\n")

def load(path, name):
    spec = importlib.util.spec_from_file_location(name, path)
    m = importlib.util.module_from_spec(spec)
    spec.loader.exec_module(m)
    return m

a, b = load(lib / "mod.py", "lib_mod"), load(user / "mod.py", "user_mod")
assert a.f.__code__ == b.f.__code__ and a.f.__code__ is not b.f.__code__
config.LIB_PATHS = config.LIB_PATHS + (tmp / "lib",)   # pretend <tmp>/lib is a library root
getattr(config.default_code_filter, "cache_clear", lambda: None)()
first = config.default_code_filter(a.f.__code__)       # library copy first
second = config.default_code_filter(b.f.__code__)      # user copy: must be admitted
print("library copy admitted:", first, "| user copy admitted:", second)
assert first is False
if second is not True:
    print("WITNESSED: the user copy got the library copy's verdict")
    sys.exit(1)
print("OK")
