"""C10 - stale or undecodable stored traces are skipped, never fatal (static clauses).

R-C10.1  the tolerant handler: get_stub decodes thunk by thunk; a failure of the tolerated class is counted and
         reported, the decodable rows still reach stub generation, in order
R-C10.2  every stale-row kind makes CallTraceRow.to_trace raise a subclass of the tolerated class (exception-escape
         analysis by abstract interpretation of to_trace in a world where the name is gone / rebound)
R-C10.3  traced parameter names that no longer exist are ignored when the signature is updated
R-C10.4  success status and the no-traces message
"""
from __future__ import annotations

import ast
from typing import Any, Dict, List, Optional, Tuple

from mtsa.absint import K, R, Ref, S, U, V, State, exc_is
from mtsa.cfg import _is_catch_all
from mtsa.index import Repo, calls_in, dotted, norm, walk_no_nested
from mtsa.report import AnalysisError, Ctx

from . import codec_model as CM
from .codec_model import ENC, CodecScenario, World, exception_hierarchy, show
from .common import RepoInterp, cfg_of, is_call_to, returns_of

LEVEL = "proof"
LEVEL_TEXT = (
    "Complete decision, over an enumerated obligation set, of the clause 'a stale row is converted into the tolerated "
    "exception and skipped': obligations = (stale kind x position of the stale name in the row) for R-C10.2 and "
    "(outcome sequence of a batch of rows x verbosity) for R-C10.1, each discharged by abstract interpretation of the "
    "repository source; plus the status/message paths of the handlers. The trusted base is the catalogue of what "
    "importlib.import_module / getattr raise for a missing name."
)
EXPLANATION = (
    "Exception-escape analysis for C10 by abstract interpretation (nothing is executed): rows are produced by interpreting "
    "CallTraceRow.from_trace in an intact abstract world and decoded by interpreting CallTraceRow.to_trace in a world where "
    "one name is stale - module removed, submodule removed, function removed, function replaced by a non-function / a class "
    "/ a settable property / a getter-less property, argument / return / yield class removed (also nested inside generics and "
    "TypedDicts), class name rebound to a non-type, function defined in a local scope. importlib.import_module and getattr "
    "raise ModuleNotFoundError / AttributeError from the world; the outcome of to_trace must be an exception whose class is "
    "a subclass (hierarchy read from monkeytype/exceptions.py) of the class cli.get_stub's handler catches. get_stub itself "
    "is interpreted for every sequence of <=3 good/stale rows x verbose on/off: good rows reach "
    "build_module_stubs_from_traces in order, stale rows are counted, reported per row with -v and summarised otherwise, "
    "and nothing decodable means None -> 'No traces found'. main returns non-zero only for HandlerError / missing command."
)
CLI = "monkeytype.cli"


def _row(repo: Repo, world: World, trace: R) -> R:
    ft = repo.fn(ENC, "CallTraceRow.from_trace")
    k, row = CodecScenario(repo, ENC, "CallTraceRow.from_trace", world).result(
        {ft.positional_params()[0]: S("class:monkeytype.encoding.CallTraceRow"), ft.positional_params()[1]: trace})
    if k != "return":
        raise AnalysisError(f"from_trace failed in the intact world: {row}")
    return row


def _intact() -> Tuple[World, R]:
    w = World()
    f = CM.func("pkg.mod", "User.method")
    w.add("pkg.mod", "User.method", f)
    w.add("pkg.mod", "helper", CM.func("pkg.mod", "helper"))
    return w, f


def tolerated_class(repo: Repo) -> Tuple[str, ast.ExceptHandler, ast.Try]:
    """the exception class caught around thunk.to_trace() in get_stub (or in a helper of cli.py it calls)"""
    gs = repo.fn(CLI, "get_stub")
    todo, seen = [gs], set()
    while todo:
        fi = todo.pop(0)
        if fi.fq in seen:
            continue
        seen.add(fi.fq)
        for t in [x for x in walk_no_nested(fi.node) if isinstance(x, ast.Try)]:
            if any(isinstance(c.func, ast.Attribute) and c.func.attr == "to_trace" for s in t.body for c in calls_in(s)):
                if len(t.handlers) != 1:
                    raise AnalysisError("get_stub: the decoding try has not exactly one handler")
                h = t.handlers[0]
                if h.type is None:
                    return "BaseException", h, t
                return (dotted(h.type) or norm(h.type)).split(".")[-1], h, t
        for c in calls_in(fi.node):
            callee = repo.resolve_callee(fi, c)
            if callee is not None and callee.module.name == CLI:
                todo.append(callee)
    raise AnalysisError("get_stub: no try block around thunk.to_trace()")


def rule_conversion(ctx: Ctx, repo: Repo) -> Dict[str, str]:
    tol, _, _ = tolerated_class(repo)
    hier = exception_hierarchy(repo)
    tt = repo.fn(ENC, "CallTraceRow.to_trace")
    ctx.functions.update({tt.fq, "monkeytype.util.get_func_in_module", "monkeytype.util.get_name_in_module", f"{ENC}.type_from_dict",
                          f"{ENC}.typed_dict_from_dict", f"{ENC}.arg_types_from_json", f"{ENC}.maybe_decode_type"})
    outcomes: Dict[str, str] = {}
    base_world, f = _intact()
    USER, OTHER, NESTED = CM.USER, CM.OTHER, CM.NESTED

    def trace(arg: V = CM.INT, ret: V = CM.NONE_T, yld: V = K(None), fn: R = f) -> R:
        return R("trace", func=fn, arg_types=R("dict", items=((K("a"), arg),)), return_type=ret, yield_type=yld)

    scenarios: List[Tuple[str, R, Any]] = []
    # (name, trace encoded in the intact world, mutation of the world)
    scenarios.append(("module removed", trace(), lambda w: (w.remove("pkg.mod"), w.remove("pkg"))))
    scenarios.append(("submodule removed (package still there)", trace(), lambda w: w.remove("pkg.mod")))
    scenarios.append(("function removed", trace(), lambda w: w.remove("pkg.mod", "User.method")))
    scenarios.append(("class of the method removed", trace(), lambda w: (w.remove("pkg.mod", "User"), w.remove("pkg.mod", "User.method"))))
    scenarios.append(("function replaced by a non-function value", trace(), lambda w: w.add("pkg.mod", "User.method", R("value", v=K(3)))))
    scenarios.append(("function replaced by a class", trace(), lambda w: w.add("pkg.mod", "User.method", CM.cls("pkg.mod", "User.method"))))
    scenarios.append(("function replaced by a callable object (an instance with __call__)", trace(), lambda w: w.add("pkg.mod", "User.method", R("callable_obj", __module__=K("pkg.mod")))))
    scenarios.append(("function replaced by an object that answers every attribute (a lazy proxy, a recording test double: `__wrapped__` is again such an object)", trace(),
                      lambda w: w.add("pkg.mod", "User.method", R("proxy", __module__=K("pkg.mod")))))
    scenarios.append(("the function's module still exists but no longer imports (it does `from x import name` for a name that was removed: ImportError, not ModuleNotFoundError)", trace(),
                      lambda w: setattr(w, "import_errors", {"pkg.mod"})))
    scenarios.append(("the module of an argument's class no longer imports (ImportError)", trace(arg=OTHER),
                      lambda w: setattr(w, "import_errors", {"pkg.other"})))
    scenarios.append(("function replaced by a builtin function (`name = max`: never a traced function, and without an introspectable signature)", trace(),
                      lambda w: w.add("pkg.mod", "User.method", R("builtinfunc", __module__=K("builtins"), __qualname__=K("max"), __name__=K("max")))))
    scenarios.append(("function replaced by a settable property", trace(), lambda w: w.add("pkg.mod", "User.method", CM.prop(CM.func("pkg.mod", "User.method"), CM.func("pkg.mod", "User.method")))))
    scenarios.append(("function replaced by a property with a deleter", trace(), lambda w: w.add("pkg.mod", "User.method", CM.prop(CM.func("pkg.mod", "User.method"), None, CM.func("pkg.mod", "User.method")))))
    scenarios.append(("function replaced by a getter-less property", trace(), lambda w: w.add("pkg.mod", "User.method", CM.prop(None))))
    scenarios.append(("function defined in a local scope", trace(fn=CM.func("pkg.mod", "outer.<locals>.inner")), lambda w: w.add("pkg.mod", "outer", CM.func("pkg.mod", "outer"))))
    for pos, mk in (("argument", lambda t: trace(arg=t)), ("return", lambda t: trace(ret=t)), ("yield", lambda t: trace(yld=t))):
        scenarios.append((f"{pos} class removed", mk(OTHER), lambda w: w.remove("pkg.other", "Thing")))
        scenarios.append((f"{pos} class's module removed", mk(OTHER), lambda w: w.remove("pkg.other")))
        scenarios.append((f"{pos} class's top-level package removed (class four packages deep)", mk(CM.DEEP), lambda w: [w.remove(m_) for m_ in ("vendor", "vendor.db", "vendor.db.models", "vendor.db.models.types")]))
        scenarios.append((f"{pos} class's grand-parent package removed (class four packages deep)", mk(CM.DEEP), lambda w: [w.remove(m_) for m_ in ("vendor.db", "vendor.db.models", "vendor.db.models.types")]))
        scenarios.append((f"{pos} class's own module removed (class four packages deep)", mk(CM.DEEP), lambda w: w.remove("vendor.db.models.types")))
        scenarios.append((f"{pos} class removed (nested in List[...])", mk(CM.gen("List", OTHER)), lambda w: w.remove("pkg.other", "Thing")))
        scenarios.append((f"{pos} class removed (nested in Dict[str, Optional[...]])", mk(CM.gen("Dict", CM.STR, CM.gen("Union", OTHER, CM.NONE_T))), lambda w: w.remove("pkg.other", "Thing")))
        scenarios.append((f"{pos} class removed (field of a TypedDict)", mk(CM.anon_td({"k": OTHER})), lambda w: w.remove("pkg.other", "Thing")))
        scenarios.append((f"{pos} nested class removed", mk(NESTED), lambda w: w.remove("pkg.mod", "Outer.Inner")))
        scenarios.append((f"{pos} class name rebound to a non-type value", mk(OTHER), lambda w: w.add("pkg.other", "Thing", R("value", v=K(3)))))
        scenarios.append((f"{pos} class name rebound to a function", mk(OTHER), lambda w: w.add("pkg.other", "Thing", CM.func("pkg.other", "Thing"))))
        scenarios.append((f"{pos} class name rebound to a module", mk(OTHER), lambda w: w.add("pkg.other", "Thing", R("module", name=K("pkg.mod")))))
    for name, tr, mutate in scenarios:
        w0, _ = _intact()
        if tr.fields["func"] != f:
            w0.add("pkg.mod", "outer", CM.func("pkg.mod", "outer"))
        row = _row(repo, w0, tr)
        w1, _ = _intact()
        mutate(w1)
        k, res = CodecScenario(repo, ENC, "CallTraceRow.to_trace", w1).result({tt.positional_params()[0]: row})
        if k == "return":
            ctx.violate("R-C10.2", tt.fq, f"{name}: decoded to {str(res)[:100]}", "a stale row decodes as if it were valid (the stale name is not noticed)")
            continue
        ok = exc_is(res, tol, hier)
        outcomes[name] = res
        ctx.check(ok, "R-C10.2", tt.fq, f"a stale row raises a subclass of {tol}, which get_stub tolerates",
                  construct=f"{name}: to_trace raises {res} (not a {tol})", kind=name)
    ctx.floor("R-C10.2", "stale-row scenarios", len(scenarios), 30)
    # the same within ONE process: the row decoded fine a moment ago (e.g. an earlier `stub` call of a long-running tool, or
    # the previous row of the same function), then the name went away - the second decode must notice
    nh = 0
    for name, tr, mutate in scenarios:
        if tr.fields["func"] != f:
            continue
        w0, _ = _intact()
        row = _row(repo, w0, tr)
        sc1 = CodecScenario(repo, ENC, "CallTraceRow.to_trace", w0)
        k1, _r1 = sc1.result({tt.positional_params()[0]: row})
        if k1 != "return":
            continue
        w1, _ = _intact()
        mutate(w1)
        sc2 = CodecScenario(repo, ENC, "CallTraceRow.to_trace", w1)
        k2, res2 = sc2.result({tt.positional_params()[0]: row}, carry=sc1.last_state)
        nh += 1
        ctx.check(k2 == "raise" and exc_is(res2, tol, hier), "R-C10.2", tt.fq,
                  "a row whose name became stale after an earlier successful decode in the same process is still noticed (nothing resolved earlier is remembered)",
                  construct=f"{name}, after a successful decode of the same row: {k2} {str(res2)[:80]}", kind="history:" + name)
    ctx.floor("R-C10.2", "decode-then-stale histories", nh, 25)
    # and the other way round within one process: a row that cannot be decoded (one of ITS types is stale), then another row of
    # the SAME function whose own names all exist - the second is decodable and must decode (a failure remembered per
    # function or per module would drop it)
    ns = 0
    for name, tr, mutate in scenarios:
        if tr.fields["func"] != f or not name.startswith(("argument", "return", "yield")):
            continue
        w0, _ = _intact()
        row_bad = _row(repo, w0, tr)
        row_good = _row(repo, w0, trace(arg=CM.STR, ret=CM.INT))
        w1, _ = _intact()
        mutate(w1)
        sc1 = CodecScenario(repo, ENC, "CallTraceRow.to_trace", w1)
        k1, _r1 = sc1.result({tt.positional_params()[0]: row_bad})
        if k1 != "raise":
            continue
        sc2 = CodecScenario(repo, ENC, "CallTraceRow.to_trace", w1)
        k2, res2 = sc2.result({tt.positional_params()[0]: row_good}, carry=sc1.last_state)
        ns += 1
        ctx.check(k2 == "return", "R-C10.2", tt.fq,
                  "a decodable row decodes also right after an undecodable row of the same function in the same process (the output is what the decodable traces alone give)",
                  construct=f"{name}, then a row of the same function with existing types: {k2} {str(res2)[:80]}", kind="history-rev:" + name)
    ctx.floor("R-C10.2", "stale-then-decodable histories", ns, 20)
    # sanity of the model: the intact world decodes
    w0, _ = _intact()
    k, res = CodecScenario(repo, ENC, "CallTraceRow.to_trace", w0).result({tt.positional_params()[0]: _row(repo, w0, trace(arg=OTHER, ret=CM.gen("List", NESTED)))})
    ctx.check(k == "return", "R-C10.2", tt.fq, "a valid row decodes in the intact world (the analysis distinguishes stale from valid)", construct=f"{k} {res if k == 'raise' else ''}")
    # hierarchy facts
    for c in ("NameLookupError", "InvalidTypeError"):
        ctx.check(exc_is(c, tol, hier), "R-C10.2", "monkeytype.exceptions", f"{c} is a subclass of the tolerated class {tol}", construct=f"{c} -> {hier.get(c)}")
    return outcomes


def rule_get_stub(ctx: Ctx, repo: Repo) -> None:
    tol, handler, _ = tolerated_class(repo)
    hier = exception_hierarchy(repo)
    gs = repo.fn(CLI, "get_stub")
    ctx.functions.add(gs.fq)
    ps = gs.positional_params()
    import itertools
    for n in ((0, 1, 2, 3, 4) if TIER == "thorough" else (0, 1, 2, 3)):
        for pattern in itertools.product(("good", "NameLookupError", "InvalidTypeError"), repeat=n):
            for verbose in (False, True):
                thunks = K(tuple(R("thunk", id=K(i), outcome=K(o)) for i, o in enumerate(pattern)))
                # the parsed command line is an object (argparse.Namespace): code may hang state of its own on it
                st_args = State()
                args = st_args.alloc("obj", {"__class__": K("argparse.Namespace"), "module_path": K((K("pkg.mod"), K(None))), "limit": K(2000), "verbose": K(verbose),
                                             "disable_type_rewriting": K(False), "existing_annotation_strategy": S("strategy"), "sample_count": K(False), "config": S("config")})
                ri = RepoInterp(repo, gs, may_fork=(), heap=True)
                ri.interp.exc_parents = hier
                prints: List[Tuple[str, V]] = []
                built: List[Any] = []

                def hook(call, fname, fval, a, kw, st, _p=prints, _b=built, _t=thunks):
                    m = call.func.attr if isinstance(call.func, ast.Attribute) else None
                    if m == "filter":
                        return _t
                    if m == "to_trace" and isinstance(fval, R) and fval.kind == "thunk":
                        o = fval.fields["outcome"].v
                        if o == "good":
                            return R("decoded", id=fval.fields["id"])
                        # every stale row of one deleted function fails with the very same message
                        from mtsa.absint import raise_exc
                        raise_exc(st, o, message=K(f"Module 'pkg.mod' has no attribute 'gone' ({o})"))
                        return U("stale")
                    if fname == "print":
                        _p.append(("print", kw.get("file", K("stdout")), st.freeze(a[0]) if a else K("")))
                        return K(None)
                    if fname == "build_module_stubs_from_traces":
                        _b.append(st.freeze(a[0]))
                        return R("stubs")
                    if m == "get" and isinstance(fval, R) and fval.kind == "stubs":
                        return S("stub")
                    if m in ("trace_store", "type_rewriter", "max_typed_dict_size"):
                        return S("cfg." + m)
                    if fname == "NoOpRewriter":
                        return S("noop")
                    return None

                ri.call_hook = hook
                base_on_attr = ri.on_attr

                def on_attr_gs(obj, attr, node, st, _b=base_on_attr):
                    if isinstance(obj, S):
                        return S(f"{obj.name}.{attr}")
                    if isinstance(obj, R) and obj.kind == "thunk" and attr != "to_trace":
                        # what a store hands back is a CallTraceThunk: to_trace() is its whole contract (a custom store's thunks
                        # have no `module` / `qualname`)
                        st.pending = st.pending or "AttributeError"
                        return U(f"a CallTraceThunk has no attribute {attr}")
                    return _b(obj, attr, node, st)

                ri.on_attr = ri.interp.on_attr = on_attr_gs  # type: ignore[method-assign]
                outs = ri.run({ps[0]: args, ps[1]: K("stdout"), ps[2]: K("stderr")}, carry=st_args)
                if len(outs) != 1:
                    raise AnalysisError("get_stub forked")
                o = outs[0]
                lab = f"rows {list(pattern)} verbose={verbose}"
                good = [i for i, x in enumerate(pattern) if x == "good"]
                bad = [i for i, x in enumerate(pattern) if x != "good"]
                if o.term is not None and o.term[0] == "raise":
                    ctx.violate("R-C10.1", gs.fq, f"{lab}: raises {o.term[1]}", "a stale row is fatal for stub generation")
                    continue
                if not good:
                    ctx.check(o.term is not None and o.term[0] == "return" and o.term[1] == K(None) and not built, "R-C10.1", gs.fq,
                              "nothing decodable: get_stub reports None (the handlers then say that no traces were found)", construct=f"{lab}: {o.term}")
                else:
                    want = R("list", items=tuple(R("decoded", id=K(i)) for i in good))
                    ctx.check(built == [want] and o.term is not None and o.term[1] == S("stub"), "R-C10.1", gs.fq,
                              "exactly the decodable rows reach stub generation, in store order", construct=f"{lab}: built from {built}")
                err = [p for p in prints if p[1] == K("stderr")]
                if verbose:
                    ctx.check(len(err) == len(bad) and len(prints) == len(err), "R-C10.1", gs.fq, "with -v every skipped row is reported on the error stream",
                              construct=f"{lab}: {len(err)} message(s) for {len(bad)} skipped row(s)")
                else:
                    ctx.check(len(err) == (1 if bad else 0) and len(prints) == len(err), "R-C10.1", gs.fq,
                              "without -v the number of skipped rows is reported once on the error stream (and only if some were skipped)",
                              construct=f"{lab}: {len(err)} message(s) for {len(bad)} skipped row(s)")
                    if bad and len(err) == 1:
                        msg = err[0][2]
                        if not (isinstance(msg, K) and isinstance(msg.v, str)):
                            raise AnalysisError(f"get_stub: the summary message is not a foldable string ({msg})")
                        import re as _re
                        ctx.check(str(len(bad)) in _re.findall(r"\d+", msg.v), "R-C10.1", gs.fq,
                                  "the reported number is the number of skipped rows", construct=f"{lab}: message {msg.v!r}")


def rule_diff_reports(ctx: Ctx, repo: Repo) -> None:
    """R-C10.1 for `stub --diff`: the path that builds two stubs (get_diff with everything it calls in cli.py interpreted) on
    stores with stale rows - never fatal, both stubs are built from exactly the decodable rows, and the number of skipped rows
    (each row with -v) reaches the error stream at least once (this path may decode twice and say it twice), nothing else is printed"""
    hier = exception_hierarchy(repo)
    gd = repo.fn(CLI, "get_diff")
    ctx.functions.add(gd.fq)
    ps = gd.positional_params()
    import itertools
    import re as _re
    n = 0
    for k in (1, 2, 3):
        for pattern in itertools.product(("good", "NameLookupError", "InvalidTypeError"), repeat=k):
            if "good" not in pattern or all(x == "good" for x in pattern):
                continue  # nothing skipped / nothing decodable: decided on get_stub and on the handlers
            for verbose in (False, True):
                thunks = K(tuple(R("thunk", id=K(i), outcome=K(o)) for i, o in enumerate(pattern)))
                st_args = State()
                args = st_args.alloc("obj", {"__class__": K("argparse.Namespace"), "module_path": K((K("pkg.mod"), K(None))), "limit": K(2000), "verbose": K(verbose),
                                             "disable_type_rewriting": K(False), "existing_annotation_strategy": S("strategy"), "sample_count": K(False), "config": S("config"), "diff": K(True)})
                ri = RepoInterp(repo, gd, may_fork=(), heap=True)
                ri.interp.exc_parents = hier
                prints: List[Tuple[str, V]] = []
                built: List[Any] = []

                def hook(call, fname, fval, a, kw, st, _p=prints, _b=built, _t=thunks):
                    m = call.func.attr if isinstance(call.func, ast.Attribute) else None
                    if m == "filter":
                        return _t
                    if m == "to_trace" and isinstance(fval, R) and fval.kind == "thunk":
                        o_ = fval.fields["outcome"].v
                        if o_ == "good":
                            return R("decoded", id=fval.fields["id"])
                        from mtsa.absint import raise_exc
                        raise_exc(st, o_, message=K(f"Module 'pkg.mod' has no attribute 'gone' ({o_})"))
                        return U("stale")
                    if fname == "print":
                        _p.append(("print", kw.get("file", K("stdout")), st.freeze(a[0]) if a else K("")))
                        return K(None)
                    if fname == "build_module_stubs_from_traces":
                        _b.append(st.freeze(a[0]))
                        return R("stubs", n=K(len(_b)))
                    if m == "get" and isinstance(fval, R) and fval.kind == "stubs":
                        return R("stub", n=fval.fields["n"])
                    if m == "render" and isinstance(fval, R) and fval.kind == "stub":
                        return K(f"def f(x: T{fval.fields['n'].v}) -> None: ...")
                    if (fname or "").startswith("difflib."):
                        return K((K("- a\n"), K("+ b\n")))
                    if m in ("trace_store", "type_rewriter", "max_typed_dict_size"):
                        return S("cfg." + m)
                    if fname == "NoOpRewriter":
                        return S("noop")
                    return None

                ri.call_hook = hook
                base_on_attr = ri.on_attr

                def on_attr_gd(obj, attr, node, st, _b=base_on_attr):
                    if isinstance(obj, S):
                        return S(f"{obj.name}.{attr}")
                    if isinstance(obj, R) and obj.kind == "thunk" and attr != "to_trace":
                        st.pending = st.pending or "AttributeError"
                        return U(f"a CallTraceThunk has no attribute {attr}")
                    return _b(obj, attr, node, st)

                ri.on_attr = ri.interp.on_attr = on_attr_gd  # type: ignore[method-assign]
                outs = ri.run({ps[0]: args, ps[1]: K("stdout"), ps[2]: K("stderr")}, carry=st_args)
                if len(outs) != 1:
                    raise AnalysisError("get_diff forked")
                o = outs[0]
                n += 1
                lab = f"--diff, rows {list(pattern)} verbose={verbose}"
                good = [i for i, x in enumerate(pattern) if x == "good"]
                bad = [i for i, x in enumerate(pattern) if x != "good"]
                if o.term is not None and o.term[0] == "raise":
                    ctx.violate("R-C10.1", gd.fq, f"{lab}: raises {o.term[1]}", "a stale row is fatal for stub --diff")
                    continue
                want = R("list", items=tuple(R("decoded", id=K(i)) for i in good))
                ctx.check(len(built) == 2 and all(b == want for b in built), "R-C10.1", gd.fq, "both stubs of the diff are built from exactly the decodable rows, in store order",
                          construct=f"{lab}: built from {built}")
                err = [p_ for p_ in prints if p_[1] == K("stderr")]
                ctx.check(len(prints) == len(err), "R-C10.1", gd.fq, "nothing but the diff goes to standard output", construct=f"{lab}: {[p_[1] for p_ in prints]}")
                if verbose:
                    ctx.check(len(err) >= len(bad) and len(err) % len(bad) == 0, "R-C10.1", gd.fq, "with -v every skipped row is reported on the error stream",
                              construct=f"{lab}: {len(err)} message(s) for {len(bad)} skipped row(s)")
                else:
                    msgs = [e[2].v for e in err if isinstance(e[2], K) and isinstance(e[2].v, str)]
                    ctx.check(bool(err) and len(msgs) == len(err) and all(str(len(bad)) in _re.findall(r"\d+", m_) for m_ in msgs), "R-C10.1", gd.fq,
                              "without -v the number of skipped rows is reported on the error stream",
                              construct=f"{lab}: {len(err)} message(s) for {len(bad)} skipped row(s): {msgs[:2]}")
    ctx.floor("R-C10.1", "stub --diff scenarios with stale rows", n, 30)


def rule_status(ctx: Ctx, repo: Repo) -> None:
    """The handlers and main are interpreted: nothing to show -> the no-traces message on the error stream, nothing on
    stdout, normal return; main turns a normal return of the handler into status 0."""
    from .cli_model import CliScenario
    # --- print_stub_handler / apply_stub_handler
    for hname in ("print_stub_handler", "apply_stub_handler"):
        h = repo.fn(CLI, hname)
        ctx.functions.add(h.fq)
        ps = h.positional_params()
        variants = [(d, have, False) for d in ((False, True) if hname == "print_stub_handler" else (False,)) for have in (False, True)]
        variants += [(False, False, True)]  # every row is stale because the module itself is gone: importing it fails
        for diff, have, gone in variants:
            log: List[Tuple[Any, ...]] = []

            def hook(call, fname, fval, a, kw, st, _l=log, _have=have, _gone=gone):
                if _gone and fname in ("importlib.import_module", "import_module", "__import__"):
                    st.pending = st.pending or "ModuleNotFoundError"
                    return U("module removed")
                m = call.func.attr if isinstance(call.func, ast.Attribute) else None
                if fname == "get_stub":
                    return R("stub") if _have else K(None)
                if fname == "get_diff":
                    return K("DIFFTEXT") if _have else K(None)
                if m == "render" and isinstance(fval, R) and fval.kind == "stub":
                    return K("STUBTEXT")
                if fname == "complain_about_no_traces":
                    _l.append(("complain", tuple(st.freeze(x) for x in a)))
                    return K(None)
                if fname == "print":
                    _l.append(("print", tuple(st.freeze(x) for x in a), st.freeze(kw.get("file", K("sys.stdout")))))
                    return K(None)
                if fname == "apply_stub_using_libcst":
                    _l.append(("apply",))
                    return K("SOURCE")
                if m in ("write_text",):
                    _l.append(("write",))
                    return K(None)
                if fname in ("importlib.import_module", "inspect.getfile", "Path") or m in ("read_text",):
                    return R("opaque", what=K(fname or m))
                return None

            sc = CliScenario(repo, CLI, hname, hook)
            args = R("args", module_path=K((K("pkg.mod"), K(None))), diff=K(diff), existing_annotation_strategy=S("strategy"), pep_563=K(False),
                     ignore_existing_annotations=K(False), config=S("config"), verbose=K(False), limit=K(10), disable_type_rewriting=K(False), sample_count=K(False))
            o = sc.run({ps[0]: args, ps[1]: K("stdout"), ps[2]: K("stderr")})
            lab = f"{hname} diff={diff} traces={'some' if have else ('none (module removed)' if gone else 'none')}"
            comp_ = [e for e in log if e[0] == "complain"]
            out_ = [e for e in log if e[0] == "print" and e[2] == K("stdout")]
            if not have:
                ok = len(comp_) == 1 and comp_[0][1] == (args, K("stderr")) and not out_ and not [e for e in log if e[0] in ("apply", "write")] \
                    and (o.term is None or o.term[0] == "return")
                ctx.check(ok, "R-C10.4", h.fq, "nothing to show: the no-traces message goes to the error stream once, nothing is printed or written, and the handler returns normally (success status)",
                          construct=f"{lab}: {[e[0] for e in log]}, ends {o.term}")
            else:
                ok = not comp_ and len(out_) == 1 and (o.term is None or o.term[0] == "return")
                ctx.check(ok, "R-C10.4", h.fq, "the no-traces message is printed exactly when there is nothing to show",
                          construct=f"{lab}: {[e[0] for e in log]}, ends {o.term}")
    # --- complain_about_no_traces: every variant says 'No traces found' on the given stream
    comp = repo.fn(CLI, "complain_about_no_traces")
    ctx.functions.add(comp.fq)
    cps = comp.positional_params()
    for qual in (K(None), K("C.m")):
        for exists in (False, True):
            msgs: List[Tuple[Any, Any]] = []

            def hook2(call, fname, fval, a, kw, st, _m=msgs, _e=exists):
                if fname == "print":
                    _m.append((st.freeze(a[0]) if a else K(""), st.freeze(kw.get("file", K("sys.stdout")))))
                    return K(None)
                if fname == "os.path.exists":
                    return K(_e)
                return None

            sc = CliScenario(repo, CLI, "complain_about_no_traces", hook2)
            args = R("args", module_path=K((K("pkg/mod.py") if exists else K("pkg.mod"), qual)))
            o = sc.run({cps[0]: args, cps[1]: K("stderr")})
            ok = len(msgs) == 1 and msgs[0][1] == K("stderr") and isinstance(msgs[0][0], K) and isinstance(msgs[0][0].v, str) and "No traces found" in msgs[0][0].v \
                and (o.term is None or o.term[0] == "return")
            ctx.check(ok, "R-C10.4", comp.fq, "complain_about_no_traces says 'No traces found' on the error stream on every path",
                      construct=f"qualname={qual} path-exists={exists}: {msgs}")
    # --- main: exit status
    main = repo.fn(CLI, "main")
    ctx.functions.add(main.fq)
    mps = main.positional_params()
    hier = exception_hierarchy(repo)
    for outcome in ("ok", "HandlerError", "no-command", "NameLookupError"):
        log2: List[Tuple[Any, ...]] = []

        def hook3(call, fname, fval, a, kw, st, _l=log2, _o=outcome):
            m = call.func.attr if isinstance(call.func, ast.Attribute) else None
            if m == "parse_args":
                fields: Dict[Any, Any] = {"config": K("monkeytype.config:get_default_config()"), "command": K("stub"), "limit": K(None)}
                if _o != "no-command":
                    fields["handler"] = R("handler_fn")
                return st.alloc("obj", fields)
            if fname == "getattr" and len(a) == 3 and isinstance(a[0], Ref) and isinstance(a[1], K):
                return st.deref(a[0]).get(a[1].v, a[2])
            if fname in ("get_monkeytype_config",):
                return S("config")
            if fname in ("update_args_from_config",):
                return K(None)
            if isinstance(fval, R) and fval.kind == "handler_fn":
                _l.append(("handler", tuple(a)))
                if _o != "ok":
                    st.pending = st.pending or _o
                    return U("handler raised")
                return K(None)
            if fname == "print":
                _l.append(("print", st.freeze(kw.get("file", K("sys.stdout")))))
                return K(None)
            if m == "print_help":
                _l.append(("help",))
                return K(None)
            if m == "cli_context":
                return R("opaque", what=K("cli_context"))
            if (fname or "").split(".")[-1] == "ArgumentParser" or m in ("add_subparsers", "add_parser", "add_mutually_exclusive_group", "add_argument_group"):
                return R("opaque", what=K("argparse object"))  # the parser, a sub-parser or a group: an object, never None
            return None

        sc = CliScenario(repo, CLI, "main", hook3)
        try:
            o = sc.run({mps[0]: S("argv"), mps[1]: K("stdout"), mps[2]: K("stderr")})
        except AnalysisError as e:
            raise AnalysisError(f"main could not be interpreted ({e})")
        lab = f"handler outcome {outcome}"
        if outcome == "ok":
            ctx.check(o.term is not None and o.term[0] == "return" and o.term[1] == K(0) and [e[0] for e in log2] == ["handler"], "R-C10.4", main.fq,
                      "main returns 0 after a handler that returned normally", construct=f"{lab}: {o.term}, {[e[0] for e in log2]}")
        elif outcome == "HandlerError":
            ok = o.term is not None and o.term[0] == "return" and isinstance(o.term[1], K) and o.term[1].v not in (0, None) and ("print", K("stderr")) in log2
            ctx.check(ok, "R-C10.4", main.fq, "a HandlerError becomes an error message and a non-zero status", construct=f"{lab}: {o.term}, {log2}")
        elif outcome == "no-command":
            ok = o.term is not None and o.term[0] == "return" and isinstance(o.term[1], K) and o.term[1].v not in (0, None) and not [e for e in log2 if e[0] == "handler"]
            ctx.check(ok, "R-C10.4", main.fq, "a missing command gives usage help and a non-zero status", construct=f"{lab}: {o.term}, {log2}")
        else:
            ok = o.term is not None and o.term[0] == "raise"
            ctx.check(ok, "R-C10.4", main.fq, "a non-zero exit status is produced only for HandlerError or a missing command (other errors are not converted into status 1)",
                      construct=f"{lab}: {o.term}")
    # HandlerError is not a MonkeyTypeError and decode errors are not HandlerErrors
    ctx.check(not exc_is("NameLookupError", "HandlerError", hier) and not exc_is("InvalidTypeError", "HandlerError", hier), "R-C10.4", CLI,
              "decode failures are not HandlerErrors (they cannot turn into exit status 1)", construct=str({k: v for k, v in hier.items()}))


def rule_params_ignored(ctx: Ctx, repo: Repo) -> None:
    """R-C10.3: traced argument names that are no longer parameters (a stale row recorded before a rename) are ignored by
    the signature update - update_signature_args interpreted with stale names mixed into the traced types."""
    from . import sig_model as SM
    from .sig_model import EMPTY, StubScenario, param, sig
    fi = repo.fn("monkeytype.stubs", "update_signature_args")
    ctx.functions.add(fi.fq)
    ps = fi.positional_params()
    names = ["a", "b", "c"]
    n = 0
    for strategy in (SM.REPLICATE, SM.IGNORE, SM.OMIT):
        for traced in ((), ("a",), ("a", "c")):
            for stale in (("gone",), ("gone", "also_gone"), ("z_last", "A_first")):
                params = [param(x, EMPTY) for x in names]
                items = tuple((K(x), S("T:" + x)) for x in stale[:1]) + tuple((K(x), S("T:" + x)) for x in traced) + tuple((K(x), S("T:" + x)) for x in stale[1:])
                res = StubScenario(repo, "update_signature_args").result({ps[0]: sig(params, EMPTY), ps[1]: R("dict", items=items), ps[2]: K(False), ps[3]: strategy})
                n += 1
                lab = f"{strategy.name.split('.')[-1]}, traced {list(traced)} + stale {list(stale)}"
                if not (isinstance(res, R) and res.kind == "sig"):
                    ctx.violate("R-C10.3", fi.fq, f"{lab}: {str(res)[:100]}", "a stale parameter name breaks the signature update")
                    continue
                new = res.fields["parameters"]
                its = list(new.fields["items"]) if isinstance(new, R) and new.kind == "list" else ([v for _, v in new.fields["items"]] if isinstance(new, R) and new.kind == "dict" else None)
                got = [q.fields["name"].v for q in its if isinstance(q, R) and q.kind == "param"] if its is not None else None
                ctx.check(got == names, "R-C10.3", fi.fq, "traced argument names that are not parameters of the function are ignored (no new parameter, none lost)",
                          construct=f"{lab}: parameters {got}")
                if its is not None and got == names:
                    anns = {q.fields["name"].v: q.fields["annotation"] for q in its}
                    ok = all(anns[x] == S("T:" + x) for x in traced) and all(anns[x] == EMPTY for x in names if x not in traced)
                    ctx.check(ok, "R-C10.3", fi.fq, "the real parameters still receive exactly their own traced types", construct=f"{lab}: {anns}")
    ctx.floor("R-C10.3", "signature updates with stale names", n, 20)
    # the merge before it: rows of one function recorded with different parameter names (before / after a rename, a
    # parameter added or removed) are merged name by name, in whatever order the store returns them
    import itertools
    from .sig_model import ST
    stt = repo.fn(ST, "shrink_traced_types")
    ctx.functions.add(stt.fq)
    sps = stt.positional_params()
    INT, STR = S("t:int"), S("t:str")

    def tr(args: Dict[str, V]) -> R:
        return R("inst", __cls__=K("monkeytype.tracing.CallTrace"), func=S("func:f"), arg_types=R("dict", items=tuple((K(k), v) for k, v in args.items())),
                 return_type=INT, yield_type=K(None))

    rows = [tr({"a": INT, "b": STR}), tr({"a": STR, "old_name": INT}), tr({"a": INT})]
    m = 0
    for perm in itertools.permutations(range(len(rows))):
        sc = StubScenario(repo, "shrink_traced_types")
        sc.ri.heap = True

        def hook(call, fname, fval, args, kwargs, st):
            if fname == "shrink_types":
                return R("shrunk", of=st.freeze(args[0]))
            if fname == "collections.defaultdict" and args and args[0] == S("builtin:set"):
                return st.alloc("defaultdict", ("dd", "set", {}))
            return None
        sc.extra_hook = hook
        o = sc.run({sps[0]: K(tuple(rows[i] for i in perm)), sps[1]: K(0)})
        m += 1
        lab = f"rows with parameter sets {[sorted(k.v for k, _ in rows[i].fields['arg_types'].fields['items']) for i in perm]}"
        if o.term is None or o.term[0] != "return":
            ctx.violate("R-C10.3", stt.fq, f"{lab}: {o.term}", "rows of one function with different parameter names are fatal for stub generation")
            continue
        res = o.freeze(o.term[1])
        at = res.v[0] if isinstance(res, K) and isinstance(res.v, tuple) and res.v else None
        got = {k.v: v for k, v in at.fields["items"]} if isinstance(at, R) and at.kind == "dict" else None
        def members(x: Any) -> Any:
            of = x.fields["of"] if isinstance(x, R) and x.kind == "shrunk" else None
            if isinstance(of, K) and isinstance(of.v, (frozenset, tuple)):
                return frozenset(of.v)
            if isinstance(of, R) and of.kind == "list":
                return frozenset(of.fields["items"])
            return None
        want = {"a": frozenset({INT, STR}), "b": frozenset({STR}), "old_name": frozenset({INT})}
        ok = got is not None and {k: members(v) for k, v in got.items()} == want
        ctx.check(ok, "R-C10.3", stt.fq, "each recorded parameter name is merged over the rows that have it (rows need not agree on the names)",
                  construct=f"{lab}: {None if got is None else {k: sorted(map(str, members(v) or [])) for k, v in got.items()}}")
    ctx.floor("R-C10.3", "row orders with differing parameter names", m, 6)


TIER = "quick"


def run(ctx: Ctx, repo: Repo, tier: str) -> None:
    global TIER
    TIER = tier
    ctx.trust("importlib.import_module raises ModuleNotFoundError (an ImportError) for a missing module or submodule",
              "getattr(obj, name) raises AttributeError for a missing attribute, also for '<locals>'",
              "exception matching follows the class hierarchy (read from monkeytype/exceptions.py for the package's own classes)",
              "inspect.unwrap follows __wrapped__ and otherwise returns its argument")
    ctx.attempt(rule_conversion, ctx, repo)
    ctx.attempt(rule_get_stub, ctx, repo)
    ctx.attempt(rule_diff_reports, ctx, repo)
    ctx.attempt(rule_status, ctx, repo)
    ctx.attempt(rule_params_ignored, ctx, repo)
    # "the output equals what the decodable traces alone would produce": a stale class name is not decoded to some other class
    from . import c08 as _c08
    ctx.attempt(_c08.rule_no_impostor, ctx, repo)
    # every stored row of the module reaches the decoder (a row the query hides is neither decoded nor counted as skipped)
    from . import c09 as _c09
    ctx.attempt(_c09.rule_query, ctx, repo)
    ctx.settle()
