"""Witness (run by hand): the stub of a module with a traced method of a nested class does not parse.
    /venv/bin/python /verif/witness/c12_nested_class.py"""
import ast, inspect
from monkeytype.stubs import FunctionDefinition, build_module_stubs

class Outer:
    class Inner:
        def deep(self, x): return x

d = FunctionDefinition.from_callable(Outer.Inner.deep)
text = build_module_stubs([d])[__name__].render()
print(text)
try:
    ast.parse(text)
    raise SystemExit("unexpectedly valid")
except SyntaxError as e:
    print("SyntaxError:", e.msg)
