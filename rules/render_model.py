"""Abstract rendering: the render() methods of monkeytype.stubs (ImportBlockStub, AttributeStub,
FunctionStub, ClassStub, ModuleStub) and render_signature / render_parameter are interpreted
abstractly on stub objects built as records; strings are folded, so the result is the concrete
stub text the code would produce - obtained from the source without executing it.  Used by C12,
C14, C11 and C01."""
from __future__ import annotations

import ast
from typing import Any, Callable, Dict, List, Optional, Tuple

from mtsa.absint import K, R, Ref, S, U, V, State
from mtsa.index import Repo, dotted, norm
from mtsa.report import AnalysisError
from . import sig_model as SM
from .sig_model import EMPTY, ST, StubScenario

FK = "monkeytype.stubs.FunctionKind."


def fkind(name: str) -> S:
    return S(FK + name)


def inst(cls: str, **fields: Any) -> R:
    return R("inst", __cls__=K(f"{ST}.{cls}"), **fields)


def import_block(imports: Dict[str, Tuple[str, ...]]) -> R:
    return inst("ImportBlockStub", imports=R("dict", items=tuple((K(m), K(frozenset(K(n) for n in names))) for m, names in imports.items())))


def function_stub(name: str, signature: R, kind: str = "MODULE", strip_modules: Tuple[str, ...] = (), is_async: bool = False) -> R:
    return inst("FunctionStub", name=K(name), signature=signature, kind=fkind(kind), strip_modules=K(tuple(K(m) for m in strip_modules)), is_async=K(is_async))


def attribute_stub(name: str, typ: V) -> R:
    return inst("AttributeStub", name=K(name), typ=typ)


def class_stub(name: str, functions: List[R], attributes: List[R] = (), nested: List[R] = ()) -> R:  # type: ignore[assignment]
    return inst("ClassStub", name=K(name), function_stubs=R("dict", items=tuple((f.fields["name"], f) for f in functions)),
                attribute_stubs=R("list", items=tuple(attributes)), class_stubs=R("dict", items=tuple((c.fields["name"], c) for c in nested)))


def module_stub(functions: List[R], classes: List[R], imports: R, typed_dicts: List[R] = ()) -> R:  # type: ignore[assignment]
    return inst("ModuleStub", function_stubs=R("dict", items=tuple((f.fields["name"], f) for f in functions)),
                class_stubs=R("dict", items=tuple((c.fields["name"], c) for c in classes)), imports_stub=imports,
                typed_dict_class_stubs=R("list", items=tuple(typed_dicts)))


class RenderScenario(StubScenario):
    """render_annotation is answered by `anno_text` (default: the annotation token's own text)."""

    def __init__(self, repo: Repo, func: str, anno_text: Optional[Callable[[V], str]] = None, inline_annotation: bool = False) -> None:
        inline = tuple(f.qualname for f in repo.module(ST).functions.values() if f.cls is None and f.qualname not in ("render_annotation", "get_imports_for_annotation"))
        super().__init__(repo, func, call_hook=self._hook, inline=inline)
        self.anno_text = anno_text or (lambda v: v.name.split(":")[-1] if isinstance(v, S) else "object")
        self.ri.dispatch_instances = True
        self.ri.construct_instances = True  # a render method may build helper stub objects of its own
        self.inline_annotation = inline_annotation
        for f in repo.module(ST).functions.values():
            if f.cls is not None and f.qualname.split(".")[-1] in ("render",):
                self.ri.inline.add(f.fq)

    def _hook(self, call: ast.Call, fname: Optional[str], fval: Optional[V], args: List[V], kwargs: Dict[str, V], st: State) -> Optional[V]:
        if fname == "render_annotation" and not self.inline_annotation:
            return K(self.anno_text(args[0]))
        if fname == "get_imports_for_annotation" and not self.inline_annotation:
            return R("dict", items=())  # abstract annotation tokens live in no module: nothing to import or strip
        if fname == "sorted" and len(args) == 1 and isinstance(args[0], K) and isinstance(args[0].v, frozenset):
            if all(isinstance(x, K) and isinstance(x.v, str) for x in args[0].v):
                return st.alloc("list", sorted(args[0].v, key=lambda k: k.v))
        return None


def render(repo: Repo, obj: R, anno_text: Optional[Callable[[V], str]] = None, **kwargs: V) -> str:
    clsname = obj.fields["__cls__"].v.split(".")[-1]
    sc = RenderScenario(repo, f"{clsname}.render", anno_text)
    fi = sc.fi
    env: Dict[str, V] = {fi.positional_params()[0]: obj}
    env.update(kwargs)
    for p, d in fi.defaults().items():
        if p not in env:
            env[p] = sc.ri.interp.eval(d, State())
    res = sc.result(env)
    if not (isinstance(res, K) and isinstance(res.v, str)):
        raise AnalysisError(f"{fi.fq}: the rendered text is not a foldable string ({str(res)[:120]})")
    return res.v


def render_signature(repo: Repo, signature: R, max_line_len: Optional[int] = None, prefix: str = "", anno_text: Optional[Callable[[V], str]] = None) -> str:
    sc = RenderScenario(repo, "render_signature", anno_text)
    ps = sc.fi.positional_params()
    res = sc.result({ps[0]: signature, ps[1]: K(max_line_len), ps[2]: K(prefix)})
    if not (isinstance(res, K) and isinstance(res.v, str)):
        raise AnalysisError(f"render_signature: the rendered text is not a foldable string ({str(res)[:120]})")
    return res.v


# ---------------------------------------------------------------------------
# build_module_stubs interpreted abstractly
# ---------------------------------------------------------------------------

def definition(module: str, qualname: str, kind: str, signature: R, is_async: bool = False, typed_dicts: Tuple[R, ...] = ()) -> R:
    return inst("FunctionDefinition", module=K(module), qualname=K(qualname), kind=fkind(kind), signature=signature,
                is_async=K(is_async), typed_dict_class_stubs=R("list", items=tuple(typed_dicts)))


def to_inst(v: Any) -> Any:
    """Frozen heap objects (R('obj', __class__=...)) -> instance records usable by render()."""
    if isinstance(v, R):
        f = {k: to_inst(x) for k, x in v.fields.items()}
        if v.kind == "obj" and "__class__" in f:
            c = f.pop("__class__")
            return R("inst", __cls__=c, **f)
        return R(v.kind, **f)
    if isinstance(v, K) and isinstance(v.v, tuple):
        return K(tuple(to_inst(x) for x in v.v))
    if isinstance(v, K) and isinstance(v.v, frozenset):
        return K(frozenset(to_inst(x) for x in v.v))
    if isinstance(v, tuple):
        return tuple(to_inst(x) for x in v)
    return v


def build_module_stubs(repo: Repo, entries: List[R], imports_of: Optional[Callable[[R], Dict[str, Tuple[str, ...]]]] = None) -> V:
    """Interpret stubs.build_module_stubs on abstract FunctionDefinition records; returns the frozen
    {module: ModuleStub} mapping (instances as records)."""
    sc = StubScenario(repo, "build_module_stubs")
    sc.ri.construct_instances = True
    sc.ri.dispatch_instances = True
    for f in repo.module(ST).functions.values():
        if f.cls is not None and (f.qualname.endswith(".__init__") or f.qualname == "ImportMap.merge"):
            sc.ri.inline.add(f.fq)
    merge = repo.fn(ST, "ImportMap.merge")

    def hook(call: ast.Call, fname: Optional[str], fval: Optional[V], args: List[V], kwargs: Dict[str, V], st: State) -> Optional[V]:
        if fname == "get_imports_for_signature":
            ent = None
            for e in entries:
                if e.fields["signature"] == st.freeze(args[0]):
                    ent = e
            imp = imports_of(ent) if (imports_of and ent is not None) else {"typing": ("Any",)}
            d = {K(m): st.alloc("set", [K(n) for n in names]) for m, names in imp.items()}
            return st.alloc("defaultdict", ("dd", "set", d))
        if fname == "ImportMap" and not args:
            return st.alloc("defaultdict", ("dd", "set", {}))
        if fname == "get_imports_for_annotation":
            return st.alloc("defaultdict", ("dd", "set", {}))  # the fields of abstract class stubs use no importable names
        if isinstance(call.func, ast.Attribute) and call.func.attr == "merge" and isinstance(fval, Ref) and fval.kind == "defaultdict":
            return sc.ri.inline_call(merge, call, fval, args, kwargs, st)
        return None

    sc.extra_hook = hook
    p = sc.fi.positional_params()[0]
    o = sc.run({p: K(tuple(entries))})
    if o.term is None or o.term[0] != "return":
        raise AnalysisError(f"build_module_stubs: {o.term}")
    return to_inst(o.freeze(o.term[1]))
