"""Witness (run by hand): a function whose first traced call happens before anything the look-up can see refers to it (called from C code
while its module body is still running) is never traced afterwards: CallTracer._get_func caches the failed look-up.
    cd /verif/witness && PYTHONPATH=/repo /venv/bin/python c02_failed_lookup_cached.py      (exit 1 while the finding is present)"""
import sys, tempfile, logging
logging.disable(logging.CRITICAL)
d = tempfile.mkdtemp(); sys.path.insert(0, d)
open(d + "/wlate.py", "w").write('''
def _make():
    def job(x):
        return x + 1
    return job

# first call: from C code (map), the function object is referenced from no frame's locals and no global yet
list(map(_make(), [0]))
job = _make()              # the same code object, now published under its module-level name
job.__qualname__ = "job"
''')
from monkeytype.tracing import CallTracer, CallTraceLogger


class L(CallTraceLogger):
    def __init__(self): self.names = []
    def log(self, trace): self.names.append(trace.funcname)


lg = L()
tracer = CallTracer(lg, 0)
sys.setprofile(tracer)
import wlate
wlate.job(1)
wlate.job(2)
sys.setprofile(None)
n = sum(1 for x in lg.names if x.endswith("job"))
print("logged:", [x for x in lg.names if x.startswith('wlate')])
print(f"calls of wlate.job traced after it became resolvable: {n} of 2")
print("WITNESSED: a failed look-up is remembered for good" if n == 0 else "not present")
sys.exit(1 if n == 0 else 0)
