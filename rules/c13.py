"""C13 - existing source annotations are kept, omitted or overridden exactly as requested (static clauses).

R-C13.1  complete decision table of update_signature_args (strategy x annotated x traced x receiver x position)
R-C13.2  complete decision table of update_signature_return (strategy x annotated x return {absent, NoneType, T} x yield {absent, Y})
R-C13.3  Optional[...] for annotated parameters whose default is None (render_parameter) and its import (sibling)
R-C13.4  CLI flag table (--ignore-existing-annotations / --omit-existing-annotations) and the derived overwrite flag
R-C13.5  the strategy is forwarded unchanged from the CLI to both update functions
"""
from __future__ import annotations

import ast
import itertools
from typing import Any, Dict, List, Optional, Tuple

from mtsa.absint import State,  K, R, S, U, V
from mtsa.index import Repo, calls_in, dotted, norm, walk_no_nested
from mtsa.report import AnalysisError, Ctx

from . import sig_model as SM
from .sig_model import EMPTY, IGNORE, NONE_T, OMIT, REPLICATE, ST, StubScenario, generic, param, sig
from .common import bound_argument, call_sites, cfg_of, is_call_to, returns_of

LEVEL = "proof"
LEVEL_TEXT = (
    "Complete decision of the two deciding functions over their finite atom space: update_signature_args and "
    "update_signature_return are branch programs over (strategy, annotated?, traced?, receiver?, return/yield kind); every "
    "row of that space is an obligation discharged by abstract interpretation of the function body and comparison with the "
    "table read off the property. Flag and forwarding tables are finite as well. Trusted: inspect.Parameter/Signature.replace "
    "semantics and that Parameter.empty is Signature.empty."
)
EXPLANATION = (
    "Decision tables extracted from the source by abstract interpretation (nothing is executed): update_signature_args is "
    "evaluated on signatures covering every combination of strategy {REPLICATE, IGNORE, OMIT} x annotated/unannotated x "
    "traced/untraced x receiver/non-receiver x method/function, plus traced names that are not parameters; the resulting "
    "annotation of every position is compared with the property's table (kept / traced / none; receiver never annotated from "
    "a trace; nothing invented). update_signature_return likewise for annotated? x strategy x return {absent, NoneType, T} x "
    "yield {absent, Y} (Iterator[Y], Generator[Y, None, T], T, unchanged). render_parameter's Optional wrap is decided over "
    "annotated? x default {none, None, other} x already-Optional. The argparse flag table and the forwarding of the strategy "
    "through get_stub -> build_module_stubs_from_traces -> get_updated_definition -> from_callable_and_traced_types -> "
    "update_signature_args/return are checked call site by call site. Not decided: what inspect.signature reports for string "
    "or NewType annotations."
)
# the traced type at position p1 and the source annotation at position p2 are class objects that are false as truth values
# (their metaclass defines __len__ / __bool__): "is there a type?" must not be asked with `if typ:`
T_ = lambda n: S("traced:" + n, truth=(n != "p1"))  # noqa: E731
A_ = lambda n: S("source-annotation:" + n, truth=(n != "p2"))  # noqa: E731


def expected_arg(strategy: S, annotated: bool, traced: bool, receiver: bool, name: str) -> V:
    src = A_(name) if annotated else EMPTY
    tr = T_(name) if traced else EMPTY
    if receiver:
        # the receiver is never annotated from a trace; OMIT still removes a source annotation
        return EMPTY if (annotated and strategy == OMIT) else src
    if strategy == REPLICATE:
        return src if annotated else tr
    if strategy == OMIT:
        return EMPTY if annotated else tr
    return tr  # IGNORE: the traced type whatever the source says (nothing if there is no trace)


def rule_args(ctx: Ctx, repo: Repo) -> None:
    fi = repo.fn(ST, "update_signature_args")
    ctx.functions.add(fi.fq)
    ps = fi.positional_params()
    if len(ps) != 4:
        raise AnalysisError("update_signature_args signature changed")
    rows = 0
    combos = list(itertools.product((False, True), repeat=2))  # (annotated, traced)
    for strategy in (REPLICATE, IGNORE, OMIT):
        for has_self in (False, True):
            specs = []
            for first, rot in itertools.product(combos, range(len(combos))):
                # position 0 varies over all (annotated, traced); positions 1..4 see every combo in every rotation
                rc = combos[rot:] + combos[:rot]
                specs.append(([("p0",) + first] + [(f"p{i + 1}",) + c for i, c in enumerate(rc)], True))
            # nothing was traced for any parameter (an empty mapping): the strategy still decides about source annotations
            for anns in itertools.product((False, True), repeat=3):
                specs.append(([(f"p{i}", a, False) for i, a in enumerate(anns)], False))
            for spec, with_gone in specs:
                params = [param(n, A_(n) if a else EMPTY) for n, a, _ in spec]
                arg_types = R("dict", items=tuple((K(n), T_(n)) for n, _, t in spec if t) + (((K("gone"), T_("gone")),) if with_gone else ()))
                res = StubScenario(repo, "update_signature_args").result({ps[0]: sig(params, A_("ret")), ps[1]: arg_types, ps[2]: K(has_self), ps[3]: strategy})
                lab = f"{strategy.name.split('.')[-1]} has_self={has_self}"
                if not (isinstance(res, R) and res.kind == "sig"):
                    ctx.violate("R-C13.1", fi.fq, f"{lab}: {str(res)[:100]}", "update_signature_args does not return a signature")
                    continue
                new = res.fields["parameters"]
                items = list(new.fields["items"]) if isinstance(new, R) and new.kind == "list" else (list(new.v) if isinstance(new, K) and isinstance(new.v, tuple) else None)
                if isinstance(new, R) and new.kind == "dict":
                    items = [v for _, v in new.fields["items"]]  # the signature's own ordered mapping, handed back as it was
                if items is None:
                    ctx.violate("R-C13.1", fi.fq, f"{lab}: parameters={str(new)[:100]}", "the new parameter list is not a list of parameters")
                    continue
                names = [p.fields["name"].v for p in items if isinstance(p, R) and p.kind == "param"]
                ctx.check(names == [n for n, _, _ in spec], "R-C13.1", fi.fq,
                          "the stub keeps exactly the function's parameters, in order (traced names that are not parameters are ignored)",
                          construct=f"{lab}: {names}")
                ctx.check(res.fields["return_annotation"] == A_("ret"), "R-C13.1", fi.fq, "the return annotation is not touched by the argument update", construct=f"{lab}")
                for idx, ((n, a, t), p) in enumerate(zip(spec, items)):
                    rows += 1
                    want = expected_arg(strategy, a, t, has_self and idx == 0, n)
                    got = p.fields["annotation"]
                    ctx.check(got == want, "R-C13.1", fi.fq,
                              "annotation of a parameter = f(strategy, annotated in source, traced, receiver) as the property states",
                              construct=f"{lab} position {idx} annotated={a} traced={t}: got {_sh(got)}, expected {_sh(want)}")
                    ctx.check(p.fields["default"] == EMPTY and p.fields["kind"] == SM.kind("POSITIONAL_OR_KEYWORD"), "R-C13.1", fi.fq,
                              "name, kind and default of a parameter are not changed", construct=f"{lab} position {idx}: {p}")
    # a function of a class whose FIRST parameter is not positional (`def lookup(*, key)`, `def collect(*items, flag)`): it has no
    # receiver parameter in its list at all - position 0 is an ordinary parameter
    for strategy in (REPLICATE, IGNORE, OMIT):
        for first_kind in ("KEYWORD_ONLY",):
            for annotated in (False, True):
                params = [param("key", A_("key") if annotated else EMPTY, EMPTY, first_kind), param("other", EMPTY, EMPTY, "KEYWORD_ONLY")]
                arg_types = R("dict", items=((K("key"), T_("key")), (K("other"), T_("other"))))
                res = StubScenario(repo, "update_signature_args").result({ps[0]: sig(params, EMPTY), ps[1]: arg_types, ps[2]: K(True), ps[3]: strategy})
                new = res.fields["parameters"] if isinstance(res, R) and res.kind == "sig" else None
                items = list(new.fields["items"]) if isinstance(new, R) and new.kind == "list" else ([v for _, v in new.fields["items"]] if isinstance(new, R) and new.kind == "dict" else
                                                                                                   (list(new.v) if isinstance(new, K) and isinstance(new.v, tuple) else None))
                rows += 1
                if not items:
                    ctx.violate("R-C13.1", fi.fq, f"{strategy.name.split('.')[-1]} keyword-only first parameter: {str(res)[:100]}", "update_signature_args does not return the parameters")
                    continue
                want = expected_arg(strategy, annotated, True, False, "key")
                got = items[0].fields["annotation"]
                ctx.check(got == want, "R-C13.1", fi.fq,
                          "the receiver is the first POSITIONAL parameter of a method: a keyword-only parameter at position 0 of a class's function is an ordinary parameter and receives the traced type",
                          construct=f"{strategy.name.split('.')[-1]} has_self=True, `def lookup(*, key{': A' if annotated else ''}, other)`: key got {_sh(got)}, expected {_sh(want)}")
    ctx.floor("R-C13.1", "decision-table rows of update_signature_args", rows, 100)
    d = fi.defaults().get(ps[3])
    ctx.check(d is not None and dotted(d) == "ExistingAnnotationStrategy.REPLICATE", "R-C13.1", fi.fq, "the default strategy is REPLICATE", construct=norm(d))


def _sh(v: V) -> str:
    if v == EMPTY:
        return "<none>"
    if isinstance(v, S):
        return v.name
    if isinstance(v, R) and v.kind == "generic":
        return f"{v.fields['origin'].v}[{', '.join(_sh(a) for a in v.fields['args'].v)}]"
    return repr(v)


def rule_return(ctx: Ctx, repo: Repo) -> None:
    fi = repo.fn(ST, "update_signature_return")
    ctx.functions.add(fi.fq)
    ps = fi.positional_params()
    rows = 0
    Y, T = S("traced:yield"), S("traced:return")
    # class objects that are false as truth values (a metaclass with __len__ / __bool__): types like any other
    FALSY_R, FALSY_Y = S("traced:Registry", truth=False), S("traced:EmptyEnum", truth=False)
    for strategy in (REPLICATE, IGNORE, OMIT):
        for annotated in (False, True):
            for rt in (K(None), NONE_T, T, FALSY_R):
                for yt in (K(None), Y, NONE_T, FALSY_Y):
                    src = A_("ret") if annotated else EMPTY
                    s_in = sig([param("a", A_("a"))], src)
                    res = StubScenario(repo, "update_signature_return").result({ps[0]: s_in, ps[1]: rt, ps[2]: yt, ps[3]: strategy})
                    rows += 1
                    lab = f"{strategy.name.split('.')[-1]} annotated={annotated} return={_sh(rt)} yield={_sh(yt)}"
                    if not (isinstance(res, R) and res.kind == "sig"):
                        ctx.violate("R-C13.2", fi.fq, f"{lab}: {str(res)[:100]}", "update_signature_return does not return a signature")
                        continue
                    if annotated and strategy == OMIT:
                        want: V = EMPTY
                    elif annotated and strategy == REPLICATE:
                        want = src
                    elif yt != K(None) and rt in (K(None), NONE_T):
                        want = generic("Iterator", yt)
                    elif yt != K(None):
                        want = generic("Generator", yt, NONE_T, rt)
                    elif rt != K(None):
                        want = rt
                    else:
                        want = src  # neither annotated-to-be-replaced nor traced: nothing is invented
                    got = res.fields["return_annotation"]
                    ctx.check(got == want, "R-C13.2", fi.fq, "return annotation = f(strategy, annotated in source, traced return, traced yield) as the property states",
                              construct=f"{lab}: got {_sh(got)}, expected {_sh(want)}")
                    ctx.check(res.fields["parameters"] == s_in.fields["parameters"], "R-C13.2", fi.fq, "parameters are not touched by the return update", construct=lab)
    ctx.floor("R-C13.2", "decision-table rows of update_signature_return", rows, 50)


def rule_optional(ctx: Ctx, repo: Repo) -> None:
    fi = repo.fn(ST, "render_parameter")
    ctx.functions.add(fi.fq)
    p0 = fi.positional_params()[0]
    C = S("class:C")
    for annotated in (False, True):
        for default in (EMPTY, K(None), K(3), K(0), K(""), K(False), K(())):
            for already in (False, True):
                anno = EMPTY if not annotated else (generic("Union", C, NONE_T) if already else C)
                rendered: List[V] = []
                def hook(call, fname, fval, a, kw, st, _r=rendered):
                    if fname == "render_annotation":
                        _r.append(a[0])
                        return K("ANNO")
                    return None
                StubScenario(repo, "render_parameter", call_hook=hook, inline=("_is_optional",)).result({p0: param("x", anno, default)})
                lab = f"annotated={annotated} default={default} already-Optional={already}"
                if not annotated:
                    ctx.check(not rendered, "R-C13.3", fi.fq, "an unannotated parameter renders no annotation", construct=f"{lab}: {rendered}")
                    continue
                want = generic("Union", C, NONE_T) if (default == K(None) or already) else C
                ctx.check(rendered == [want], "R-C13.3", fi.fq,
                          "an annotated parameter whose default is None is shown as Optional[annotation] (and only then)",
                          construct=f"{lab}: rendered {[_sh(r) for r in rendered]}, expected {_sh(want)}")
    # sibling: the import of Optional is added whenever render_parameter wraps - decided on the rendered stub text
    # (a parameter `foo: T = None` of every core type; the stub must provide every name it uses)
    from . import c11 as _c11
    _c11.rule_pipeline_core(ctx, repo, "R-C13.3")


def rule_optional_kinds(ctx: Ctx, repo: Repo) -> None:
    fi = repo.fn(ST, "render_parameter")
    p0 = fi.positional_params()[0]
    # every KIND of annotation a source can carry (the Optional wrap is not a matter of what the annotation is): a class, a
    # string, Any, a generic, a forward reference, a NewType (an object, not a class), a type variable, a generated TypedDict
    from . import anno_model as AM
    from .codec_model import ANY as C_ANY, INT as C_INT, NONE_T as C_NONE, anon_td as c_anon_td, cls as c_cls, gen as c_gen
    kinds = [
        ("a class", c_cls("pkg.mod", "User")), ("a string", K("User")), ("Any", C_ANY), ("a generic", c_gen("List", C_INT)),
        ("a forward reference", AM.fwd("User")), ("a NewType", AM.newtype("UserId", "pkg.mod", C_INT)),
        ("a type variable", R("typevar", __name__=K("T"), __module__=K("pkg.mod"))), ("a generated TypedDict", c_anon_td({"a": C_INT})),
        # generics that merely MENTION None among their parameters: not optional themselves
        ("Dict[str, None]", c_gen("Dict", c_cls("builtins", "str"), C_NONE)), ("Generator[int, None, None]", c_gen("Generator", C_INT, C_NONE, C_NONE)),
        ("Tuple[int, None]", c_gen("Tuple", C_INT, C_NONE)), ("Callable[[str], None]", c_gen("Callable", K((c_cls("builtins", "str"),)), C_NONE)),
    ]
    n_k = 0
    for what, anno in kinds:
        for default in (K(None), K(3), EMPTY):
            seen_a: List[V] = []
            sc = AM.AnnoScenario(repo, ST, "render_parameter")
            base_h = sc.ri.call_hook
            def hook_k(call, fname, fval, a, kw, st, _r=seen_a, _b=base_h):
                if fname == "render_annotation":
                    _r.append(st.freeze(a[0]))
                    return K("ANNO")
                return _b(call, fname, fval, a, kw, st)
            sc.ri.call_hook = hook_k
            k_r, _ = sc.result({p0: param("x", anno, default)})
            n_k += 1
            wrapped = [x for x in seen_a if isinstance(x, R) and x.kind == "generic" and x.fields["origin"] == K("Union") and C_NONE in x.fields["args"].v and anno in x.fields["args"].v]
            lab = f"annotation is {what}, default {'None' if default == K(None) else 'absent' if default == EMPTY else default.v}"
            if default == K(None):
                ctx.check(k_r == "return" and len(seen_a) == 1 and len(wrapped) == 1, "R-C13.3", fi.fq,
                          "an annotated parameter whose default is None is shown as Optional[annotation], whatever kind of annotation it is",
                          construct=f"{lab}: {k_r}, rendered {[AM.py_repr(x)[:60] if isinstance(x, R) else str(x) for x in seen_a]}")
            else:
                ctx.check(k_r == "return" and seen_a == [anno], "R-C13.3", fi.fq, "with any other default (or none) the annotation is shown as it is", construct=f"{lab}: {k_r}, rendered {[str(x)[:60] for x in seen_a]}")
    ctx.floor("R-C13.3", "annotation kind x default scenarios of render_parameter", n_k, 20)


def argparse_table(repo: Repo) -> List[Tuple[str, bool, Tuple[str, ...], Dict[str, V]]]:
    """(sub-command, inside a mutually exclusive group, flags, keyword arguments) of every add_argument call reached by
    interpreting cli.main up to parse_args - however the parser construction is split into helpers"""
    from .cli_model import CLI, CliScenario
    recs: List[Tuple[str, bool, Tuple[str, ...], Dict[str, V]]] = []
    counter = [0]

    def hook(call, fname, fval, args, kwargs, st):
        m = call.func.attr if isinstance(call.func, ast.Attribute) else None
        d = fname or ""
        def new(kind: str, cmd: Any, excl: bool = False) -> R:
            counter[0] += 1
            return R("argparse", what=K(kind), cmd=K(cmd), exclusive=K(excl), n=K(counter[0]))
        if d in ("argparse.ArgumentParser", "ArgumentParser"):
            return new("parser", None)
        if isinstance(fval, R) and fval.kind == "argparse" and m is not None:
            cmd = fval.fields["cmd"].v
            if m == "add_subparsers":
                return new("subparsers", cmd)
            if m == "add_parser" and args and isinstance(args[0], K):
                return new("parser", args[0].v)
            if m == "add_mutually_exclusive_group":
                return new("group", cmd, True)
            if m == "add_argument_group":
                return new("group", cmd, fval.fields["exclusive"].v)
            if m == "add_argument":
                flags = tuple(a.v for a in args if isinstance(a, K) and isinstance(a.v, str))
                recs.append((cmd or "", bool(fval.fields["exclusive"].v), flags, {k: st.freeze(v) for k, v in kwargs.items()}))
                return K(None)
            if m == "set_defaults":
                recs.append((cmd or "", False, ("<defaults>",), {k: st.freeze(v) for k, v in kwargs.items()}))
                return K(None)
            if m == "parse_args":
                return st.alloc("obj", {"config": K("x"), "command": K(None), "limit": K(None)})
            if m == "print_help":
                return K(None)
        if d in ("get_monkeytype_config",):
            return S("config")
        if d in ("update_args_from_config",):
            return K(None)
        if d == "getattr" and len(args) == 3:
            return args[2]
        return None

    sc = CliScenario(repo, CLI, "main", hook)
    mps = sc.fi.positional_params()
    sc.run({mps[0]: S("argv"), mps[1]: K("stdout"), mps[2]: K("stderr")})
    return recs


def rule_flags(ctx: Ctx, repo: Repo) -> None:
    from .cli_model import CLI, CliScenario
    main = repo.fn("monkeytype.cli", "main")
    ctx.functions.add(main.fq)
    recs = argparse_table(repo)
    ctx.floor("R-C13.4", "add_argument calls reached from main", len(recs), 10)
    sc0 = CliScenario(repo, CLI, "main")
    def tok(member: str) -> V:
        return sc0.ri.interp.eval(ast.parse("ExistingAnnotationStrategy." + member, mode="eval").body, State())
    found: Dict[Tuple[str, str], Tuple[bool, Dict[str, V]]] = {}
    for cmd, excl, flags, kw in recs:
        for f in flags:
            if f in ("--ignore-existing-annotations", "--omit-existing-annotations"):
                found[(cmd, f)] = (excl, kw)
    table = [("stub", "--ignore-existing-annotations", "IGNORE"), ("stub", "--omit-existing-annotations", "OMIT"), ("apply", "--ignore-existing-annotations", "IGNORE")]
    for cmd, flag, const in table:
        ent = found.get((cmd, flag))
        kw = ent[1] if ent else None
        ok = kw is not None and kw.get("action") == K("store_const") and kw.get("dest") == K("existing_annotation_strategy") and \
            kw.get("const") == tok(const) and kw.get("default") == tok("REPLICATE")
        ctx.check(ok, "R-C13.4", main.fq, f"`{cmd} {flag}` stores {const} into existing_annotation_strategy (default REPLICATE)",
                  construct=f"{cmd} {flag}: {None if kw is None else {k: str(v) for k, v in kw.items() if k != 'help'}}")
    excl = [found.get(("stub", f), (False, {}))[0] for f in ("--ignore-existing-annotations", "--omit-existing-annotations")]
    ctx.check(all(excl), "R-C13.4", main.fq, "ignore and omit are mutually exclusive on `stub`", construct=str(excl))
    ctx.check(("apply", "--omit-existing-annotations") not in found, "R-C13.4", main.fq, "`apply` has no omit flag", construct=str(sorted(found)))
    ah = repo.fn("monkeytype.cli", "apply_stub_handler")
    ctx.functions.add(ah.fq)
    from .c15 import overwrite_by_strategy
    for member, (got, want) in overwrite_by_strategy(repo).items():
        ctx.check(got == want, "R-C13.4", ah.fq, "apply overwrites existing annotations exactly when the strategy is IGNORE",
                  construct=f"strategy {member}: overwrite_existing_annotations={got}, expected {want}")


def rule_forwarding(ctx: Ctx, repo: Repo) -> None:
    P = "existing_annotation_strategy"
    sites = call_sites(repo, lambda c: P in c.params)
    # `functools.partial(f, ..., existing_annotation_strategy=x)` binds the parameter like a call of f does
    for fi_p in repo.all_functions():
        for c_p in calls_in(fi_p.node):
            if (dotted(c_p.func) or "").split(".")[-1] == "partial" and c_p.args:
                syn = ast.Call(func=c_p.args[0], args=list(c_p.args[1:]), keywords=list(c_p.keywords))
                ast.copy_location(syn, c_p)
                ast.fix_missing_locations(syn)
                callee_p = repo.resolve_callee(fi_p, syn)
                if callee_p is not None and P in callee_p.params and any(k.arg == P for k in c_p.keywords):
                    sites.append((fi_p, syn, callee_p))
    n = 0
    for caller, call, callee in sites:
        if P not in caller.params and caller.qualname != "get_stub":
            # a caller outside the CLI path that has no strategy of its own may rely on the documented default
            a = bound_argument(callee, call, P)
            ctx.check(a is None, "R-C13.5", caller.fq, f"{caller.qualname} (no strategy of its own) relies on {callee.qualname}'s default REPLICATE",
                      construct=norm(call)[:140], node=call)
            continue
        n += 1
        if any(isinstance(x, ast.Starred) for x in call.args) or any(k.arg is None for k in call.keywords):
            # f(*packed, strategy) / f(**packed): the binding is decided by interpreting the caller
            from . import c01 as _c01
            table = {"get_updated_definition": _c01.rule_updated_definition, "FunctionDefinition.from_callable_and_traced_types": _c01.rule_traced_types}
            if caller.qualname not in table:
                raise AnalysisError(f"R-C13.5: {caller.qualname} passes packed arguments to {callee.qualname}; no interpretive rule covers it")
            table[caller.qualname](ctx, repo)
            continue
        a = bound_argument(callee, call, P)
        ok = a is not None and ((isinstance(a, ast.Name) and a.id == P) or norm(a) == "args.existing_annotation_strategy")
        if ok and isinstance(a, ast.Name):
            g = cfg_of(caller)
            nn = g.node_of(call)
            ok = nn is None or all(k == "param" for _, k, _ in g.origins(a, nn.id))
        ctx.check(ok, "R-C13.5", caller.fq, f"the call of {callee.qualname} forwards the caller's existing_annotation_strategy unchanged",
                  construct=norm(call)[:160], node=call)
    ctx.floor("R-C13.5", "strategy-forwarding call sites on the CLI path", n, 5)
    for fi in repo.all_functions():
        if P in fi.params and P in fi.defaults():
            ctx.check(dotted(fi.defaults()[P]) == "ExistingAnnotationStrategy.REPLICATE", "R-C13.5", fi.fq, "where the strategy has a default it is REPLICATE", construct=norm(fi.defaults()[P]))
    # the enum has exactly the three documented members
    ci = repo.cls(ST, "ExistingAnnotationStrategy")
    ctx.check(sorted(ci.attrs) == ["IGNORE", "OMIT", "REPLICATE"], "R-C13.5", ci.fq, "the strategy enum has exactly REPLICATE, IGNORE, OMIT", construct=str(sorted(ci.attrs)))


def run(ctx: Ctx, repo: Repo, tier: str) -> None:
    ctx.trust("inspect.Parameter.replace / Signature.replace return a copy with the given fields replaced",
              "inspect.Parameter.empty is inspect.Signature.empty",
              "argparse store_const semantics; mutually exclusive groups reject both flags together")
    ctx.attempt(rule_args, ctx, repo)
    ctx.attempt(rule_return, ctx, repo)
    ctx.attempt(rule_optional, ctx, repo)
    ctx.attempt(rule_optional_kinds, ctx, repo)
    # "every unannotated traced one receives the traced type": the traced return / yield type is what comes back from the store
    # (absent stays absent, a type stays that type - also a class object that is false as a truth value) - R-C08.3
    from . import c08 as _c08
    ctx.attempt(_c08.rule_trace_round_trip, ctx, repo)
    ctx.attempt(rule_flags, ctx, repo)
    ctx.attempt(rule_forwarding, ctx, repo)
    # the traced types reach the signature update for every parameter of the signature (C10's rule on the same function)
    from . import c10 as _c10
    ctx.attempt(_c10.rule_params_ignored, ctx, repo)
    # nothing re-works the signature after update_signature_args / update_signature_return decided, per strategy, what each
    # position shows (a later rewrite of the finished annotation would alter a kept source annotation)
    from . import c01 as _c01
    ctx.attempt(_c01.rule_updated_definition, ctx, repo, "R-C13.5")
    ctx.settle()
