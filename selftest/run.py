#!/venv/bin/python
"""Run the mutant bank and the refactoring bank against the checkers (scratch copies under $TMPDIR,
removed immediately; /repo, evidence/ and replay/ are never touched).

  selftest/run.py [--prop C07] [--only mutants|refactors] [--jobs 16] [--write-results]

Exit 0 iff every `viol` mutant is reported (exit 1 + VIOLATION), every `equiv` mutant and every
refactoring keeps the checks silent (exit 0).  STALE entries (source fragment gone) are listed."""
import argparse
import json
import concurrent.futures as cf
import os
import shutil
import subprocess
import sys
import tempfile

HERE = os.path.dirname(os.path.abspath(__file__))
VERIF = os.path.dirname(HERE)
sys.path.insert(0, HERE)
sys.dont_write_bytecode = True
REPO = os.environ.get("MTSA_REPO_SRC", "/repo")
ALL = [f"C{i:02d}" for i in range(1, 19)]


def scratch(edits):
    d = tempfile.mkdtemp(prefix="mtsa-selftest-")
    shutil.copytree(os.path.join(REPO, "monkeytype"), os.path.join(d, "monkeytype"))
    for rel, old, new in edits:
        p = os.path.join(d, rel)
        s = open(p).read()
        if old not in s:
            shutil.rmtree(d)
            return None, f"fragment not found in {rel}"
        s = s.replace(old, new) if rel.endswith("stubs.py") and old in ("render_pos_only_separator", "render_kw_only_separator") else s.replace(old, new, 1)
        try:
            compile(s, p, "exec")
        except SyntaxError as e:
            shutil.rmtree(d)
            return None, f"does not compile: {e}"
        open(p, "w").write(s)
    return d, ""


def run_check(d, prop):
    env = dict(os.environ, MTSA_REPO=d, MTSA_NO_EVIDENCE="1")
    r = subprocess.run([os.path.join(VERIF, "check"), prop], env=env, capture_output=True, text=True)
    first = ""
    for line in r.stdout.splitlines():
        if line.startswith("  R-") or line.startswith("ANALYSIS-ERROR"):
            first = line.strip()[:200]
            break
    return r.returncode, ("VIOLATION" in r.stdout), first


def do_mutant(m):
    mid, prop, rel, old, new, expect, note = m
    d, why = scratch([(rel, old, new)])
    if d is None:
        return ("mutant", mid, prop, expect, "STALE", why)
    try:
        rc, viol, first = run_check(d, prop)
    finally:
        shutil.rmtree(d, ignore_errors=True)
    if expect == "viol":
        ok = rc == 1 and viol
    else:
        ok = rc == 0 and not viol
    return ("mutant", mid, prop, expect, "ok" if ok else f"WRONG(rc={rc})", first)


def scratch_patch(patch):
    d = tempfile.mkdtemp(prefix="mtsa-selftest-")
    shutil.copytree(os.path.join(REPO, "monkeytype"), os.path.join(d, "monkeytype"))
    r = subprocess.run(["git", "apply", "--include=monkeytype/*", patch], cwd=d, capture_output=True, text=True)
    if r.returncode:
        shutil.rmtree(d)
        return None, "patch does not apply: " + r.stderr.strip()[:120]
    return d, ""


def do_seed(sd):
    """a seeded change written by an independent agent (seeded/<id>/patch.diff): its own property's check must report it"""
    sid = os.path.basename(sd)
    prop = sid.split("-")[0]
    d, why = scratch_patch(os.path.join(sd, "patch.diff"))
    if d is None:
        return ("seed", sid, prop, "viol", "STALE", why)
    try:
        rc, viol, first = run_check(d, prop)
    finally:
        shutil.rmtree(d, ignore_errors=True)
    return ("seed", sid, prop, "viol", "ok" if rc == 1 and viol else f"WRONG(rc={rc})", first)


def do_refac_patch(args):
    """a behaviour-preserving refactoring written by an independent agent: the checks must stay silent"""
    patch, props = args
    rid = os.path.basename(patch)[:-5]
    d, why = scratch_patch(patch)
    if d is None:
        return [("refactor", rid, "-", "silent", "STALE", why)]
    out = []
    try:
        for prop in props:
            rc, viol, first = run_check(d, prop)
            out.append(("refactor", rid, prop, "silent", "ok" if rc == 0 and not viol else f"WRONG(rc={rc})", first))
    finally:
        shutil.rmtree(d, ignore_errors=True)
    return out


def do_refactor(r):
    rid, edits, props, note = r
    d, why = scratch(edits)
    if d is None:
        return [("refactor", rid, "-", "silent", "STALE", why)]
    out = []
    try:
        for prop in (props or ALL):
            rc, viol, first = run_check(d, prop)
            out.append(("refactor", rid, prop, "silent", "ok" if rc == 0 and not viol else f"WRONG(rc={rc})", first))
    finally:
        shutil.rmtree(d, ignore_errors=True)
    return out


def main():
    ap = argparse.ArgumentParser()
    ap.add_argument("--prop")
    ap.add_argument("--only", choices=["mutants", "refactors"])
    ap.add_argument("--jobs", type=int, default=min(16, os.cpu_count() or 4))
    ap.add_argument("--write-results", action="store_true")
    a = ap.parse_args()
    from mutants import M
    from refactors import R
    ms = [m for m in M if not a.prop or m[1] == a.prop] if a.only != "refactors" else []
    rs = [r for r in R if not a.prop or (r[2] is None or a.prop in r[2])] if a.only != "mutants" else []
    if a.prop:
        rs = [(rid, e, [a.prop], n) for rid, e, p, n in rs]
    import glob
    seeds = sorted(x for x in glob.glob(os.path.join(VERIF, "seeded", "C*")) if os.path.isdir(x) and (not a.prop or os.path.basename(x).startswith(a.prop + "-"))) if a.only != "refactors" else []
    patches = [(pth, [a.prop] if a.prop else ALL) for pth in sorted(glob.glob(os.path.join(HERE, "refac_patches", "*.diff")))] if a.only != "mutants" else []
    rows = []
    with cf.ThreadPoolExecutor(max_workers=a.jobs) as ex:
        futs = [ex.submit(do_mutant, m) for m in ms] + [ex.submit(do_refactor, r) for r in rs] + [ex.submit(do_seed, sd) for sd in seeds] + [ex.submit(do_refac_patch, pa) for pa in patches]
        for f in futs:
            res = f.result()
            rows.extend(res if isinstance(res, list) else [res])
    # refactorings on which some check is known NOT to stay silent (selftest/refac_open.json: patch -> reason): an open
    # limitation of the machinery, reported as OPEN - never hidden, never counted as a pass
    open_path = os.path.join(HERE, "refac_open.json")
    open_list = json.load(open(open_path)) if os.path.exists(open_path) else {}
    rows = [(r[0], r[1], r[2], r[3], ("OPEN" + r[4][5:]) if (r[0] == "refactor" and r[4].startswith("WRONG") and r[1] in open_list) else r[4], r[5]) for r in rows]
    # seeded changes that the property's own check does NOT report today (selftest/seed_open.json: seed -> reason): a known
    # miss of the machinery, reported as OPEN on every run - never hidden, never counted as a detection
    seed_open_path = os.path.join(HERE, "seed_open.json")
    seed_open = json.load(open(seed_open_path)) if os.path.exists(seed_open_path) else {}
    rows = [(r[0], r[1], r[2], r[3], ("OPEN" + r[4][5:]) if (r[0] == "seed" and r[4].startswith("WRONG") and r[1] in seed_open) else r[4], r[5]) for r in rows]
    bad = [r for r in rows if r[4].startswith("WRONG")]
    stale = [r for r in rows if r[4] == "STALE"]
    n_open = len({r[1] for r in rows if r[4].startswith("OPEN")})
    for r in rows:
        if r[4] != "ok":
            print(f"{r[4]:14} {r[0]:8} {r[1]:32} {r[2]:4} expect={r[3]:6} {r[5]}")
    nm = sum(1 for r in rows if r[0] in ("mutant", "seed"))
    nr = sum(1 for r in rows if r[0] == "refactor")
    print(f"selftest: {nm} mutant runs, {nr} refactor runs, {len(bad)} wrong, {len(stale)} stale, {n_open} refactoring(s) or seed(s) listed as open limitations")
    if a.write_results:
        notes = {m[0]: m[6] for m in M}
        with open(os.path.join(HERE, "RESULTS.md"), "w") as f:
            f.write("# Checker self-test results (generated by selftest/run.py --write-results)\n\n")
            f.write("## Mutants (a change to /repo that breaks a property must be reported by that property's check)\n\n| mutant | property | expected | result | first report / note |\n|---|---|---|---|---|\n")
            for r in rows:
                if r[0] == "mutant":
                    f.write(f"| {r[1]} | {r[2]} | {r[3]} | {r[4]} | {(r[5] or notes.get(r[1], '')).replace('|', '/')[:160]} |\n")
            f.write("\n## Seeded changes by independent agents (seeded/<id>/: the change breaks the property, passes the test suite; the property's own check must report it)\n\n| seed | property | result | first report |\n|---|---|---|---|\n")
            for r in rows:
                if r[0] == "seed":
                    f.write(f"| {r[1]} | {r[2]} | {r[4]} | {r[5].replace('|', '/')[:160]} |\n")
            f.write("\n## Refactorings (behaviour-preserving: every check must stay silent)\n\n| refactoring | check | result | detail |\n|---|---|---|---|\n")
            for r in rows:
                if r[0] == "refactor":
                    f.write(f"| {r[1]} | {r[2]} | {r[4]} | {r[5].replace('|', '/')[:160]} |\n")
    return 1 if bad else 0


if __name__ == "__main__":
    sys.exit(main())
