"""C12 - stubs are valid Python and mirror the traced functions' real signatures (static clauses).

R-C12.1  kind tables compose to Python's truth table: descriptor -> FunctionKind -> decorator text -> receiver-first
R-C12.2  the receiver exemption uses the definition's own has_self
R-C12.3  `async` is taken from the live function and reaches the rendered `async def`
R-C12.4  every module stub built from definitions parses; each traced function appears exactly once, inside its class
R-C12.5  rendered signatures parse back to the same names, kinds, order and presence of defaults, on one line and wrapped
R-C12.6  `= ...` exactly for parameters that have a default
"""
from __future__ import annotations

import ast
import itertools
import textwrap
from typing import Any, Dict, List, Optional, Tuple

from mtsa.absint import K, R, S, U, V
from mtsa.index import Repo, calls_in, dotted, norm, walk_no_nested
from mtsa.report import AnalysisError, Ctx

from . import render_model as RM
from . import sig_model as SM
from .sig_model import EMPTY, ST, StubScenario, param, sig
from .common import bound_argument, call_sites, cfg_of, is_call_to, returns_of

LEVEL = "other"
EXPLANATION = (
    "Static decision of the structural clauses of C12 by abstract rendering (the render()/render_signature/render_parameter/"
    "build_module_stubs bodies are interpreted on abstract stub objects; strings are folded, nothing is executed) followed by "
    "ast.parse of the resulting text: (1) every parameter-kind sequence that Python allows, up to 5 parameters, with and "
    "without defaults and annotations, rendered on one line and wrapped (with a prefix), must parse back to the same "
    "(name, kind, has default) list - this decides the `/` and `*` separator logic, the `*`/`**` prefixes and `= ...`; "
    "(2) FunctionKind.from_callable, the decorator emitted by FunctionStub.render and has_self are evaluated for every "
    "descriptor kind and must compose to Python's own table (classmethod/staticmethod/property/cached_property/plain/module); "
    "(3) build_module_stubs is interpreted on sets of definitions (module functions, methods of every kind, coroutine "
    "functions, nested classes) and the rendered module must parse, contain each traced function exactly once inside its "
    "class with its decorator and `async`, and nothing else. Known finding: a method of a nested class is rendered under "
    "`class Outer.Inner:` (a syntax error). Not decided: line-wrap behaviour on real annotation lengths beyond the sampled ones."
)
FKIND = "monkeytype.stubs.FunctionKind."


# ---------------------------------------------------------------------------
def _kind_sequences(max_len: int) -> List[Tuple[str, ...]]:
    """All parameter-kind sequences Python accepts, up to max_len parameters."""
    out = []
    PO, PK, VP, KO, VK = SM.KINDS
    for n_po in range(0, 3):
        for n_pk in range(0, 3):
            for vp in (0, 1):
                for n_ko in range(0, 3):
                    for vk in (0, 1):
                        seq = (PO,) * n_po + (PK,) * n_pk + (VP,) * vp + (KO,) * n_ko + (VK,) * vk
                        if len(seq) <= max_len:
                            out.append(seq)
    return out


def _parsed_params(fn: ast.AST) -> List[Tuple[str, str, bool, bool]]:
    a = fn.args  # type: ignore[attr-defined]
    out = []
    pos = a.posonlyargs + a.args
    nd = len(a.defaults)
    for i, p in enumerate(pos):
        k = "POSITIONAL_ONLY" if i < len(a.posonlyargs) else "POSITIONAL_OR_KEYWORD"
        out.append((p.arg, k, i >= len(pos) - nd, p.annotation is not None))
    if a.vararg:
        out.append((a.vararg.arg, "VAR_POSITIONAL", False, a.vararg.annotation is not None))
    for p, d in zip(a.kwonlyargs, a.kw_defaults):
        out.append((p.arg, "KEYWORD_ONLY", d is not None, p.annotation is not None))
    if a.kwarg:
        out.append((a.kwarg.arg, "VAR_KEYWORD", False, a.kwarg.annotation is not None))
    return out


def rule_signature(ctx: Ctx, repo: Repo, tier: str) -> None:
    fi = repo.fn(ST, "render_signature")
    ctx.functions.update({fi.fq, f"{ST}.render_parameter"})
    seqs = _kind_sequences(7 if tier == "thorough" else 5)
    n = 0
    for seq in seqs:
        for variant in range(3):
            params = []
            want = []
            seen_default = False
            for i, k in enumerate(seq):
                has_default = k in ("POSITIONAL_ONLY", "POSITIONAL_OR_KEYWORD", "KEYWORD_ONLY") and (
                    (variant == 1 and (i >= len(seq) - 2 or seen_default)) or (variant == 2 and k == "KEYWORD_ONLY" and i % 2 == 0))
                if k in ("POSITIONAL_ONLY", "POSITIONAL_OR_KEYWORD") and seen_default:
                    has_default = True  # Python requires defaults to be trailing among positional parameters
                if has_default and k in ("POSITIONAL_ONLY", "POSITIONAL_OR_KEYWORD"):
                    seen_default = True
                annotated = (i + variant) % 2 == 0
                name = f"p{i}_with_a_long_name"
                params.append(param(name, S("t:int") if annotated else EMPTY, K(None) if has_default and i % 2 else (K(3) if has_default else EMPTY), k))
                want.append((name, k, has_default, annotated))
            s_ = sig(params, S("t:str") if variant != 1 else EMPTY)
            anno = lambda v: "Optional[int]" if isinstance(v, R) else (v.name.split(":")[-1] if isinstance(v, S) else "object")  # noqa: E731
            for max_len, prefix in ((None, ""), (20, ""), (20, "    ")):
                if max_len is not None and not seq:
                    continue
                txt = RM.render_signature(repo, s_, max_len, prefix, anno)
                n += 1
                lab = f"kinds {[k[:6] for k in seq]} variant {variant} wrap={max_len is not None} prefix={prefix!r}"
                src = prefix + "def f" + txt + ": ..."
                try:
                    mod = ast.parse(textwrap.dedent(src) if not prefix else "class _C:\n" + src)
                except SyntaxError as e:
                    ctx.violate("R-C12.5", fi.fq, f"{lab}: `{txt[:80]}`", f"the rendered signature is not valid Python ({e.msg})")
                    continue
                fn = [x for x in ast.walk(mod) if isinstance(x, ast.FunctionDef)][0]
                got = _parsed_params(fn)
                ctx.check([g[:2] for g in got] == [w[:2] for w in want], "R-C12.5", fi.fq,
                          "the rendered parameter list has the same names, kinds and order as the signature (`/` and `*` separators, `*`/`**` prefixes)",
                          construct=f"{lab}: rendered {[(g[0][:2], g[1][:8]) for g in got]}")
                ctx.check([g[2] for g in got] == [w[2] for w in want], "R-C12.6", fi.fq, "`= ...` is rendered exactly for the parameters that have a default",
                          construct=f"{lab}: defaults {[g[2] for g in got]} expected {[w[2] for w in want]}")
                ctx.check([g[3] for g in got] == [w[3] for w in want] and (fn.returns is not None) == (variant != 1), "R-C12.5", fi.fq,
                          "annotations are rendered exactly where the signature has them", construct=f"{lab}")
                if max_len is not None:
                    ctx.check("\n" in txt and all(l.startswith(prefix) for l in txt.split("\n")[1:]), "R-C12.5", fi.fq,
                              "a signature longer than the limit is wrapped, every continuation line carrying the prefix", construct=f"{lab}: {txt[:60]!r}")
    ctx.floor("R-C12.5", "rendered signatures", n, 500)


# ---------------------------------------------------------------------------
DESCRIPTORS = [("classmethod", "CLASS", ["classmethod"], True), ("staticmethod", "STATIC", ["staticmethod"], False),
               ("property", "PROPERTY", ["property"], True), ("cached_property", "DJANGO_CACHED_PROPERTY", ["cached_property"], True),
               ("function", "INSTANCE", [], True), (None, "MODULE", [], False)]


def rule_kinds(ctx: Ctx, repo: Repo) -> None:
    fk = repo.cls(ST, "FunctionKind")
    fc = repo.method(fk, "from_callable")
    ctx.functions.add(fc.fq)
    members = sorted(fk.attrs)
    ctx.check(sorted(k for _, k, _, _ in DESCRIPTORS) == members, "R-C12.1", fk.fq, "every FunctionKind member has a row in the descriptor table (and vice versa)", construct=str(members))
    for desc, want_kind, want_deco, want_self in DESCRIPTORS:
        # (a) descriptor -> kind
        getter: List[V] = []
        def hook(call, fname, fval, args, kwargs, st, _d=desc, _g=getter):
            if fname == "get_name_in_module":
                _g.append(args[2] if len(args) > 2 else kwargs.get("attr_getter", K(None)))
                return R("descriptor", type=K(_d))
            if fname == "isinstance" and len(args) == 2 and isinstance(args[0], R) and args[0].kind == "descriptor":
                c = args[1]
                nm = c.name.split(":")[-1].split(".")[-1] if isinstance(c, S) else None
                return K(nm == args[0].fields["type"].v)
            return None
        sc = StubScenario(repo, "FunctionKind.from_callable", call_hook=hook)
        base_name = sc.ri.interp.on_name
        sc.ri.interp.on_name = lambda name, st, _b=base_name: S("mod:monkeytype.compat.cached_property") if name == "cached_property" else _b(name, st)
        ps = fc.positional_params()
        qual = "f" if desc is None else "C.f"
        res = sc.result({ps[0]: S("class:monkeytype.stubs.FunctionKind"), ps[1]: R("func", __qualname__=K(qual), __module__=K("pkg.mod"))})
        ctx.check(res == S(FKIND + want_kind), "R-C12.1", fc.fq, f"a {desc or 'module-level function'} is classified as {want_kind}",
                  construct=f"{desc}: {res}")
        if desc is not None:
            ctx.check(getter == [S("mod:inspect.getattr_static")], "R-C12.1", fc.fq,
                      "the class attribute is looked up with inspect.getattr_static (a plain getattr would unwrap the descriptor)", construct=f"{getter}")
        # (b) kind -> decorator text (rendered, parsed)
        rec = param("self") if want_self else None
        s_ = sig(([rec] if rec else []) + [param("x", S("t:int"))], S("t:str"))
        for prefix in ("", "    "):
            txt = RM.render(repo, RM.function_stub("f", s_, want_kind), prefix=K(prefix))
            try:
                mod = ast.parse("class _C:\n" + txt if prefix else txt)
                fn = [x for x in ast.walk(mod) if isinstance(x, (ast.FunctionDef, ast.AsyncFunctionDef))][0]
                decos = [dotted(d) for d in fn.decorator_list]
            except SyntaxError as e:
                ctx.violate("R-C12.1", f"{ST}.FunctionStub.render", f"{want_kind}: {txt!r}", f"the rendered function stub does not parse ({e.msg})")
                continue
            ctx.check(decos == want_deco, "R-C12.1", f"{ST}.FunctionStub.render", f"a {want_kind} function is rendered with decorator(s) {want_deco}",
                      construct=f"{want_kind} prefix={prefix!r}: decorators {decos}")
        # (c) kind -> has_self
        fd = RM.inst("FunctionDefinition", kind=RM.fkind(want_kind), qualname=K("f" if desc is None else "C.f"), module=K("pkg.mod"))
        sc2 = StubScenario(repo, "FunctionDefinition.has_self")
        sc2.ri.dispatch_instances = True
        hs = sc2.result({"self": fd})
        ctx.check(hs == K(want_self), "R-C12.1", f"{ST}.FunctionDefinition.has_self", f"a {want_kind} function {'has' if want_self else 'has no'} receiver parameter",
                  construct=f"{want_kind}: has_self={hs}")
    # __new__ receives the class as its first argument although Python keeps it as a static method: a receiver all the same
    for qn in ("C.__new__", "Outer.Inner.__new__"):
        fd_new = RM.inst("FunctionDefinition", kind=RM.fkind("STATIC"), qualname=K(qn), module=K("pkg.mod"))
        sc3 = StubScenario(repo, "FunctionDefinition.has_self")
        sc3.ri.dispatch_instances = True
        hs3 = sc3.result({"self": fd_new})
        ctx.check(hs3 == K(True), "R-C12.1", f"{ST}.FunctionDefinition.has_self",
                  "`__new__` has a receiver parameter (the class it is handed first), which is never annotated - although getattr_static finds it wrapped in a staticmethod",
                  construct=f"{qn} (kind STATIC): has_self={hs3}")
    ctx.functions.update({f"{ST}.FunctionStub.render", f"{ST}.FunctionDefinition.has_self"})
    # (d) within one process: the class attribute is looked up afresh for every stub (a module that was edited and
    # re-imported, e.g. by a long-running tool or a second `stub` call, is described as it is now)
    from . import codec_model as CM
    kinds_of = {d: k for d, k, _, _ in DESCRIPTORS if d is not None}
    pairs = [(a, b) for a in kinds_of for b in kinds_of if a != b][:6] + [("classmethod", None), (None, "staticmethod")]
    nh = 0
    for first, second in pairs:
        def world_with(desc: Any) -> Any:
            w = CM.World()
            w.add("pkg.mod", "C", CM.cls("pkg.mod", "C"))
            w.add("pkg.mod", "C.f", R("descriptor", type=K(desc)) if desc is not None else CM.func("pkg.mod", "C.f"))
            return w

        def hook2(call, fname, fval, args, kwargs, st):
            if fname == "isinstance" and len(args) == 2 and isinstance(args[0], R) and args[0].kind in ("descriptor", "func"):
                c = args[1]
                nm = c.name.split(":")[-1].split(".")[-1] if isinstance(c, S) else None
                return K(args[0].kind == "descriptor" and nm == args[0].fields["type"].v)
            return None

        outs = []
        carry = None
        for desc in (first, second):
            sc = CM.CodecScenario(repo, ST, "FunctionKind.from_callable", world_with(desc))
            base_hook = sc.ri.call_hook
            sc.ri.call_hook = lambda call, fname, fval, args, kwargs, st, _b=base_hook: (hook2(call, fname, fval, args, kwargs, st) if hook2(call, fname, fval, args, kwargs, st) is not None else _b(call, fname, fval, args, kwargs, st))
            bn = sc.ri.interp.on_name
            sc.ri.interp.on_name = lambda name, st, _b=bn: S("mod:monkeytype.compat.cached_property") if name == "cached_property" else _b(name, st)
            ps = fc.positional_params()
            k, res = sc.result({ps[0]: S("class:monkeytype.stubs.FunctionKind"), ps[1]: R("func", __qualname__=K("C.f"), __module__=K("pkg.mod"))}, carry=carry)
            carry = sc.last_state
            outs.append((k, res))
        nh += 1
        want2 = S(FKIND + (kinds_of[second] if second is not None else "INSTANCE"))
        ctx.check(outs[1] == ("return", want2), "R-C12.1", fc.fq,
                  "the kind of a method is read from the class as it is now, also after an earlier stub of the same name in the process",
                  construct=f"C.f was a {first or 'plain method'}, now a {second or 'plain method'}: second classification {outs[1][1]}, expected {want2}")
    ctx.floor("R-C12.1", "classify-edit-classify histories", nh, 6)
    # R-C12.2 the receiver flag passed to update_signature_args is the definition's own has_self, and the signature its own
    # signature: from_callable_and_traced_types is interpreted with a definition that has a receiver and with one that has not
    from . import c01 as _c01
    _c01.rule_traced_types(ctx, repo, "R-C12.2", True)
    _c01.rule_traced_types(ctx, repo, "R-C12.2", False)


def rule_async(ctx: Ctx, repo: Repo) -> None:
    fc = repo.fn(ST, "FunctionDefinition.from_callable")
    ctx.functions.add(fc.fq)
    g = cfg_of(fc)
    p = fc.positional_params()[1]
    ok = False
    for n, val in returns_of(fc):
        if is_call_to(val, "FunctionDefinition") or is_call_to(val, "cls"):
            init = repo.method(repo.cls(ST, "FunctionDefinition"), "__init__")
            a = bound_argument(init, val, "is_async")
            if a is not None:
                roots = g.origins(a, n.id)
                ok = bool(roots) and all(isinstance(r, ast.Call) and dotted(r.func) in ("asyncio.iscoroutinefunction", "inspect.iscoroutinefunction")
                                         and len(r.args) == 1 and dotted(r.args[0]) == p for r, _, _ in roots)
    ctx.check(ok, "R-C12.3", fc.fq, "is_async is iscoroutinefunction(func) of the live function", construct="; ".join(norm(n.ast) for n, _ in returns_of(fc))[:200])
    for is_async in (False, True):
        txt = RM.render(repo, RM.function_stub("f", sig([param("x")]), "MODULE", (), is_async))
        fn = [x for x in ast.walk(ast.parse(txt)) if isinstance(x, (ast.FunctionDef, ast.AsyncFunctionDef))][0]
        ctx.check(isinstance(fn, ast.AsyncFunctionDef) == is_async, "R-C12.3", f"{ST}.FunctionStub.render", "`async def` is rendered exactly for coroutine functions", construct=f"is_async={is_async}: {txt!r}")


def rule_modules(ctx: Ctx, repo: Repo) -> None:
    bm = repo.fn(ST, "build_module_stubs")
    ctx.functions.update({bm.fq, f"{ST}.ModuleStub.render", f"{ST}.ClassStub.render", f"{ST}.ImportBlockStub.render"})
    defs = [
        ("pkg.mod", "alpha", "MODULE", sig([param("x", S("t:int"))], S("t:str")), False),
        ("pkg.mod", "beta", "MODULE", sig([]), True),
        ("pkg.mod", "C.m", "INSTANCE", sig([param("self"), param("y", S("t:int"))]), False),
        ("pkg.mod", "C.make", "CLASS", sig([param("cls")]), False),
        ("pkg.mod", "C.util", "STATIC", sig([param("z")]), False),
        ("pkg.mod", "C.size", "PROPERTY", sig([param("self")], S("t:int")), False),
        ("pkg.mod", "C.run", "INSTANCE", sig([param("self")]), True),
        ("pkg.mod", "D.m", "INSTANCE", sig([param("self")]), False),
        ("pkg.mod", "Outer.Inner.deep", "INSTANCE", sig([param("self")]), False),
        ("pkg.other", "alpha", "MODULE", sig([]), False),
    ]
    subsets: List[Tuple[int, ...]] = [tuple(range(len(defs)))]
    subsets += [(i,) for i in range(len(defs))]
    subsets += [(0, 2, 3), (2, 7), (1, 6), (4, 5, 0), (9, 0), (8, 2), (7, 8)]
    import itertools as _it
    ordered: List[Tuple[int, ...]] = []
    for sub in subsets:
        ordered.append(sub)
        if 2 <= len(sub) <= 4:
            ordered.extend(p for p in _it.permutations(sub) if p != sub)
    ordered.append((2, 7, 3, 0, 6, 9, 4, 1, 5))  # classes interleaved: C, D, C, module, C, other module, C ...
    ordered.append((7, 2, 9, 0, 3))
    for sub in ordered:
        entries = [RM.definition(*defs[i]) for i in sub]
        res = RM.build_module_stubs(repo, entries, lambda ent: {"typing": ("Any",), ent.fields["module"].v: ("C",)})
        want: Dict[str, List[Tuple[Tuple[str, ...], str, str, bool]]] = {}
        for i in sub:
            m, q, k, _, asy = defs[i]
            parts = q.split(".")
            want.setdefault(m, []).append((tuple(parts[:-1]), parts[-1], k, asy))
        mods = {k.v: v for k, v in res.fields["items"]} if isinstance(res, R) and res.kind == "dict" else {}
        ctx.check(sorted(mods) == sorted(want), "R-C12.4", bm.fq, "one module stub per traced module", construct=f"{sorted(mods)} vs {sorted(want)}")
        for m, ms in mods.items():
            txt = RM.render(repo, ms)
            lab = f"definitions {[defs[i][1] for i in sub if defs[i][0] == m]} of {m}"
            nested = [w for w in want.get(m, []) if len(w[0]) > 1]
            try:
                tree = ast.parse(txt)
            except SyntaxError as e:
                bad_line = txt.splitlines()[e.lineno - 1] if e.lineno else ""
                if nested and bad_line.strip().startswith("class ") and "." in bad_line:
                    ctx.violate("R-C12.4", bm.fq, "class stub header of a nested class: `class Outer.Inner:`",
                                "a method of a nested class is rendered under a dotted class name, which is a syntax error for the whole module stub")
                else:
                    ctx.violate("R-C12.4", bm.fq, f"{lab}: line `{bad_line.strip()[:60]}`", f"the rendered module stub is not valid Python ({e.msg})")
                continue
            got = []
            def collect(body, path):
                for x in body:
                    if isinstance(x, (ast.FunctionDef, ast.AsyncFunctionDef)):
                        got.append((path, x.name, isinstance(x, ast.AsyncFunctionDef), [dotted(d) for d in x.decorator_list]))
                    elif isinstance(x, ast.ClassDef):
                        collect(x.body, path + (x.name,))
            collect(tree.body, ())
            exp = sorted((w[0], w[1], w[3]) for w in want[m])
            ctx.check(sorted((g[0], g[1], g[2]) for g in got) == exp, "R-C12.4", bm.fq,
                      "each traced function appears exactly once, inside its class, with `async` iff it is a coroutine function, and nothing else appears",
                      construct=f"{lab}: rendered {sorted((g[0], g[1], g[2]) for g in got)}")
            deco = {"CLASS": ["classmethod"], "STATIC": ["staticmethod"], "PROPERTY": ["property"]}
            for g_ in got:
                k = [w[2] for w in want[m] if (w[0], w[1]) == (g_[0], g_[1])]
                if k:
                    ctx.check(g_[3] == deco.get(k[0], []), "R-C12.1", bm.fq, "the decorator in the module stub matches the function's kind", construct=f"{lab}: {g_[1]} {g_[3]}")


def rule_typed_dict_fields(ctx: Ctx, repo: Repo) -> None:
    """R-C12.7: a generated TypedDict class lists its keys as class attributes `key: type`, so every key of a TypedDict
    that inference can build from a dict must be writable as one: inference is interpreted on concrete dicts whose string
    keys are not identifiers (`my-key`, `1st`, the empty string, a key with a blank) or are reserved words (`class`,
    `from`), for limits that would admit them; AttributeStub.render is interpreted for the key and the line is parsed."""
    import keyword
    from . import concrete_infer as CI
    from .common import RepoInterp
    from mtsa.absint import K, R, S
    attr_render = repo.method(repo.cls("monkeytype.stubs", "AttributeStub"), "render")
    gdt = repo.fn("monkeytype.typing", "get_dict_type")
    ctx.functions.update({attr_render.fq, gdt.fq})

    def field_line(key: str) -> str:
        ri = RepoInterp(repo, attr_render, may_fork=(), heap=True,
                        call_hook=lambda call, fname, fval, args, kwargs, st: K("int") if (fname or "").endswith("render_annotation") else
                        (R("dict", items=()) if (fname or "").endswith("get_imports_for_annotation") else None))
        ri.construct_instances = False
        for um in ("monkeytype.util", "monkeytype.compat"):  # helpers of the stub module that live in the utility modules
            if um in repo.modules:
                ri.inline |= {f.fq for f in repo.modules[um].functions.values() if f.cls is None}
        outs = ri.run({"self": R("inst", name=K(key), typ=S("builtin:int"), __cls__=K(attr_render.cls.fq)), "prefix": K("    ")})
        if len(outs) != 1 or outs[0].term is None or outs[0].term[0] != "return" or not isinstance(outs[0].term[1], K):
            raise AnalysisError("AttributeStub.render: the rendered line is not a foldable string")
        return str(outs[0].term[1].v)

    n = 0
    for key in ("my-key", "1st", "", "a b", "class", "from", "None", "ok_key"):
        for k in (1, 3):
            for extra in ((), (("other", 2),)):
                if len(extra) + 1 > k:
                    continue
                pairs = ((K(key), K(1)),) + tuple((K(a), K(b)) for a, b in extra)
                t = CI.infer(repo, CI.dct("d", *pairs), k)
                n += 1
                tds = CI.typed_dicts_in(t)
                lab = f"get_type({{{', '.join(repr(a.v) + ': ' + repr(b.v) for a, b in pairs)}}}, max_typed_dict_size={k})"
                if not tds:
                    ctx.ok("R-C12.7", gdt.fq, "a dict with a key that cannot be a class attribute is not turned into a TypedDict", scenario=lab)
                    ctx.check(key != "ok_key", "R-C12.7", gdt.fq, "a dict whose keys are all identifiers within the limit is still turned into a TypedDict (the rule does not pass vacuously)",
                              construct=f"{lab} -> {CI.short(t)}")
                    continue
                for td in tds:
                    for fk, _ in CI._items(td.fields["required"]) + CI._items(td.fields["optional"]):
                        name = fk.v if isinstance(fk, K) else str(fk)
                        text = "class X(TypedDict):\n" + field_line(name) + "\n"
                        try:
                            ast.parse(text)
                            okp = True
                        except SyntaxError:
                            okp = False
                        ctx.check(okp, "R-C12.7", gdt.fq,
                                  "every key of a TypedDict that inference builds can be written as a field of the generated class (the stub stays valid Python)",
                                  construct=f"a TypedDict field whose name is {'a reserved word' if keyword.iskeyword(name) else 'not an identifier'}: the generated class has the line `{field_line(name).strip()}`"
                                  if not okp else f"field {name!r}", scenario=lab)
    ctx.floor("R-C12.7", "dicts with awkward string keys inferred", n, 20)


def rule_generated_class_names(ctx: Ctx, repo: Repo) -> None:
    """R-C12.8: the name of the class generated for a TypedDict at a parameter (or at the return / yield of a function) is a
    Python identifier for every legal parameter / function name - also `_1`, `_2fa`, `__`, names with non-ASCII letters: the
    stub carries `class <name>(TypedDict):` and a forward reference to it, neither of which parses otherwise."""
    import keyword
    fi = repo.fn(ST, "get_typed_dict_class_name")
    ctx.functions.add(fi.fq)
    p0 = fi.positional_params()[0]
    names = ["foo", "foo_bar", "x", "_", "__", "_1", "_2fa", "__3", "x_1", "a1", "_private", "__dunder__", "CamelCase", "gr\u00f6\u00dfe", "\u03bb", "C_meth", "Outer_Inner_run"]
    n = 0
    for nm in names:
        sc = StubScenario(repo, "get_typed_dict_class_name")
        sc.ri.inline |= {f.fq for f in repo.module("monkeytype.util").functions.values() if f.cls is None}  # pascal_case and the like
        res = sc.result({p0: K(nm)})
        n += 1
        ok = isinstance(res, K) and isinstance(res.v, str) and res.v.isidentifier() and not keyword.iskeyword(res.v)
        if not (isinstance(res, K) and isinstance(res.v, str)):
            raise AnalysisError(f"R-C12.8: get_typed_dict_class_name({nm!r}) is not determined: {res}")
        ctx.check(ok, "R-C12.8", fi.fq, "the generated class name is an identifier for every legal parameter / function name",
                  construct=f"parameter `{nm}` -> class `{res.v}`")
    ctx.floor("R-C12.8", "parameter / function names turned into class names", n, 12)


def run(ctx: Ctx, repo: Repo, tier: str) -> None:
    ctx.trust("Python's grammar as implemented by ast.parse of the analysing interpreter (oracle for the rendered text)",
              "Python semantics of classmethod/staticmethod/property: which of them receive the instance/class first")
    ctx.attempt(rule_signature, ctx, repo, tier)
    ctx.attempt(rule_kinds, ctx, repo)
    ctx.attempt(rule_async, ctx, repo)
    ctx.attempt(rule_modules, ctx, repo)
    ctx.attempt(rule_typed_dict_fields, ctx, repo)
    ctx.attempt(rule_generated_class_names, ctx, repo)
    # "the receiver parameter of a method is never annotated": the annotation decision table of update_signature_args
    # (strategy x annotated x traced x receiver), decided in full under C13 as R-C13.1
    from . import c13 as _c13
    ctx.attempt(_c13.rule_args, ctx, repo)
    # "each traced function appears": a trace the tracer logged is kept by the store logger whatever was observed for the
    # call (a parameterless function that always raised is a traced function all the same) - R-C17.2
    from . import c17 as _c17
    ctx.attempt(_c17.rule_main_gate, ctx, repo)
    # "the same names, kinds, order and presence of defaults as the real function ... `async` when it is a coroutine function":
    # the stored trace decodes back to the function whose frame ran, not to a wrapper that advertises another signature (R-C08.3)
    from . import c08 as _c08
    ctx.attempt(_c08.rule_trace_round_trip, ctx, repo)
    ctx.settle()
