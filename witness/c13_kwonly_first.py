"""Witness (run by hand): a function of a class whose first parameter is keyword-only (`def lookup(*, key)`, called through the
class) has no receiver; update_signature_args takes position 0 for the receiver all the same and leaves `key` unannotated.
    cd /verif/witness && PYTHONPATH=/repo /venv/bin/python c13_kwonly_first.py      (exit 1 while the defect is present)"""
import sys, tempfile
d = tempfile.mkdtemp(); sys.path.insert(0, d)
open(d + "/wkw.py", "w").write("class Registry:\n    def lookup(*, key, default=None):\n        return key * 2\n")
import wkw
from monkeytype.tracing import CallTrace
from monkeytype.stubs import build_module_stubs_from_traces
txt = build_module_stubs_from_traces([CallTrace(wkw.Registry.lookup, {"key": int, "default": str}, int)], 0)["wkw"].render()
print(txt)
bad = "key: int" not in txt
print("WITNESSED: the traced keyword-only parameter `key` got no annotation" if bad else "not present")
sys.exit(1 if bad else 0)
