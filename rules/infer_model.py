"""Abstract model of type inference (monkeytype.typing.get_type / get_dict_type / shrink_types),
shared by C04, C05 and C06.

The three functions are branch programs over (a) the exact class of the value, (b) the size
of a dict relative to the limit, (c) whether all keys are strings, (d) the mix of shapes in a
collection of types.  Their bodies are interpreted abstractly (mtsa.absint) for every cell of
that partition; container *elements* stay symbolic (one abstract element stands for all), so an
unfiltered comprehension over the container is recognisable as "every element is inspected".
Nothing of the repository is executed.
"""
from __future__ import annotations

import ast
import itertools
from typing import Any, Callable, Dict, List, Optional, Tuple

from mtsa.absint import K, R, S, U, V, State
from mtsa.index import FunctionInfo, Repo, dotted, norm
from mtsa.report import AnalysisError
from .common import origin_token, RepoInterp

TY = "monkeytype.typing"

# class tokens of abstract program values and their (reflexive) ancestors
ANCESTORS: Dict[str, Tuple[str, ...]] = {
    "builtin:list": ("builtin:list",),
    "builtin:set": ("builtin:set",),
    "builtin:dict": ("builtin:dict",),
    "builtin:tuple": ("builtin:tuple",),
    "builtin:frozenset": ("builtin:frozenset",),
    "mod:collections.defaultdict": ("mod:collections.defaultdict", "builtin:dict"),
    "builtin:int": ("builtin:int",),
    "builtin:bool": ("builtin:bool", "builtin:int"),
    "builtin:str": ("builtin:str",),
    "builtin:float": ("builtin:float",),
    "builtin:bytes": ("builtin:bytes",),
    "builtin:NoneType": ("builtin:NoneType",),
    "builtin:type": ("builtin:type",),
    "class:Meta": ("class:Meta", "builtin:type"),  # an instance of it is a class with a metaclass
    "mod:types.FunctionType": ("mod:types.FunctionType", "mod:types.LambdaType"),
    "mod:types.MethodType": ("mod:types.MethodType",),
    "mod:types.BuiltinFunctionType": ("mod:types.BuiltinFunctionType", "mod:types.BuiltinMethodType"),
    "mod:types.GeneratorType": ("mod:types.GeneratorType",),
    "class:User": ("class:User",),
    "class:Handler": ("class:Handler",),  # a user class that defines __call__
    "class:MyList": ("class:MyList", "builtin:list"),
    "class:MyDict": ("class:MyDict", "builtin:dict"),
    "class:MyTuple": ("class:MyTuple", "builtin:tuple"),
    "class:MySet": ("class:MySet", "builtin:set"),
    "class:MyStr": ("class:MyStr", "builtin:str"),
    "class:OrderedDict": ("class:OrderedDict", "builtin:dict"),
}
ALIASES = {"mod:types.LambdaType": "mod:types.FunctionType", "mod:types.BuiltinMethodType": "mod:types.BuiltinFunctionType"}


def val(cls: str, label: str = "v", n: Optional[int] = None, keykind: Optional[str] = None) -> R:
    return R("val", cls=S(cls), label=K(label), n=K(n), keykind=K(keykind))


def identity(v: R) -> str:
    """the object a value record stands for: the label up to '#' (what follows is the moment it is looked at)"""
    return str(v.fields["label"].v).split("#")[0]


def generic(origin: str, *args: V) -> R:
    return R("generic", origin=K(origin), args=K(tuple(args)))


ANY = S("mod:typing.Any")


def canon_elem(v: V) -> V:
    """Canonical form of 'an element / key / value of container c' however it was obtained."""
    if isinstance(v, R) and v.kind == "elem":
        of = v.fields["of"]
        if isinstance(of, R) and of.kind == "view":
            k = of.fields["what"].v
            if k == "keys":
                return R("key_of", of=of.fields["of"])
            if k == "values":
                return R("value_of", of=of.fields["of"])
            return R("item_of", of=of.fields["of"])
        if isinstance(of, R) and of.kind == "val" and of.fields["cls"].name in ("builtin:dict", "mod:collections.defaultdict"):
            return R("key_of", of=of)
        return R("elem_of", of=of)
    if isinstance(v, R) and v.kind == "proj":
        base = canon_elem(v.fields["of"])
        if isinstance(base, R) and base.kind == "item_of":
            return R("key_of" if v.fields["index"].v == 0 else "value_of", of=base.fields["of"])
        return R("proj", of=base, index=v.fields["index"])
    return v


def canon(v: Any) -> Any:
    """Recursively canonicalise element references inside a result."""
    if isinstance(v, R):
        if v.kind in ("elem", "proj"):
            c = canon_elem(v)
            if c is not v and not (isinstance(c, R) and c.kind == v.kind):
                return canon(c)
            return R(c.kind, **{k: canon(x) for k, x in c.fields.items()}) if isinstance(c, R) else c
        if v.kind == "comp":
            f = dict(v.fields)
            over = f["over"]
            # iterating a dict is iterating its keys; iterating keys()/values()/items() views
            f["over"] = canon(over)
            return R("comp", **{k: canon(x) for k, x in f.items()})
        return R(v.kind, **{k: canon(x) for k, x in v.fields.items()})
    if isinstance(v, K) and isinstance(v.v, tuple):
        return K(tuple(canon(x) for x in v.v))
    if isinstance(v, tuple):
        return tuple(canon(x) for x in v)
    return v


class InferScenario:
    """Interprets one function of monkeytype.typing under abstract inputs."""

    def __init__(self, repo: Repo, func: str, inline: Tuple[str, ...] = (), all_str: Optional[bool] = None,
                 any_str: Optional[bool] = None, self_recursion: bool = False, heap: bool = True) -> None:
        self.repo = repo
        self.fi = repo.fn(TY, func)
        self.all_str = all_str
        self.any_str = any_str
        self.self_recursion = self_recursion
        self.calls: List[Tuple[str, Tuple[V, ...], Dict[str, V]]] = []
        inl = {f"{TY}.{x}" for x in inline}
        if self_recursion:
            inl.add(self.fi.fq)
        # helper functions that may be introduced next to the anchored ones are interpreted too (the five
        # inference entry points stay symbolic unless asked for, see call_hook)
        for f in repo.module(TY).functions.values():
            if f.cls is None and f.qualname not in ("get_type", "shrink_types", "get_dict_type", "shrink_typed_dict_types", "make_typed_dict", "field_annotations"):
                inl.add(f.fq)
        self.ri = RepoInterp(repo, self.fi, inline=inl, call_hook=self.call_hook, may_fork=(), heap=heap)
        self.ri.on_subscript = self.on_subscript  # type: ignore[method-assign]
        self.ri.interp.on_subscript = self.on_subscript
        self.ri.on_attr = self.on_attr  # type: ignore[method-assign]
        self.ri.interp.on_attr = self.on_attr
        base_name = self.ri.on_name
        def on_name(name: str, st: State) -> Optional[V]:
            v = base_name(name, st)
            if v is not None:
                return v
            import builtins
            if hasattr(builtins, name):
                return S("builtin:" + name)
            return None
        self.ri.on_name = on_name  # type: ignore[method-assign]
        self.ri.interp.on_name = on_name
        base_cmp = self.ri.interp._compare
        def compare(op: ast.cmpop, a: V, b: V) -> Optional[bool]:
            if isinstance(a, S) and isinstance(b, S) and isinstance(op, (ast.Is, ast.IsNot, ast.Eq, ast.NotEq)):
                r = ALIASES.get(a.name, a.name) == ALIASES.get(b.name, b.name)
                return (not r) if isinstance(op, (ast.IsNot, ast.NotEq)) else r
            if isinstance(op, (ast.Is, ast.IsNot)) and isinstance(a, R) and isinstance(b, R) and a.kind == "val" and b.kind == "val":
                r = identity(a) == identity(b)  # "L#1" and "L#2" are one object at two moments
                return (not r) if isinstance(op, ast.IsNot) else r
            return base_cmp(op, a, b)
        self.ri.interp._compare = compare  # type: ignore[method-assign]

    # -- hooks -------------------------------------------------------------------
    def on_attr(self, obj: V, attr: str, node: ast.AST, st: State) -> Optional[V]:
        if isinstance(obj, R) and obj.kind == "generic":
            if attr == "__args__":
                return obj.fields["args"]
            if attr == "__origin__":
                return origin_token(obj.fields["origin"].v)
        if isinstance(obj, S) and obj.name.startswith("mod:typing.") and attr == "__origin__":
            return origin_token(obj.name[len("mod:typing."):])
        if isinstance(obj, (S,)) and attr in ("__args__",):
            st.pending = st.pending or "AttributeError"
            return U("no __args__")
        return RepoInterp.on_attr(self.ri, obj, attr, node, st)

    def on_subscript(self, obj: V, key: V, node: ast.AST, st: State) -> Optional[V]:
        if isinstance(obj, S) and obj.name.startswith("mod:typing."):
            origin = obj.name[len("mod:typing."):]
            if isinstance(key, K) and isinstance(key.v, tuple):
                return R("generic", origin=K(origin), args=key)
            if isinstance(key, R) and key.kind in ("tuple_of",):
                return R("generic", origin=K(origin), args=key)
            return R("generic", origin=K(origin), args=K((key,)))
        if isinstance(obj, K) and isinstance(obj.v, tuple):
            return RepoInterp.on_subscript(self.ri, obj, key, node, st)
        return RepoInterp.on_subscript(self.ri, obj, key, node, st)

    def _subclass(self, a: V, b: V) -> Optional[V]:
        targets = list(b.v) if isinstance(b, K) and isinstance(b.v, tuple) else [b]
        if not all(isinstance(t, S) for t in targets):
            return None
        if isinstance(a, S):
            anc = ANCESTORS.get(a.name)
            if anc is None:
                raise AnalysisError(f"class token {a.name} not in the model's hierarchy")
            tn = {ALIASES.get(t.name, t.name) for t in targets}
            return K(any(ALIASES.get(x, x) in tn for x in anc))
        if isinstance(a, R) and a.kind == "class_of":
            return R("pred", name=K("issubclass"), subject=a, classes=K(tuple(targets)))
        return None

    def call_hook(self, call: ast.Call, fname: Optional[str], fval: Optional[V], args: List[V], kwargs: Dict[str, V], st: State) -> Optional[V]:
        d = fname or ""
        tail = d.split(".")[-1]
        if d == "type" and len(args) == 1:
            a = args[0]
            if isinstance(a, R) and a.kind == "val":
                return a.fields["cls"]
            if isinstance(a, R) and a.kind == "keyrep":
                return S({"nonstr": "builtin:int", "strsub": "class:MyStr"}.get(a.fields["sort"].v, "builtin:str"))
            return R("class_of", of=a)
        if d == "id" and len(args) == 1 and isinstance(args[0], R) and args[0].kind == "val":
            return R("id", of=K(identity(args[0])))
        if d == "frozenset" and len(args) == 1 and isinstance(args[0], K) and isinstance(args[0].v, frozenset):
            return args[0]
        if d == "callable" and len(args) == 1:
            a = args[0]
            if isinstance(a, K):
                return K(False)
            if isinstance(a, R) and a.kind == "val":
                anc = ANCESTORS.get(a.fields["cls"].name, ())
                return K(any(x in ("builtin:type", "mod:types.FunctionType", "mod:types.MethodType", "mod:types.BuiltinFunctionType", "class:Handler") for x in anc))
            return None
        if d == "issubclass" and len(args) == 2:
            return self._subclass(args[0], args[1])
        if d == "isinstance" and len(args) == 2:
            a = args[0]
            cls: V = a.fields["cls"] if isinstance(a, R) and a.kind == "val" else R("class_of", of=a)
            return self._subclass(cls, args[1])
        if d == "len" and len(args) == 1:
            a = args[0]
            if isinstance(a, R) and a.kind == "val" and a.fields["n"].v is not None:
                return a.fields["n"]
            if isinstance(a, R) and a.kind == "dict":
                return K(len(a.fields["items"]))
            return None
        if d in ("all", "any") and len(call.args) == 1 and isinstance(call.args[0], ast.Call) and dotted(call.args[0].func) == "map" and len(call.args[0].args) == 2 \
                and not call.args[0].keywords and not getattr(call, "_from_map", False):
            # all(map(pred, xs)) is all(pred(x) for x in xs)
            m_c = call.args[0]
            ge = ast.GeneratorExp(elt=ast.Call(func=m_c.args[0], args=[ast.Name(id="__mapped__", ctx=ast.Load())], keywords=[]),
                                  generators=[ast.comprehension(target=ast.Name(id="__mapped__", ctx=ast.Store()), iter=m_c.args[1], ifs=[], is_async=0)])
            fake_c = ast.Call(func=call.func, args=[ge], keywords=[])
            ast.copy_location(fake_c, call)
            ast.fix_missing_locations(fake_c)
            fake_c._from_map = True  # type: ignore[attr-defined]
            return self.ri.interp.eval(fake_c, st)
        if d in ("all", "any") and len(call.args) == 1 and isinstance(call.args[0], (ast.GeneratorExp, ast.ListComp)) \
                and len(call.args[0].generators) == 1 and not call.args[0].generators[0].ifs:
            # a predicate over the keys of the abstract dict: decided per *sort* of key the scenario's dict holds (exact str
            # that is an identifier / not an identifier / a reserved word, instance of a str subclass, not a str at all)
            gen0 = call.args[0].generators[0]
            itv = self.ri.interp.eval(gen0.iter, st)
            dv = itv.fields["of"] if isinstance(itv, R) and itv.kind == "view" and itv.fields["what"] == K("keys") else itv
            if isinstance(dv, R) and dv.kind == "val" and dv.fields.get("keykind", K(None)).v in KEY_SORTS and dv.fields["n"].v is not None:
                sorts = KEY_SORTS[dv.fields["keykind"].v] if dv.fields["n"].v > 0 else ()
                truths: Optional[List[bool]] = []
                for srt in sorts:
                    sub = st.fork()
                    sub.effects, sub.heap, sub._next = st.effects, st.heap, st._next
                    self.ri.interp._assign(gen0.target, R("keyrep", sort=K(srt), of=dv), sub)
                    t_k = self.ri.interp._truth_of(call.args[0].elt, sub)
                    if t_k is None or sub.pending is not None:
                        truths = None
                        break
                    truths.append(t_k)  # type: ignore[union-attr]
                if truths is not None:
                    self.calls.append((d, (canon(args[0]),), {}))
                    return K(all(truths) if d == "all" else any(truths))
        if isinstance(fval, R) and fval.kind == "keyrep" and isinstance(call.func, ast.Attribute) and not args:
            srt = fval.fields["sort"].v
            if call.func.attr == "isidentifier":
                return K(srt in ("ident", "keyword", "strsub"))
        if d in ("keyword.iskeyword", "iskeyword") and len(args) == 1 and isinstance(args[0], R) and args[0].kind == "keyrep":
            return K(args[0].fields["sort"].v == "keyword")
        if d in ("str.isidentifier",) and len(args) == 1 and isinstance(args[0], R) and args[0].kind == "keyrep":
            return K(args[0].fields["sort"].v in ("ident", "keyword", "strsub"))
        if d in ("all", "any") and len(args) == 1:
            a = args[0]
            if isinstance(a, K) and isinstance(a.v, tuple) and all(isinstance(x, K) for x in a.v):
                return K((all if d == "all" else any)(x.v for x in a.v))
            if isinstance(a, R) and a.kind == "list" and all(isinstance(x, K) for x in a.fields["items"]):
                return K((all if d == "all" else any)(x.v for x in a.fields["items"]))
            if isinstance(a, R) and a.kind == "comp":
                self.calls.append((d, (canon(a),), {}))
                elt = canon(a.fields["elt"])
                if (isinstance(elt, R) and elt.kind == "pred" and not a.fields["ifs"]
                        and isinstance(elt.fields["subject"], R) and elt.fields["subject"].kind == "class_of"
                        and isinstance(elt.fields["subject"].fields["of"], R) and elt.fields["subject"].fields["of"].kind == "key_of"
                        and elt.fields["classes"] == K((S("builtin:str"),))):
                    v = self.all_str if d == "all" else self.any_str
                    if v is not None:
                        return K(v)
                return U(f"{d} over an unrecognised predicate")
            return None
        if d in ("tuple", "list", "set", "frozenset") and len(args) == 1:
            a = args[0]
            if isinstance(a, R) and a.kind == "comp":
                return R("tuple_of" if d == "tuple" else d + "_of", comp=a)
            if isinstance(a, K) and isinstance(a.v, tuple):
                return K(tuple(a.v)) if d in ("tuple",) else (R("list", items=tuple(a.v)) if d == "list" else K(frozenset(a.v)))
            if isinstance(a, R) and a.kind == "list":
                return K(tuple(a.fields["items"])) if d == "tuple" else a
            if isinstance(a, R) and a.kind == "val":
                return R(d + "_of", comp=R("comp", ckind=K("gen"), elt=R("elem", of=a), over=a, ifs=()))
            return None
        if isinstance(call.func, ast.Attribute) and isinstance(fval, R) and fval.kind == "val" and call.func.attr in ("keys", "values", "items") and not args:
            return R("view", what=K(call.func.attr), of=fval)
        if d == "getattr" and len(args) >= 2 and isinstance(args[1], K):
            a = args[0]
            if isinstance(a, R) and a.kind == "generic" and args[1].v == "__args__":
                return a.fields["args"]
            if isinstance(a, R) and a.kind == "typeddict" and args[1].v == "__args__":
                return args[2] if len(args) > 2 else None
            if len(args) > 2:
                return args[2]
            return None
        # ---- package functions ------------------------------------------------------
        callee = self.ri.resolve(call, fval)
        if callee is not None and callee.module.name in (TY, "monkeytype.compat"):
            name = callee.qualname
            if name == self.fi.qualname and self.self_recursion:
                return None  # inline (bounded by RepoInterp.max_depth)
            if name in ("get_type", "shrink_types", "get_dict_type", "shrink_typed_dict_types", "make_typed_dict"):
                if callee.fq in self.ri.inline and name != self.fi.qualname:
                    return None
                args = [st.freeze(a) for a in args]
                kwargs = {k: st.freeze(v) for k, v in kwargs.items()}
                self.calls.append((name, tuple(args), dict(kwargs)))
                b = _bind(callee, args, kwargs)
                if name == "get_type" and getattr(self, "fail_nested", None):
                    # fault injection: typing an element fails (a value nested too deeply: RecursionError)
                    from mtsa.absint import raise_exc
                    raise_exc(st, self.fail_nested)
                    return U("typing the element failed")
                if name == "get_type":
                    return R("typeof", of=b.get("obj", U("?")), limit=b.get("max_typed_dict_size", K("<missing>")))
                if name == "shrink_types":
                    return R("shrunk", of=b.get("types", U("?")), limit=b.get("max_typed_dict_size", K("<missing>")))
                if name == "get_dict_type":
                    return R("dict_type", of=b.get("dct", U("?")), limit=b.get("max_typed_dict_size", K("<missing>")))
                if name == "shrink_typed_dict_types":
                    return R("merged_td", of=b.get("typed_dicts", U("?")), limit=b.get("max_typed_dict_size", K("<missing>")))
                if name == "make_typed_dict":
                    return R("typeddict", required=b.get("required_fields", K(None)), optional=b.get("optional_fields", K(None)))
            if name == "field_annotations" and len(args) == 1 and isinstance(args[0], R) and "required" in args[0].fields:
                return K((args[0].fields["required"], args[0].fields["optional"]))
            if name == "is_anonymous_typed_dict" and len(args) == 1:
                return K(isinstance(args[0], R) and args[0].kind in ("typeddict", "merged_td", "anon_td"))
            if name == "is_typed_dict" and len(args) == 1:
                return K(isinstance(args[0], R) and args[0].kind in ("typeddict", "merged_td", "anon_td", "named_td"))
            if name == "types_equal" and len(args) == 2:
                return K(args[0] == args[1])
            if name == "is_list" and len(args) == 1:
                return K(isinstance(args[0], R) and args[0].kind == "generic" and args[0].fields["origin"] == K("List"))
            if name == "is_any" and len(args) == 1:
                return K(args[0] == ANY)
            if name == "is_union" and len(args) == 1:
                return K(isinstance(args[0], R) and args[0].kind == "generic" and args[0].fields["origin"] == K("Union"))
            if name == "is_generic" and len(args) == 1:
                return K(isinstance(args[0], R) and args[0].kind == "generic" or (isinstance(args[0], S) and args[0].name.startswith("mod:typing.") and args[0] != ANY))
            if name == "is_generic_of" and len(args) == 2:
                def org(x: V) -> Optional[str]:
                    if isinstance(x, R) and x.kind == "generic":
                        return x.fields["origin"].v
                    if isinstance(x, S) and x.name.startswith("mod:typing.") and x != ANY:
                        return x.name[len("mod:typing."):]
                    return None
                return K(org(args[0]) is not None and org(args[0]) == org(args[1]))
            if name in ("name_of_generic", "qualname_of_generic") and len(args) == 1:
                a0 = args[0]
                if isinstance(a0, R) and a0.kind == "generic":
                    return a0.fields["origin"]
                if isinstance(a0, S) and a0.name.startswith("mod:typing."):
                    return K(a0.name[len("mod:typing."):])
                return None
        # a rewriter of typing.py built without arguments and kept in a local (`to_dict = RewriteAnonymousTypedDictToDict()`)
        if isinstance(call.func, ast.Name) and not args and not kwargs and fname and self.repo.cls(TY, fname, required=False) is not None \
                and any(c.name == "TypeRewriter" for c in self.repo.mro(self.repo.cls(TY, fname))):
            return R("rwobj", cls=K(fname))
        if isinstance(call.func, ast.Attribute) and call.func.attr == "rewrite" and isinstance(fval, R) and fval.kind == "rwobj":
            ctor = fval.fields["cls"].v
            self.calls.append(("rewrite:" + ctor, tuple(args), {}))
            return R("rewritten", by=K(ctor), of=args[0] if args else U("?"))
        # RewriteAnonymousTypedDictToDict().rewrite(t)
        if isinstance(call.func, ast.Attribute) and call.func.attr == "rewrite" and isinstance(call.func.value, ast.Call):
            ctor = dotted(call.func.value.func) or ""
            self.calls.append(("rewrite:" + ctor, tuple(args), {}))
            return R("rewritten", by=K(ctor), of=args[0] if args else U("?"))
        return None

    def run(self, env: Dict[str, V], carry: Optional[State] = None) -> List[State]:
        outs = self.ri.run(env, carry=carry)
        self.last_state = outs[0] if outs else None
        return outs

    def result(self, env: Dict[str, V], carry: Optional[State] = None) -> V:
        outs = self.run(env, carry=carry)
        if len(outs) != 1:
            raise AnalysisError(f"{self.fi.fq}: {len(outs)} outcomes for one scenario")
        o = outs[0]
        if o.term is None:
            return K(None)
        if o.term[0] != "return":
            return R("raises", what=K(str(o.term[1])))
        return canon(o.freeze(o.term[1]))


def _bind(callee: FunctionInfo, args: List[V], kwargs: Dict[str, V]) -> Dict[str, V]:
    a = callee.node.args  # type: ignore[attr-defined]
    names = [x.arg for x in a.posonlyargs + a.args]
    out: Dict[str, V] = {}
    for n, v in zip(names, args):
        out[n] = v
    out.update(kwargs)
    return out


def elem_types_of(container: V, limit: V, what: str = "elem_of") -> V:
    """The canonical 'get_type of every element of container' comprehension."""
    return R("comp", ckind=K("gen"), elt=R("typeof", of=R(what, of=container), limit=limit),
             over=(container if what == "elem_of" else R("view", what=K({"key_of": "keys", "value_of": "values"}[what]), of=container)), ifs=())


def comp_covers_all(comp: V, container: V, what: str, limit: V) -> Tuple[bool, str]:
    """comp is an unfiltered comprehension over exactly `container` (or the matching view) whose element is
    get_type(<that element>, limit)."""
    if isinstance(comp, K) and isinstance(comp.v, tuple) and comp.v and all(x == R("typeof", of=R(what, of=container), limit=limit) for x in comp.v):
        # a generator helper interpreted eagerly: its loop ran TWICE over the container's representative element and yielded
        # get_type of it both times (a test on the element is an undecided branch; a filter that remembers what it has seen
        # yields nothing the second time)
        if len(comp.v) == 2:
            return True, ""
        return False, f"the helper yields {len(comp.v)} type(s) for two elements of the same class: elements are skipped or repeated"
    if not (isinstance(comp, R) and comp.kind == "comp"):
        return False, f"not a comprehension over the container: {comp}"
    if comp.fields["ifs"]:
        return False, "the comprehension filters elements"
    over = comp.fields["over"]
    ok_over = over == container
    if isinstance(over, R) and over.kind == "view" and over.fields["of"] == container:
        w = over.fields["what"].v
        ok_over = (what == "key_of" and w == "keys") or (what == "value_of" and w == "values") or (w == "items")
    if what == "key_of" and over == container:
        ok_over = True
    if what == "value_of" and over == container:
        ok_over = False
    if not ok_over:
        return False, f"iterates {over}, not the inspected container"
    want = R("typeof", of=R(what, of=container), limit=limit)
    if comp.fields["elt"] != want:
        return False, f"element type is {comp.fields['elt']}, expected get_type of each {what.replace('_of', '')} with the same limit"
    return True, ""


# ---------------------------------------------------------------------------
# Tables
# ---------------------------------------------------------------------------

GET_TYPE_CLASSES = [
    "builtin:type", "class:Meta", "mod:types.FunctionType", "mod:types.MethodType", "mod:types.BuiltinFunctionType",
    "mod:types.GeneratorType", "builtin:list", "builtin:set", "builtin:dict", "mod:collections.defaultdict",
    "builtin:tuple", "builtin:frozenset", "builtin:int", "builtin:bool", "builtin:str", "builtin:NoneType",
    "class:User", "class:Handler", "class:MyList", "class:MyDict", "class:MyTuple", "class:MySet", "class:MyStr", "class:OrderedDict",
]


def get_type_table(repo: Repo, limits: Tuple[int, ...] = (0, 2)) -> List[Tuple[str, int, R, V]]:
    """(class token, limit, abstract value, abstract result) for every class of the partition."""
    fi = repo.fn(TY, "get_type")
    ps = fi.positional_params()
    out = []
    for cls in GET_TYPE_CLASSES:
        for m in limits:
            sc = InferScenario(repo, "get_type")
            o = val(cls, "o")
            out.append((cls, m, o, sc.result({ps[0]: o, ps[1]: K(m)})))
    return out


# sorts of key an abstract dict of each key kind holds
KEY_SORTS: Dict[str, Tuple[str, ...]] = {
    "str": ("ident",),                   # every key an exact str that can be written as a class field
    "mixed": ("ident", "nonstr"),
    "nonstr": ("nonstr",),
    "nonident": ("ident", "nonident"),   # exact str keys, one of them not an identifier ("my-key", "")
    "keyword": ("ident", "keyword"),     # exact str keys, one of them a reserved word ("class")
    "strsub": ("strsub",),               # instances of a subclass of str
}


def dict_type_table(repo: Repo) -> List[Tuple[int, str, int, R, V]]:
    fi = repo.fn(TY, "get_dict_type")
    ps = fi.positional_params()
    out = []
    for n in (0, 1, 2, 3):
        for kk in ("str", "mixed", "nonstr", "nonident", "keyword", "strsub"):
            if n == 0 and kk != "str":
                continue
            if n < len(KEY_SORTS[kk]):
                continue
            for m in (0, 1, 2, 3):
                sc = InferScenario(repo, "get_dict_type", all_str=(kk == "str"), any_str=(kk != "nonstr" and n > 0))
                d = val("builtin:dict", "d", n=n, keykind=kk)
                out.append((n, kk, m, d, sc.result({ps[0]: d, ps[1]: K(m)})))
    return out


def shrink_inputs(max_size: int = 3) -> List[Tuple[V, ...]]:
    A, B = R("anon_td", id=K("A")), R("anon_td", id=K("B"))
    i, s_ = S("builtin:int"), S("builtin:str")
    li, ls, lA, lB = generic("List", i), generic("List", s_), generic("List", A), generic("List", B)
    di = generic("Dict", s_, i)
    tA = generic("Tuple", A)
    dE = generic("Dict", ANY, ANY)  # an observed empty dict
    base = [A, B, i, s_, li, ls, lA, lB, di, tA, dE]
    out: List[Tuple[V, ...]] = [()]
    for n in range(1, max_size + 1):
        for combo in itertools.combinations_with_replacement(range(len(base)), n):
            out.append(tuple(base[j] for j in combo))
    return out


def shrink_result(repo: Repo, types: Tuple[V, ...], m: int) -> V:
    fi = repo.fn(TY, "shrink_types")
    ps = fi.positional_params()
    sc = InferScenario(repo, "shrink_types", self_recursion=True)
    return sc.result({ps[0]: K(tuple(types)), ps[1]: K(m)})


def covers(res: V, t: V) -> bool:
    """Every value of (abstract) type t is admitted by the (abstract) result type."""
    if res == t or res == ANY:
        return True
    if isinstance(res, R):
        if res.kind == "generic" and res.fields["origin"] == K("Union"):
            args = res.fields["args"]
            return isinstance(args, K) and any(covers(a, t) for a in args.v)
        if res.kind == "merged_td":
            of = res.fields["of"]
            return isinstance(of, K) and t in of.v
        if res.kind == "rewritten":
            return covers(res.fields["of"], t)
        if res.kind == "generic" and isinstance(t, R) and t.kind == "generic" and t.fields["origin"] == res.fields["origin"]:
            ra, ta = res.fields["args"], t.fields["args"]
            if isinstance(ra, K) and isinstance(ta, K) and len(ra.v) == len(ta.v):
                return all(covers(x, y) for x, y in zip(ra.v, ta.v))
    return False


def tight(res: V, inputs: Tuple[V, ...]) -> Tuple[bool, str]:
    """Every leaf of the result is witnessed by an input (no invented alternative)."""
    if res == ANY:
        return (len(inputs) == 0, "Any although types were observed" if inputs else "")
    if res in inputs:
        return True, ""
    if isinstance(res, R):
        if res.kind == "generic" and res.fields["origin"] == K("Union"):
            args = res.fields["args"]
            if not isinstance(args, K):
                return False, f"opaque union arguments {args}"
            for a in args.v:
                ok, why = tight(a, inputs)
                if not ok:
                    return False, why
            return True, ""
        if res.kind == "merged_td":
            of = res.fields["of"]
            ok = isinstance(of, K) and all(x in inputs for x in of.v) and all(isinstance(x, R) and x.kind == "anon_td" for x in of.v)
            return ok, "" if ok else f"merged TypedDict over {of}, not over the observed TypedDicts"
        if res.kind == "rewritten":
            if res.fields["by"] != K("RewriteAnonymousTypedDictToDict"):
                return False, f"rewritten by {res.fields['by']}"
            return tight(res.fields["of"], inputs)
        if res.kind == "generic":
            same = [t for t in inputs if isinstance(t, R) and t.kind == "generic" and t.fields["origin"] == res.fields["origin"]]
            ra = res.fields["args"]
            if not same or not isinstance(ra, K):
                return False, f"{res} has no observed counterpart"
            for idx, a in enumerate(ra.v):
                sub = tuple(t.fields["args"].v[idx] for t in same if isinstance(t.fields["args"], K) and idx < len(t.fields["args"].v))
                ok, why = tight(a, sub)
                if not ok:
                    return False, why
            return True, ""
    return False, f"{res} is not derived from the observed types"


def multiset_key(res: V) -> Any:
    """Order-insensitive normal form of a shrink result (Union members / merged inputs as multisets)."""
    if isinstance(res, R):
        if res.kind == "generic" and res.fields["origin"] == K("Union") and isinstance(res.fields["args"], K):
            return ("Union", tuple(sorted(repr(multiset_key(a)) for a in res.fields["args"].v)))
        if res.kind == "merged_td" and isinstance(res.fields["of"], K):
            return ("merged", tuple(sorted(repr(x) for x in res.fields["of"].v)), repr(res.fields["limit"]))
        if res.kind == "generic" and isinstance(res.fields["args"], K):
            return ("generic", res.fields["origin"].v, tuple(multiset_key(a) for a in res.fields["args"].v))
        if res.kind == "rewritten":
            return ("rewritten", multiset_key(res.fields["of"]))
    return repr(res)


# ---------------------------------------------------------------------------
# TypedDict merging (shrink_typed_dict_types) over exhaustively enumerated small shapes
# ---------------------------------------------------------------------------

def td(idx: int, shape: Dict[str, str], same: bool = False) -> R:
    """An anonymous TypedDict whose fields are given as name -> 'r' (required) | 'o' (optional);
    value types are distinct symbolic tokens - or, with `same`, one token per KEY shared by all the TypedDicts (every dict
    seen at the position holds the same type under that key: the common case, and the one in which two TypedDicts can be
    EQUAL in their required part and still differ in their optional part)."""
    tok = (lambda k: S(f"V.{k}")) if same else (lambda k: S(f"T{idx}.{k}"))
    req = tuple((K(k), tok(k)) for k, st_ in shape.items() if st_ == "r")
    opt = tuple((K(k), tok(k)) for k, st_ in shape.items() if st_ == "o")
    return R("anon_td", id=K(idx), required=R("dict", items=req), optional=R("dict", items=opt))


def td_shapes(keys: Tuple[str, ...]) -> List[Dict[str, str]]:
    out = []
    for combo in itertools.product(("-", "r", "o"), repeat=len(keys)):
        sh = {k: c for k, c in zip(keys, combo) if c != "-"}
        if sh:
            out.append(sh)
    return out


def merge_result(repo: Repo, tds: Tuple[R, ...], m: int) -> V:
    fi = repo.fn(TY, "shrink_typed_dict_types")
    ps = fi.positional_params()
    sc = InferScenario(repo, "shrink_typed_dict_types", heap=True)
    return sc.result({ps[0]: K(tuple(tds)), ps[1]: K(m)})


def merge_spec(tds: Tuple[R, ...]) -> Tuple[Dict[str, List[V]], set, set]:
    """(all value types per key, required keys, optional keys) as the property states them."""
    types: Dict[str, List[V]] = {}
    required_in: Dict[str, int] = {}
    for t in tds:
        for k, v in t.fields["required"].fields["items"]:
            types.setdefault(k.v, []).append(v)
            required_in[k.v] = required_in.get(k.v, 0) + 1
        for k, v in t.fields["optional"].fields["items"]:
            types.setdefault(k.v, []).append(v)
    req = {k for k in types if required_in.get(k, 0) == len(tds)}
    return types, req, set(types) - req
