"""Witness (run by hand): a class object that is false as a truth value (its metaclass defines __len__) as the key type of a
dict / the element type of a tuple makes RewriteConfigDict and RewriteLargeUnion narrow:
    cd /verif/witness && PYTHONPATH=/repo /venv/bin/python c07_falsy_class.py      (exit 1 while the defect is present)"""
import sys
from typing import Dict, Tuple, Union
from monkeytype.typing import RewriteConfigDict, RewriteLargeUnion


class Meta(type):
    def __len__(cls):  # a registry of plugins, still empty
        return 0


class Registry(metaclass=Meta):
    pass


bad = []
u = Union[Dict[Registry, int], Dict[str, str]]
r = RewriteConfigDict().rewrite(u)
print(u, "->", r)
if r != u:
    bad.append("RewriteConfigDict merged dicts with DIFFERENT key types (Registry / str): %r" % (r,))
u2 = Union[Tuple[Registry], Tuple[Registry, Registry], Tuple[int], Tuple[int, int], Tuple[int, int, int], Tuple[int, int, int, int]]
r2 = RewriteLargeUnion().rewrite(u2)
print(u2, "->", r2)
if r2 == Tuple[int, ...]:
    bad.append("RewriteLargeUnion made Tuple[int, ...] of tuples that hold Registry objects")
print("\n".join("WITNESSED: " + b for b in bad) or "not present")
sys.exit(1 if bad else 0)
