#!/venv/bin/python
"""tools/rebase_patches.py: after fix commits moved /repo's HEAD, re-base every banked patch (seeded/*/patch.diff,
selftest/refac_patches/*.diff) that no longer applies, with a 3-way merge in a scratch worktree (removed afterwards).
Patches that merge cleanly are rewritten in place; conflicts are listed for manual work."""
import glob, os, subprocess, sys, tempfile, shutil
wt = tempfile.mkdtemp(prefix="mtsa-rebase-")
subprocess.run(["git", "-C", "/repo", "worktree", "add", "-q", "--detach", wt, "HEAD"], check=True)
def sh(*a):
    return subprocess.run(a, cwd=wt, capture_output=True, text=True)
try:
    pats = sorted(glob.glob("/verif/seeded/*/patch.diff")) + sorted(glob.glob("/verif/selftest/refac_patches/*.diff"))
    n_ok = n_re = 0
    bad = []
    for p in pats:
        sh("git", "reset", "-q", "--hard", "HEAD"); sh("git", "clean", "-fdq")
        if sh("git", "apply", "--check", "--include=monkeytype/*", p).returncode == 0:
            n_ok += 1
            continue
        r = sh("git", "apply", "--3way", "--include=monkeytype/*", p)
        if r.returncode != 0 or "U " in sh("git", "status", "--short").stdout or "<<<<<<<" in sh("git", "diff").stdout + sh("git", "diff", "--cached").stdout:
            bad.append((p, r.stderr.strip().splitlines()[-1] if r.stderr.strip() else "conflict"))
            continue
        d = sh("git", "diff", "HEAD").stdout
        if not d.strip():
            bad.append((p, "empty after merge"))
            continue
        # must still compile
        okc = True
        for f in sh("git", "diff", "HEAD", "--name-only").stdout.split():
            if f.endswith(".py"):
                try:
                    compile(open(os.path.join(wt, f)).read(), f, "exec")
                except SyntaxError as e:
                    okc = False
        if not okc:
            bad.append((p, "does not compile after merge"))
            continue
        open(p, "w").write(d)
        n_re += 1
    print(f"{len(pats)} patches: {n_ok} apply as they are, {n_re} re-based, {len(bad)} need manual work")
    for p, why in bad:
        print("  MANUAL", p.replace("/verif/", ""), "-", why)
finally:
    subprocess.run(["git", "-C", "/repo", "worktree", "remove", "--force", wt])
    shutil.rmtree(wt, ignore_errors=True)
