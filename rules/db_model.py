"""Abstract model of monkeytype/db/sqlite.py shared by C08 and C09: the SQL text and the bound
parameters are obtained by abstract interpretation of make_query / SQLiteStore.add /
create_call_trace_table / list_modules (string building is folded; values stay symbolic)."""
from __future__ import annotations

import ast
from typing import Any, Dict, List, Optional, Tuple

from mtsa import sqlmini
from mtsa.absint import K, R, Ref, S, U, V, State
from mtsa.index import Repo, dotted, norm
from mtsa.report import AnalysisError
from .common import RepoInterp

DB = "monkeytype.db.sqlite"


class DbScenario:
    def __init__(self, repo: Repo, qualname: str, attrs: Optional[Dict[str, V]] = None) -> None:
        self.repo = repo
        self.fi = repo.fn(DB, qualname)
        self.attrs = attrs or {}
        self.executed: List[Tuple[str, V, Tuple[V, ...], bool]] = []  # (method, sql, params, inside `with conn`)
        self.with_depth = 0
        self.fail_write: Optional[str] = None  # exception class name raised by the next execute*/executemany
        self.rows: Optional[V] = None  # concrete result of fetchall() when set
        self.batch: Optional[V] = None  # concrete result of serialize_traces (a tuple of row objects) when set
        inline = {f.fq for f in repo.module(DB).functions.values()}
        self.ri = RepoInterp(repo, self.fi, inline=inline, call_hook=self.call_hook, may_fork=(), heap=True)
        self.ri.on_attr = self.on_attr  # type: ignore[method-assign]
        self.ri.interp.on_attr = self.on_attr

    KNOWN_ATTRS = ("conn", "table")

    def _extra_containers(self) -> Dict[str, ast.AST]:
        """attributes besides conn/table that __init__ initialises to an empty container (a memo somebody
        added): they get a real heap object that lives as long as the store"""
        from .common import _is_mutable_ctor
        out: Dict[str, ast.AST] = {}
        if self.fi.cls is None:
            return out
        init = self.repo.method(self.fi.cls, "__init__")
        if init is None:
            return out
        for x in ast.walk(init.node):
            tgt = val = None
            if isinstance(x, ast.Assign) and len(x.targets) == 1:
                tgt, val = x.targets[0], x.value
            elif isinstance(x, ast.AnnAssign) and x.value is not None:
                tgt, val = x.target, x.value
            if isinstance(tgt, ast.Attribute) and isinstance(tgt.value, ast.Name) and tgt.value.id == "self" and tgt.attr not in self.KNOWN_ATTRS \
                    and val is not None and _is_mutable_ctor(val):
                out[tgt.attr] = val
        return out

    def on_attr(self, obj: V, attr: str, node: ast.AST, st: State) -> Optional[V]:
        if isinstance(obj, S) and obj.name == "self":
            if attr in self.attrs:
                return self.attrs[attr]
            extra = self._extra_containers()
            if attr in extra:
                key = f"__global__:self.{attr}"
                if key not in st.env:
                    st.env[key] = self.ri.interp.eval(extra[attr], st)
                return st.env[key]
            return S("self." + attr)
        if isinstance(obj, R) and obj.kind in ("elem", "proj", "rowobj"):
            return R("attr", of=obj, name=K(attr))
        return RepoInterp.on_attr(self.ri, obj, attr, node, st)

    def call_hook(self, call: ast.Call, fname: Optional[str], fval: Optional[V], args: List[V], kwargs: Dict[str, V], st: State) -> Optional[V]:
        meth = call.func.attr if isinstance(call.func, ast.Attribute) else None
        d = fname or ""
        conn_like = isinstance(fval, (S, R)) and ("conn" in repr(fval) or "cursor" in repr(fval))
        if meth in ("execute", "executemany", "executescript") and conn_like:
            in_with = sum(1 for e in st.effects if e[0] == "with-enter" and "conn" in str(e[1])) - sum(1 for e in st.effects if e[0] == "with-exit" and "conn" in str(e[1]))
            self.executed.append((meth, args[0] if args else U("?"), tuple(st.freeze(a) for a in args[1:]), in_with > 0))
            st.effects.append(("sql", meth, st.freeze(args[0]) if args else None))
            if self.fail_write is not None:
                st.pending = st.pending or self.fail_write
                self.fail_write = None
                return U("write failed")
            return R("cursor", of=fval)
        if meth == "cursor" and conn_like:
            return R("cursor", of=fval)
        if meth in ("commit", "rollback") and conn_like:
            st.effects.append((meth,))
            return K(None)
        if meth == "fetchall" and isinstance(fval, R) and fval.kind == "cursor" and self.rows is not None:
            st.effects.append(("fetch", meth))
            return self.rows
        if meth in ("fetchall", "fetchmany", "fetchone") and isinstance(fval, R) and fval.kind == "cursor":
            st.effects.append(("fetch", meth))
            return R("rows", how=K(meth), args=K(tuple(args)))
        if d.endswith("datetime.now") or d.endswith("datetime.utcnow") or d in ("time.time",):
            return R("timestamp", how=K(d))
        if d.split(".")[-1] == "serialize_traces" and self.batch is not None:
            return self.batch
        if d.split(".")[-1] == "serialize_traces":
            return R("serialized", of=args[0] if args else U("?"))
        if d == "CallTraceRow" or d.endswith(".CallTraceRow"):
            return R("row_object", args=K(tuple(args)))
        return None

    def run(self, env: Dict[str, V], carry: Optional[State] = None) -> List[State]:
        e = {"self": S("self")}
        e.update(env)
        return self.ri.run(e, carry=carry)


def query(repo: Repo, with_prefix: bool) -> Tuple[str, List[V]]:
    fi = repo.fn(DB, "make_query")
    ps = fi.positional_params()
    if len(ps) != 4:
        raise AnalysisError("make_query signature changed")
    sc = DbScenario(repo, "make_query")
    outs = sc.run({ps[0]: K("T"), ps[1]: S("module"), ps[2]: S("prefix") if with_prefix else K(None), ps[3]: S("limit")})
    if len(outs) != 1 or outs[0].term is None or outs[0].term[0] != "return":
        raise AnalysisError("make_query: no single result")
    res = outs[0].freeze(outs[0].term[1])
    if not (isinstance(res, K) and isinstance(res.v, tuple) and len(res.v) == 2 and isinstance(res.v[0], K) and isinstance(res.v[0].v, str)):
        raise AnalysisError(f"make_query: the SQL text is not a foldable string ({res})")
    vals = res.v[1]
    if not (isinstance(vals, R) and vals.kind == "list"):
        raise AnalysisError("make_query: bound values are not a list")
    return res.v[0].v, list(vals.fields["items"])
