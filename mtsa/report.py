"""Findings, known findings, evidence files and exit codes.

Exit codes of a check:  0 = every rule instance holds (known findings are printed),
1 = at least one unlisted violation (a `VIOLATION property=<id> replay=<path>` line),
2 = the analysis itself could not run (`ANALYSIS-ERROR`), never a silent pass.
"""
from __future__ import annotations

import hashlib
import json
import os
import sys
import time
import traceback
from dataclasses import dataclass, field
from pathlib import Path
from typing import Any, Callable, Dict, List, Optional

VERIF = Path(__file__).resolve().parent.parent


class AnalysisError(Exception):
    """The analysis cannot be carried out (anchor missing, unsupported construct)."""


@dataclass
class Finding:
    rule: str
    where: str  # module.qualname of the function (or module) the construct lives in
    construct: str  # normalised text of the offending construct
    message: str
    detail: Dict[str, Any] = field(default_factory=dict)
    line: Optional[int] = None
    file: Optional[str] = None
    where_key: Optional[str] = None  # role name of the function when it was located by role, not by name

    @property
    def key(self) -> str:
        return f"{self.rule}|{self.where_key or self.where}|{self.construct}"


class Ctx:
    """Collects what one check analysed and what it found."""

    def __init__(self, property_id: str, tier: str) -> None:
        self.property_id = property_id
        self.tier = tier
        self.findings: List[Finding] = []
        self.instances: List[Dict[str, Any]] = []  # every obligation examined
        self.functions: set = set()
        self.notes: List[str] = []
        self.trusted: List[str] = []
        self.assumptions: List[str] = []
        self.counters: Dict[str, int] = {}
        # function located by its role (a renamed private helper) -> the name findings about it are keyed by
        self.alias: Dict[str, str] = {}
        self.deferred: List[AnalysisError] = []

    # -- obligations -------------------------------------------------------
    def ok(self, rule: str, where: str, what: str, **extra: Any) -> None:
        d = {"rule": rule, "where": where, "obligation": what, "verdict": "holds"}
        d.update(extra)
        self.instances.append(d)

    def violate(
        self,
        rule: str,
        where: str,
        construct: str,
        message: str,
        node: Any = None,
        file: Optional[str] = None,
        **detail: Any,
    ) -> None:
        line = getattr(node, "lineno", None) if node is not None else None
        f = Finding(rule, where, construct, message, detail, line, file, self.alias.get(where))
        self.findings.append(f)
        self.instances.append(
            {
                "rule": rule,
                "where": where,
                "obligation": message,
                "construct": construct,
                "verdict": "violated",
                "line": line,
            }
        )

    def check(
        self,
        cond: bool,
        rule: str,
        where: str,
        what: str,
        construct: str = "",
        node: Any = None,
        **detail: Any,
    ) -> bool:
        """Discharge obligation `what` if cond, else record a violation."""
        if cond:
            self.ok(rule, where, what)
        else:
            self.violate(rule, where, construct or what, what, node=node, **detail)
        return bool(cond)

    def floor(self, rule: str, what: str, count: int, minimum: int) -> None:
        """Instance floor: a rule matching fewer sites than confirmed by hand is broken."""
        self.counters[f"{rule}:{what}"] = count
        if count < minimum:
            raise AnalysisError(
                f"{rule}: only {count} instance(s) of '{what}' found, "
                f"expected at least {minimum}; the rule would pass vacuously"
            )

    def count(self, name: str, n: int = 1) -> None:
        self.counters[name] = self.counters.get(name, 0) + n

    def trust(self, *items: str) -> None:
        for i in items:
            if i not in self.trusted:
                self.trusted.append(i)

    def assume(self, *items: str) -> None:
        for i in items:
            if i not in self.assumptions:
                self.assumptions.append(i)

    def note(self, s: str) -> None:
        self.notes.append(s)

    def attempt(self, rule_fn: Callable[..., None], *args: Any) -> None:
        """Run one rule; an ANALYSIS-ERROR of this rule does not stop the rules after it (they may still find
        violations, which are then reported); the first deferred error is raised by `settle()` at the end."""
        try:
            rule_fn(*args)
        except AnalysisError as e:
            self.deferred.append(e)

    def settle(self) -> None:
        if self.deferred:
            raise self.deferred[0]


def load_known_findings() -> Dict[str, Dict[str, Any]]:
    p = VERIF / "known_findings.json"
    if not p.exists():
        return {}
    data = json.loads(p.read_text())
    out = {}
    for e in data.get("known", []):
        out[e["key"]] = e
    return out


def run_check(
    property_id: str,
    tier: str,
    level: str,
    rules: Callable[[Ctx], None],
    explanation: str,
    checker_cmd: str,
) -> int:
    t0 = time.time()
    ctx = Ctx(property_id, tier)
    seed = int(os.environ.get("VERIF_SEED", "0") or 0)
    analysis_error: Optional[str] = None
    try:
        rules(ctx)
    except AnalysisError as e:
        analysis_error = str(e)
    except Exception as e:  # a traceback must not look like a violation
        traceback.print_exc()
        analysis_error = f"internal error: {type(e).__name__}: {e}"
    if analysis_error is not None:
        print(f"ANALYSIS-ERROR property={property_id} {analysis_error}")
        if not ctx.findings:
            _write_evidence(ctx, level, seed, t0, explanation, checker_cmd, error=analysis_error)
            return 2
        # rules that ran before the analysis stopped did find violations: report those (exit 1 below)

    known = load_known_findings()
    new: List[Finding] = []
    seen_known = set()
    for f in ctx.findings:
        k = known.get(f.key)
        if k is not None and (k.get("property") == property_id or property_id in k.get("also", ())):
            if f.key not in seen_known:
                print(f"KNOWN-FINDING: property={property_id} {f.rule} {f.where}: {k.get('what', f.message)}")
                seen_known.add(f.key)
        elif f.key not in {x.key for x in new}:
            new.append(f)

    rc = 0
    if new:
        rc = 1
        rdir = VERIF / "replay"
        if os.environ.get("MTSA_NO_EVIDENCE"):
            import tempfile

            rdir = Path(tempfile.gettempdir()) / "mtsa-selftest-replay"
        rdir.mkdir(exist_ok=True)
        shown: Dict[tuple, int] = {}
        for f in new:
            grp = (f.rule, f.where)
            shown[grp] = shown.get(grp, 0) + 1
            if shown[grp] > 3:
                continue
            h = hashlib.sha1(f.key.encode()).hexdigest()[:10]
            rp = rdir / f"{property_id}-{f.rule}-{h}.json"
            rp.write_text(
                json.dumps(
                    {
                        "property": property_id,
                        "rule": f.rule,
                        "where": f.where,
                        "file": f.file,
                        "line": f.line,
                        "construct": f.construct,
                        "message": f.message,
                        "detail": f.detail,
                        "key": f.key,
                        "replay": f"cd /verif && ./check {property_id} --tier {tier}",
                    },
                    indent=1,
                    default=str,
                )
            )
            loc = f"{f.where}" + (f":{f.line}" if f.line else "")
            print(f"  {f.rule} at {loc}: {f.message}\n      construct: {f.construct}")
            print(f"VIOLATION property={property_id} replay={rp}")
        for grp, cnt in shown.items():
            if cnt > 3:
                print(f"  ... and {cnt - 3} more violation(s) of {grp[0]} in {grp[1]} (all listed in the evidence file)")
    if analysis_error is not None and not new:
        _write_evidence(ctx, level, seed, t0, explanation, checker_cmd, n_known=len(seen_known), error=analysis_error)
        return 2
    _write_evidence(
        ctx, level, seed, t0, explanation, checker_cmd, n_viol=len(new), n_known=len(seen_known), error=analysis_error
    )
    holds = sum(1 for i in ctx.instances if i["verdict"] == "holds")
    print(
        f"{property_id} [{tier}] rules={len({i['rule'] for i in ctx.instances})} "
        f"obligations={len(ctx.instances)} discharged={holds} known={len(seen_known)} "
        f"violations={len(new)} wall={time.time()-t0:.2f}s"
    )
    return rc


def _group(instances: List[Dict[str, Any]]) -> List[Dict[str, Any]]:
    """One row per (rule, function, obligation text, verdict) with the number of instances and one example."""
    out: Dict[tuple, Dict[str, Any]] = {}
    for i in instances:
        k = (i["rule"], i["where"], i["obligation"] if i["verdict"] == "holds" or len(i["obligation"]) < 200 else i["obligation"][:200], i["verdict"])
        if k not in out:
            ex = {x: y for x, y in i.items() if x not in ("rule", "where", "obligation", "verdict")}
            out[k] = {"rule": k[0], "where": k[1], "obligation": k[2], "verdict": k[3], "instances": 0, "example": ex}
        out[k]["instances"] += 1
    return list(out.values())


def _write_evidence(
    ctx: Ctx,
    level: str,
    seed: int,
    t0: float,
    explanation: str,
    checker_cmd: str,
    n_viol: int = 0,
    n_known: int = 0,
    error: Optional[str] = None,
) -> None:
    if os.environ.get("MTSA_NO_EVIDENCE"):
        return
    holds = [i for i in ctx.instances if i["verdict"] == "holds"]
    distinct = {(i["rule"], i["where"], i["obligation"]) for i in ctx.instances}
    rules: Dict[str, int] = {}
    for i in ctx.instances:
        rules[i["rule"]] = rules.get(i["rule"], 0) + 1
    cov: Dict[str, Any] = {
        "explanation": explanation,
        "obligations": len(ctx.instances),
        "discharged": len(holds),
        "checker_cmd": checker_cmd,
        "trusted_base": ctx.trusted,
        "evaluations": len(ctx.instances),
        "distinct_nontrivial": len(distinct),
        "rule": "one evaluation = one rule instance (obligation) located in /repo's current source by the "
        "analysis; distinct = distinct (rule, function, obligation) triples; every one is non-trivial in "
        "that it was matched against a concrete construct of the analysed tree",
        "samples": ctx.instances[:12],
        "rules_applied": rules,
        "functions_analysed": sorted(ctx.functions),
        "counters": ctx.counters,
        "known_findings_matched": n_known,
        "notes": ctx.notes,
        "exhaustive": True,
        "obligations_grouped": _group(ctx.instances),
    }
    if error:
        cov["analysis_error"] = error
    ev = {
        "property_id": ctx.property_id,
        "tier": ctx.tier,
        "seed": seed,
        "level": level,
        "coverage": cov,
        "assumptions": ctx.assumptions,
        "wall_s": round(time.time() - t0, 3),
        "violations": n_viol,
    }
    d = VERIF / "evidence"
    d.mkdir(exist_ok=True)
    (d / f"{ctx.property_id}.json").write_text(json.dumps(ev, indent=1, default=str))
