"""C17 - only code the filter admits, outside __main__, is ever recorded (static clauses).

R-C17.1  the filter verdict gates every effect of the profile function (abstract interpretation of __call__)
R-C17.2  __main__ never reaches the store (CallTraceStoreLogger.log / flush)
R-C17.3  default_code_filter: synthetic names rejected first; both sides of the path test resolved; all
         three library roots; exclusion quantifies over all roots; allow-list branch
R-C17.4  the filter object is forwarded unchanged Config.code_filter() -> trace() -> trace_calls -> CallTracer
"""
from __future__ import annotations

import ast
from typing import Any, Dict, List, Optional, Tuple

from mtsa.absint import K, R, S, U, V, State
from mtsa.index import Repo, calls_in, dotted, norm, walk_no_nested
from mtsa.report import AnalysisError, Ctx

from .common import (RepoInterp, attr_is_param, bound_argument, call_sites, cfg_of, comprehension_conditions,
                     has_guard, is_call_to, is_none, method_call, returns_of)
from .tracer_model import TRUSTED, TracerScenario

LEVEL = "other"
EXPLANATION = (
    "Static decision of the structural clauses of C17: CallTracer.__call__ is interpreted abstractly for every event kind "
    "x filter {absent, accepts, rejects}: a rejected code object reaches neither handle_call nor handle_return nor any "
    "other effect, an accepted one is always dispatched, and the filter is asked about the frame's own code object. "
    "CallTraceStoreLogger.log is interpreted for module names {__main__, other}: only non-__main__ traces are appended, "
    "flush hands exactly the collected list to store.add and resets it. default_code_filter is interpreted in an abstract "
    "file-system world (three library roots - one configured through a symbolic link -, a link into site-packages, sibling "
    "directories whose names merely start like a root, relative and synthetic file names; pathlib/os.path/os.environ/sysconfig "
    "catalogued) on 14 code objects x 10 allow-lists and must agree with an oracle written from the property's sentence; "
    "synthetic names must be rejected before any path work. The filter is forwarded unchanged from the config to the tracer "
    "(trace()/trace_calls interpreted with a symbolic configuration). Not decided: the verdict for each real file of the "
    "installed interpreter (file-system enumeration), lru_cache staleness of default_code_filter w.r.t. the environment."
)
M = "monkeytype.tracing"


def rule_filter_gate(ctx: Ctx, repo: Repo) -> None:
    fi = repo.method(repo.cls(M, "CallTracer"), "__call__")
    ctx.functions.add(fi.fq)
    ps = fi.positional_params()
    if len(ps) != 4:
        raise AnalysisError("CallTracer.__call__ signature changed")
    _, pframe, pevent, parg = ps
    code = R("code", co_name=K("f"), co_filename=K("/src/app.py"))
    fr = R("frame", f_code=code)
    for event in ("call", "return"):
        for verdict in ("absent", "accept", "reject"):
            attrs: Dict[str, V] = {"should_trace": K(None) if verdict == "absent" else S("filter")}
            sc = TracerScenario(repo, "__call__", attrs)
            calls: List[Tuple[str, Tuple[V, ...]]] = []
            asked: List[Tuple[V, ...]] = []

            def hook(call, fname, fval, args, kwargs, st, _calls=calls, _sc=sc, _asked=asked, _verdict=verdict):
                if isinstance(fval, S) and fval.name == "self" and isinstance(call.func, ast.Attribute):
                    if call.func.attr in ("handle_call", "handle_return"):
                        _calls.append((call.func.attr, tuple(args)))
                        return K(None)
                    if call.func.attr == "should_trace":
                        _asked.append(tuple(args))
                        return K(_verdict == "accept")
                return TracerScenario.call_hook(_sc, call, fname, fval, args, kwargs, st)

            sc.ri.call_hook = hook
            outs = sc.run({pframe: fr, pevent: K(event), parg: S("arg")})
            if len(outs) != 1:
                raise AnalysisError("__call__: forked")
            lab = f"event={event} filter={verdict}"
            other = [e for e in outs[0].effects if str(e[0]).startswith(("setitem", "delitem", "logger.", "get_type", "get_func", "setattr"))]
            if verdict != "absent":
                ctx.check(len(asked) == 1 and asked[0] == (code,), "R-C17.1", fi.fq,
                          "the filter is asked exactly once about the frame's own code object",
                          construct=f"{lab}: filter calls {asked}")
            if verdict == "reject":
                ctx.check(not calls and not other, "R-C17.1", fi.fq,
                          "a rejected code object reaches no handler and causes no effect",
                          construct=f"{lab}: dispatched {[c[0] for c in calls]}, effects {[e[0] for e in other]}")
            else:
                want = "handle_call" if event == "call" else "handle_return"
                ctx.check([c[0] for c in calls] == [want], "R-C17.1", fi.fq,
                          "an admitted (or unfiltered) event is always dispatched to its handler",
                          construct=f"{lab}: dispatched {[c[0] for c in calls]}")
    # a filter is any callable: its own truth value says nothing (a callable collection of names may be empty and reject
    # everything); only its *answer* may decide
    for event in ("call", "return"):
        for verdict in ("accept", "reject"):
            sc = TracerScenario(repo, "__call__", {"should_trace": S("filter", truth=False)})
            calls3: List[str] = []
            asked3: List[Tuple[V, ...]] = []

            def hook3(call, fname, fval, args, kwargs, st, _c=calls3, _sc=sc, _a=asked3, _v=verdict):
                if isinstance(fval, S) and fval.name == "self" and isinstance(call.func, ast.Attribute):
                    if call.func.attr in ("handle_call", "handle_return"):
                        _c.append(call.func.attr)
                        return K(None)
                    if call.func.attr == "should_trace":
                        _a.append(tuple(args))
                        return K(_v == "accept")
                return TracerScenario.call_hook(_sc, call, fname, fval, args, kwargs, st)

            sc.ri.call_hook = hook3
            outs = sc.run({pframe: fr, pevent: K(event), parg: S("arg")})
            if len(outs) != 1:
                raise AnalysisError("__call__: forked")
            want3 = [] if verdict == "reject" else ["handle_call" if event == "call" else "handle_return"]
            ctx.check(calls3 == want3 and (len(asked3) == 1 or verdict == "accept"), "R-C17.1", fi.fq,
                      "a filter object that is itself falsy (a callable with __len__ 0 or __bool__ False) is still asked, and its answer decides",
                      construct=f"event={event}, falsy filter object that would {verdict}: asked {len(asked3)} time(s), dispatched {calls3}")
    # the gate depends on nothing but the event kind and the filter's answer: with every other attribute of the code object
    # unknown, the interpretation must not have to ask about it
    for event in ("call", "return"):
        for verdict in ("absent", "accept"):
            attrs2: Dict[str, V] = {"should_trace": K(None) if verdict == "absent" else S("filter")}
            sc = TracerScenario(repo, "__call__", attrs2, may_fork=("*",))
            calls4: List[str] = []

            def hook4(call, fname, fval, args, kwargs, st, _c=calls4, _sc=sc):
                if isinstance(fval, S) and fval.name == "self" and isinstance(call.func, ast.Attribute):
                    if call.func.attr in ("handle_call", "handle_return"):
                        _c.append(call.func.attr)
                        return K(None)
                    if call.func.attr == "should_trace":
                        return K(True)
                return TracerScenario.call_hook(_sc, call, fname, fval, args, kwargs, st)

            sc.ri.call_hook = hook4
            anycode = R("code", co_name=U("any function name"), co_filename=U("any file"), co_firstlineno=U("any line"), co_flags=U("any flags"))
            outs = sc.run({pframe: R("frame", f_code=anycode), pevent: K(event), parg: S("arg")})
            asked_about = sorted(set(sc.ri.forked))
            ctx.check(len(outs) == 1 and not asked_about, "R-C17.1", fi.fq,
                      "whether an admitted event is recorded depends on the event kind and the filter's answer only - not on the function's name, file or flags",
                      construct=f"event={event} filter={verdict}: the gate also depends on {asked_about}" if asked_about else f"event={event} filter={verdict}")
    # the verdict used for an event is the filter's verdict about *that* code object, whatever was asked before
    # (two code objects may share file name, first line and name: lambdas, one-line definitions, generated code)
    c1 = R("code", co_name=K("step"), co_filename=K("/src/app.py"), co_firstlineno=K(10), ident=K(1))
    c2 = R("code", co_name=K("step"), co_filename=K("/src/app.py"), co_firstlineno=K(10), ident=K(2))
    for first, second in ((c1, c2), (c2, c1)):
        verdicts = {1: True, 2: False}
        carry = None
        for code_obj in (first, second):
            sc = TracerScenario(repo, "__call__", {"should_trace": S("filter")})
            calls2: List[str] = []
            def hook2(call, fname, fval, args, kwargs, st, _c=calls2, _sc=sc):
                if isinstance(call.func, ast.Attribute) and call.func.attr in ("handle_call", "handle_return") and isinstance(fval, S) and fval.name == "self":
                    _c.append(call.func.attr)
                    return K(None)
                if isinstance(call.func, ast.Attribute) and call.func.attr == "should_trace" and isinstance(fval, S) and fval.name == "self":
                    a = args[0] if args else None
                    return K(verdicts[a.fields["ident"].v]) if isinstance(a, R) and "ident" in a.fields else U("filter asked about something else")
                return TracerScenario.call_hook(_sc, call, fname, fval, args, kwargs, st)
            sc.ri.call_hook = hook2
            outs = sc.run({pframe: R("frame", f_code=code_obj), pevent: K("call"), parg: S("arg")}, carry=carry)
            if len(outs) != 1:
                raise AnalysisError("__call__: forked")
            carry = outs[0]
            want = ["handle_call"] if verdicts[code_obj.fields["ident"].v] else []
            ctx.check(calls2 == want, "R-C17.1", fi.fq,
                      "each event is admitted or rejected by the filter's verdict about its own code object, also when another code object with the same file, line and name was seen before",
                      construct=f"code object #{code_obj.fields['ident'].v} (filter says {verdicts[code_obj.fields['ident'].v]}) after #{first.fields['ident'].v}: dispatched {calls2}")
    # path form of the same fact: no CFG path leads from a rejecting verdict (false edge of the
    # filter call) to a handler call
    g = cfg_of(fi)
    filt_nodes = [x for x in g.stmts() if x.kind == "cond" and is_call_to(x.ast, "should_trace")]
    # (only applicable while the filter is called directly in a branch condition of __call__; if it moved into a
    # helper the abstract interpretation above, which inlines helpers, is the deciding rule)
    for n, c in g.find_calls(lambda c: isinstance(c.func, ast.Attribute) and c.func.attr in ("handle_call", "handle_return") and dotted(c.func.value) == "self"):
        bad = False
        for x in filt_nodes:
            for m, lab in g.succ[x.id]:
                if lab == "F" and n.id in g.reach(m):
                    bad = True
        ctx.check(not bad, "R-C17.1", fi.fq, "no path from a rejecting filter verdict to a handler call", construct=norm(c), node=c)


def rule_main_gate(ctx: Ctx, repo: Repo) -> None:
    ci = repo.cls("monkeytype.db.base", "CallTraceStoreLogger")
    log = repo.method(ci, "log")
    flush = repo.method(ci, "flush")
    ctx.functions.update({log.fq, flush.fq})
    tparam = log.positional_params()[1]
    INT_T, NONE_TT = S("class:builtins.int"), S("class:builtins.NoneType")
    # what was observed: nothing at all (a parameterless call that raised) up to everything
    shapes = [((), K(None), K(None)), ((), NONE_TT, K(None)), ((), K(None), INT_T), (((K("a"), INT_T),), K(None), K(None)), (((K("a"), INT_T),), INT_T, INT_T)]
    for modname, (argt, rett, yldt) in [(m_, sh_) for m_ in ("__main__", "app.models", "__main__.sub", "main") for sh_ in shapes]:
        ri = RepoInterp(repo, log, call_hook=None)
        effects: List[Any] = []

        def on_attr(obj, attr, node, st):
            if isinstance(obj, S) and obj.name == "self":
                return S("self." + attr)
            return None

        def hook(call, fname, fval, args, kwargs, st, _e=effects):
            if isinstance(fval, S) and fval.name.startswith("self.") and isinstance(call.func, ast.Attribute):
                _e.append((fval.name, call.func.attr, tuple(args)))
                return K(None)
            return None

        ri.interp.on_attr = on_attr
        ri.call_hook = hook
        trace = R("trace", func=R("func", __module__=K(modname), __qualname__=K("f"), __name__=K("f")), arg_types=R("dict", items=argt), return_type=rett, yield_type=yldt)
        shape_txt = f"{len(argt)} argument type(s), return {'absent' if rett == K(None) else 'present'}, yield {'absent' if yldt == K(None) else 'present'}"
        outs = ri.run({"self": S("self"), tparam: trace})
        if len(outs) != 1:
            raise AnalysisError("CallTraceStoreLogger.log forked")
        stores = [e for e in effects if e[0] == "self.traces" and e[1] in ("append", "extend", "insert", "__iadd__")]
        setattrs = [e for e in outs[0].effects if e[0] in ("setattr", "augassign")]
        store_calls = [e for e in effects if e[0] == "self.store"]
        if modname == "__main__":
            ctx.check(not stores and not setattrs and not store_calls, "R-C17.2", log.fq,
                      "a trace whose function belongs to __main__ is dropped by the store logger",
                      construct=f"module {modname!r}: {[(e[0], e[1]) for e in stores + store_calls]} {setattrs}")
        else:
            ctx.check(len(stores) == 1 and stores[0][1] == "append" and stores[0][2] == (trace,) and not store_calls, "R-C17.2", log.fq,
                      "every other trace is appended to the pending batch exactly once, whatever was observed for the call (a call that raised, took no arguments and yielded nothing is a call all the same)",
                      construct=f"module {modname!r}, {shape_txt}: {[(e[0], e[1]) for e in stores + store_calls]}")
    # flush: store.add(self.traces) once, then reset to an empty list
    ri = RepoInterp(repo, flush)
    effects2: List[Any] = []
    ri.interp.on_attr = lambda obj, attr, node, st: S("self." + attr) if isinstance(obj, S) and obj.name == "self" else None
    ri.call_hook = lambda call, fname, fval, args, kwargs, st: (effects2.append((fval.name, call.func.attr, tuple(args))) or K(None)) if isinstance(fval, S) and fval.name.startswith("self.") and isinstance(call.func, ast.Attribute) else None
    outs = ri.run({"self": S("self")})
    if len(outs) != 1:
        raise AnalysisError("flush forked")
    adds = [e for e in effects2 if e[0] == "self.store"]
    ctx.check(len(adds) == 1 and adds[0][1] == "add" and adds[0][2] == (S("self.traces"),), "R-C17.2", flush.fq,
              "flush hands exactly the pending batch to store.add, once", construct=f"{adds}")
    resets = [e for e in outs[0].effects if e[0] == "setattr" and e[2] == "traces"]
    ctx.check(len(resets) == 1 and isinstance(resets[0][3], R) and resets[0][3].kind == "list" and not resets[0][3].fields["items"],
              "R-C17.2", flush.fq, "flush resets the pending batch to an empty list", construct=f"{resets}")
    # nothing else in the class writes self.traces
    def only_called_from(m_: Any, roots: Tuple[str, ...], seen: Optional[set] = None) -> bool:
        """m_ is one of the root methods, or a helper every caller of which (within the class) is"""
        seen = seen or set()
        short = m_.qualname.split(".")[-1]
        if short in roots:
            return True
        if short in seen:
            return False
        seen.add(short)
        callers = [g_ for g_ in ci.methods.values() if g_ is not m_ and any(
            isinstance(c_, ast.Call) and isinstance(c_.func, ast.Attribute) and c_.func.attr == short and dotted(c_.func.value) == "self" for c_ in ast.walk(g_.node))]
        return bool(callers) and all(only_called_from(g_, roots, seen) for g_ in callers)

    for m in ci.methods.values():
        for x in walk_no_nested(m.node):
            if isinstance(x, ast.Assign) and any(dotted(t) == "self.traces" for t in x.targets):
                ctx.check(only_called_from(m, ("__init__", "flush")), "R-C17.2", m.fq,
                          "the pending batch is rebound only by __init__ and flush", construct=norm(x), node=x)


def rule_default_filter(ctx: Ctx, repo: Repo) -> None:
    """default_code_filter is interpreted on a table of code objects in an abstract file-system world (three library
    roots, a symbolic link into site-packages, look-alike directories, synthetic file names) x allow-lists; the verdict
    must equal the oracle written from the property's sentence."""
    from . import path_model as PM
    f = repo.fn("monkeytype.config", "default_code_filter")
    ctx.functions.add(f.fq)
    n = 0
    roots_seen = None
    for allow in PM.ALLOW_LISTS:
        sc = PM.FilterScenario(repo, allow)
        if roots_seen is None:
            roots_seen = sc.lib_paths()
        for fn, what in PM.FILES:
            if allow is not None and fn in PM.ALLOW_SKIP:
                continue
            kind, val, work = sc.verdict(fn)
            want = PM.oracle(fn, allow)
            n += 1
            lab = f"co_filename={fn!r} ({what}), MONKEYTYPE_TRACE_MODULES={'unset' if allow is None else repr(allow)}"
            if not fn or fn.startswith("<"):
                ctx.check(kind == "value" and val is False and not work, "R-C17.3", f.fq,
                          "code without a real source file is rejected before any path work",
                          construct=f"{lab}: {kind} {val}, path operations {work}")
                continue
            if allow is None:
                msg = "without an allow-list, code is admitted iff its resolved file lies under none of the library roots (stdlib, purelib, platlib)"
            else:
                msg = "with an allow-list, code is admitted iff some listed name is the file's module name or one of its packages, wherever it is installed"
            ctx.check(kind == "value" and val is want, "R-C17.3", f.fq, msg, construct=f"{lab}: verdict {val if kind == 'value' else kind + ' ' + str(val)}, expected {want}")
        ctx.check("MONKEYTYPE_TRACE_MODULES" in sc.env_reads, "R-C17.3", f.fq, "the allow-list comes from MONKEYTYPE_TRACE_MODULES",
                  construct=f"environment reads {sorted(set(sc.env_reads))}")
    ctx.floor("R-C17.3", "code objects x allow-lists decided for default_code_filter", n, 100)
    # histories: the verdict is about the code object's own file also after an equal code object of another file was asked
    # about (CPython: code objects compare equal when they differ only in co_filename - the same function text at the same
    # lines of a vendored copy, a generated module, an installed and a checked-out copy of one package)
    pairs = [("/py/site/requests/api.py", "/home/u/app/pkg/mod.py"), ("/home/u/app/pkg/mod.py", "/py/stdlib/json/decoder.py"), ("/home/u/app/main.py", "/link/requests/api.py")]
    nh = 0
    for first, second in pairs:
        sc = PM.FilterScenario(repo, None)
        k1, v1, st1 = sc.verdict_as_called(first)
        sc2 = PM.FilterScenario(repo, None)
        k2, v2, _ = sc2.verdict_as_called(second, carry=st1)
        nh += 1
        ctx.check(k2 == "value" and v2 is PM.oracle(second, None), "R-C17.3", f.fq,
                  "the verdict for a code object is about its own file, also right after an equal code object (same text, same lines) of another file was judged",
                  construct="the verdict is remembered per code object, and code objects of different files compare equal",
                  history=f"default_code_filter(code of {first}) then (code of {second}, equal but not identical): {k2} {v2}, expected {PM.oracle(second, None)}")
    ctx.floor("R-C17.3", "two-call histories of default_code_filter", nh, 3)
    ctx.note(f"LIB_PATHS in the abstract world: {roots_seen}")
    # the filter the default configuration ships
    dc = repo.cls("monkeytype.config", "DefaultConfig")
    m = repo.method(dc, "code_filter")
    ri = RepoInterp(repo, m, may_fork=())
    outs = ri.run({"self": S("self")})
    vals = [o.term[1] if o.term is not None and o.term[0] == "return" else None for o in outs]
    ctx.check(len(outs) == 1 and vals[0] == S("func:monkeytype.config.default_code_filter") and m.cls is dc, "R-C17.3", m.fq,
              "DefaultConfig.code_filter returns default_code_filter", construct=f"returns {vals}")


def rule_forwarding(ctx: Ctx, repo: Repo) -> None:
    from . import glue_model as GM
    ci = repo.cls(M, "CallTracer")
    ok, why = attr_is_param(repo, ci, "should_trace", "code_filter")
    ctx.check(ok, "R-C17.4", ci.fq, "CallTracer.should_trace is the constructor's code_filter parameter, stored once", construct=why)
    GM.check_tracer_forwarding(ctx, repo, "R-C17.4", "code_filter", "code_filter", "trace_calls forwards its code_filter to the tracer")
    GM.check_forwarding(ctx, repo, "R-C17.4", "code_filter", "code_filter", "trace() passes config.code_filter() to trace_calls")
    GM.check_forwarding(ctx, repo, "R-C17.4", "logger", "trace_logger", "trace() passes config.trace_logger() to trace_calls")
    cfgc = repo.cls("monkeytype.config", "Config")
    tl = repo.method(cfgc, "trace_logger")
    made = GM.default_logger(repo)
    ctx.check(made is not None and made[0] == "CallTraceStoreLogger", "R-C17.4", tl.fq,
              "the default trace logger is the store logger (which drops __main__)", construct=f"returns {made}")


def run(ctx: Ctx, repo: Repo, tier: str) -> None:
    ctx.trust(*TRUSTED)
    ctx.trust("pathlib: a.relative_to(b) raises ValueError unless a is b or below b; Path.resolve() makes the path absolute and resolves symlinks")
    ctx.attempt(rule_filter_gate, ctx, repo)
    ctx.attempt(rule_main_gate, ctx, repo)
    ctx.attempt(rule_default_filter, ctx, repo)
    ctx.attempt(rule_forwarding, ctx, repo)
    # the filter is asked about the frame's code object, the logger receives the *function* looked up for that frame: if
    # the lookup can return a function whose code is not that very object (a twin with equal code in another file), a
    # rejected function is recorded in place of the accepted one.  C02's attribution rules are that necessary condition.
    from . import c02 as _c02
    from .memo_rules import tracer_attribution_history
    ctx.note("R-C02.4 below is C02's attribution rule, run here as a necessary condition of C17 (the recorded function is the one whose code the filter judged)")
    ctx.attempt(_c02.rule_attribution, ctx, repo)
    ctx.attempt(tracer_attribution_history, ctx, repo, "R-C02.4")
    # the module the __main__ gate tested is the module the row is stored under (R-C08.10)
    from . import c08 as _c08
    ctx.attempt(_c08.rule_row_names, ctx, repo)
    ctx.settle()
